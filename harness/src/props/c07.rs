//! C07 - process image: inputs latched once per cycle, outputs published once at the end,
//! direct addresses are local (little-endian, bit n of byte b), a faulted cycle publishes
//! no program-computed outputs.
//!
//! Search "cycle": a generated CONFIGURATION (1-4 programs over 0-3 periodic tasks and the
//! background group, 1-12 AT-declared variables over %I/%Q/%M in every I/O-capable
//! elementary type, overlapping / touching / image-end-crossing spans, copy programs with
//! partial accesses and an optional input-triggered division by zero) is compiled with
//! `TestHarness::from_source`, 1-3 instrumented `IoDriver`s are registered whose owned input
//! bytes change on every `read_inputs` call and which log every call (with a copy of the
//! image, and - when a debug control is attached - the runtime events drained at that
//! moment) into one shared, ordered log. Between cycles direct `IoInterface::read/write`
//! operations are issued at generated addresses. Oracle: a byte-array model of the three
//! images plus an interpreter for the copy programs.
//!
//! Search "direct": operation sequences (resize / write / read / mistyped write) on a bare
//! `IoInterface` against the same byte-array model.

use std::cell::RefCell;
use std::sync::atomic::{AtomicBool, Ordering};
use std::sync::{Arc, Mutex};

use proptest::prelude::*;
use serde::{Deserialize, Serialize};
use serde_json::json;
use trust_runtime::debug::{DebugControl, RuntimeEvent};
use trust_runtime::error::RuntimeError;
use trust_runtime::harness::TestHarness;
use trust_runtime::io::{IoAddress, IoDriver, IoInterface, IoSafeState};
use trust_runtime::value::{Duration, Value};
use trust_runtime::watchdog::FaultPolicy;
use trust_runtime::Runtime;

use crate::engine::tape::{Reader, Tape};
use crate::engine::{Probe, PropertyInfo, RunCtx};

pub fn info() -> PropertyInfo {
    PropertyInfo {
        id: "C07",
        level: "exploration",
        rule: "search 'cycle': generated CONFIGURATIONs (1-4 copy programs over 0-3 periodic tasks + background group, 1-12 AT variables over %I/%Q/%M in all 17 I/O-capable elementary types, byte 0-64) run for 1-4 cycles against 1-3 instrumented drivers whose input bytes change on every read_inputs call, with direct IoInterface reads/writes between cycles; search 'direct': resize/read/write sequences on a bare IoInterface. Non-trivial (cycle) = >= 2 bindings that overlap or touch, or programs of >= 2 different tasks reading the same input bytes, or a multi-byte span crossing the image length it met; non-trivial (direct) = a multi-byte or bit access into a non-zero image or across its end; distinct by SHA-256 of the case",
        assumptions: &[
            "a byte beyond the current image length reads as 0 (an image byte that was never written is 0) and a write beyond it grows the image; image lengths themselves are not asserted (comparison is modulo trailing zero bytes)",
            "drivers own disjoint input bytes; the order in which several drivers are called is not asserted",
            "where several output/marker bindings cover the same byte the published byte may come from any of them (any write order is accepted)",
            "every output/marker variable has one writer program and programs exchange no data, so the oracle does not depend on the order of tasks (that is C06)",
            "all periodic tasks share one interval and the clock advances by 0 or exactly that interval per cycle",
        ],
        workers_quick: 8,
        workers_thorough: 16,
        address_space_limit: 0,
        watchdog_quick_s: 600,
        watchdog_thorough_s: 7200,
        run,
    }
}

// ---------------------------------------------------------------------------------------
// types and encodings
// ---------------------------------------------------------------------------------------

#[derive(Clone, Copy, Debug, PartialEq, Eq, Hash, Serialize, Deserialize)]
pub enum Ty {
    Bool,
    SInt,
    USInt,
    Byte,
    Char,
    Int,
    UInt,
    Word,
    WChar,
    DInt,
    UDInt,
    DWord,
    Real,
    LInt,
    ULInt,
    LWord,
    LReal,
}

const ALL_TYPES: [Ty; 17] = [
    Ty::Bool,
    Ty::SInt,
    Ty::USInt,
    Ty::Byte,
    Ty::Char,
    Ty::Int,
    Ty::UInt,
    Ty::Word,
    Ty::WChar,
    Ty::DInt,
    Ty::UDInt,
    Ty::DWord,
    Ty::Real,
    Ty::LInt,
    Ty::ULInt,
    Ty::LWord,
    Ty::LReal,
];

const REAL_LITS: [(&str, f32); 6] = [
    ("0.0", 0.0),
    ("1.5", 1.5),
    ("-0.25", -0.25),
    ("1024.0", 1024.0),
    ("-65536.5", -65536.5),
    ("1.0E10", 1.0e10),
];
const LREAL_LITS: [(&str, f64); 7] = [
    ("0.0", 0.0),
    ("1.5", 1.5),
    ("-0.25", -0.25),
    ("1024.0", 1024.0),
    ("-65536.5", -65536.5),
    ("1.0E10", 1.0e10),
    ("123456789.0", 123456789.0),
];

impl Ty {
    fn bits(self) -> u32 {
        match self {
            Ty::Bool => 1,
            Ty::SInt | Ty::USInt | Ty::Byte | Ty::Char => 8,
            Ty::Int | Ty::UInt | Ty::Word | Ty::WChar => 16,
            Ty::DInt | Ty::UDInt | Ty::DWord | Ty::Real => 32,
            Ty::LInt | Ty::ULInt | Ty::LWord | Ty::LReal => 64,
        }
    }
    /// Bytes of the image the type's span touches (a bit lives in one byte).
    fn span(self) -> usize {
        (self.bits() as usize).div_ceil(8)
    }
    fn mask(self) -> u64 {
        if self.bits() == 64 {
            u64::MAX
        } else {
            (1u64 << self.bits()) - 1
        }
    }
    fn st(self) -> &'static str {
        match self {
            Ty::Bool => "BOOL",
            Ty::SInt => "SINT",
            Ty::USInt => "USINT",
            Ty::Byte => "BYTE",
            Ty::Char => "CHAR",
            Ty::Int => "INT",
            Ty::UInt => "UINT",
            Ty::Word => "WORD",
            Ty::WChar => "WCHAR",
            Ty::DInt => "DINT",
            Ty::UDInt => "UDINT",
            Ty::DWord => "DWORD",
            Ty::Real => "REAL",
            Ty::LInt => "LINT",
            Ty::ULInt => "ULINT",
            Ty::LWord => "LWORD",
            Ty::LReal => "LREAL",
        }
    }
    fn letter(self) -> char {
        match self.bits() {
            1 => 'X',
            8 => 'B',
            16 => 'W',
            32 => 'D',
            _ => 'L',
        }
    }
    fn is_bitstring(self) -> bool {
        matches!(self, Ty::Byte | Ty::Word | Ty::DWord | Ty::LWord)
    }
}

/// The bit-string type of a partial access kind (0 = %X, 1 = %B, 2 = %W, 3 = %D).
fn part_ty(kind: u8) -> Ty {
    match kind {
        0 => Ty::Bool,
        1 => Ty::Byte,
        2 => Ty::Word,
        _ => Ty::DWord,
    }
}

fn part_letter(kind: u8) -> char {
    match kind {
        0 => 'X',
        1 => 'B',
        2 => 'W',
        _ => 'D',
    }
}

fn value_bits(v: &Value) -> Option<(Ty, u64)> {
    Some(match v {
        Value::Bool(b) => (Ty::Bool, *b as u64),
        Value::SInt(x) => (Ty::SInt, *x as u8 as u64),
        Value::USInt(x) => (Ty::USInt, *x as u64),
        Value::Byte(x) => (Ty::Byte, *x as u64),
        Value::Char(x) => (Ty::Char, *x as u64),
        Value::Int(x) => (Ty::Int, *x as u16 as u64),
        Value::UInt(x) => (Ty::UInt, *x as u64),
        Value::Word(x) => (Ty::Word, *x as u64),
        Value::WChar(x) => (Ty::WChar, *x as u64),
        Value::DInt(x) => (Ty::DInt, *x as u32 as u64),
        Value::UDInt(x) => (Ty::UDInt, *x as u64),
        Value::DWord(x) => (Ty::DWord, *x as u64),
        Value::Real(x) => (Ty::Real, x.to_bits() as u64),
        Value::LInt(x) => (Ty::LInt, *x as u64),
        Value::ULInt(x) => (Ty::ULInt, *x),
        Value::LWord(x) => (Ty::LWord, *x),
        Value::LReal(x) => (Ty::LReal, x.to_bits()),
        _ => return None,
    })
}

/// The `Value` a direct address of `size` (0 = X .. 4 = L) carries.
fn raw_value(size: u8, bits: u64) -> Value {
    match size {
        0 => Value::Bool(bits & 1 == 1),
        1 => Value::Byte(bits as u8),
        2 => Value::Word(bits as u16),
        3 => Value::DWord(bits as u32),
        _ => Value::LWord(bits),
    }
}

fn size_bits(size: u8) -> u32 {
    match size {
        0 => 1,
        1 => 8,
        2 => 16,
        3 => 32,
        _ => 64,
    }
}

fn size_letter(size: u8) -> char {
    ['X', 'B', 'W', 'D', 'L'][size.min(4) as usize]
}

fn lit_text(ty: Ty, bits: u64) -> String {
    match ty {
        Ty::Bool => if bits & 1 == 1 { "TRUE" } else { "FALSE" }.to_string(),
        Ty::SInt => format!("SINT#{}", bits as u8 as i8),
        Ty::Int => format!("INT#{}", bits as u16 as i16),
        Ty::DInt => format!("DINT#{}", bits as u32 as i32),
        Ty::LInt => format!("LINT#{}", bits as i64),
        Ty::USInt => format!("USINT#{}", bits as u8),
        Ty::UInt => format!("UINT#{}", bits as u16),
        Ty::UDInt => format!("UDINT#{}", bits as u32),
        Ty::ULInt => format!("ULINT#{}", bits),
        Ty::Byte => format!("BYTE#16#{:02X}", bits as u8),
        Ty::Word => format!("WORD#16#{:04X}", bits as u16),
        Ty::DWord => format!("DWORD#16#{:08X}", bits as u32),
        Ty::LWord => format!("LWORD#16#{:016X}", bits),
        Ty::Char => format!("CHAR#'{}'", bits as u8 as char),
        Ty::WChar => format!("WCHAR#\"{}\"", bits as u8 as char),
        Ty::Real => {
            let t = REAL_LITS
                .iter()
                .find(|(_, v)| v.to_bits() as u64 == bits)
                .map(|(t, _)| *t)
                .unwrap_or("0.0");
            format!("REAL#{t}")
        }
        Ty::LReal => {
            let t = LREAL_LITS
                .iter()
                .find(|(_, v)| v.to_bits() == bits)
                .map(|(t, _)| *t)
                .unwrap_or("0.0");
            format!("LREAL#{t}")
        }
    }
}

/// A literal the toolchain accepts for `ty` (64-bit magnitudes stay within i64, see notes).
fn gen_lit(ty: Ty, r: &mut Reader) -> u64 {
    match ty {
        Ty::Bool => r.pick(2) as u64,
        Ty::Char | Ty::WChar => {
            let i = r.pick(52) as u8;
            (if i < 26 { b'A' + i } else { b'a' + (i - 26) }) as u64
        }
        Ty::Real => REAL_LITS[r.pick(REAL_LITS.len())].1.to_bits() as u64,
        Ty::LReal => LREAL_LITS[r.pick(LREAL_LITS.len())].1.to_bits(),
        Ty::SInt | Ty::Int | Ty::DInt | Ty::LInt => {
            let b = ty.bits();
            let min = if b == 64 { i64::MIN + 1 } else { -(1i64 << (b - 1)) };
            let max = if b == 64 { i64::MAX } else { (1i64 << (b - 1)) - 1 };
            let v = match r.pick(8) {
                0 => 0,
                1 => 1,
                2 => -1,
                3 => min,
                4 => max,
                5 => 0x0102_0304_0506_0708i64 & max,
                _ => r.range_i64(min, max),
            };
            (v as u64) & ty.mask()
        }
        _ => {
            let max = if ty.bits() == 64 { i64::MAX as u64 } else { ty.mask() };
            let v = match r.pick(8) {
                0 => 0,
                1 => 1,
                2 => max,
                3 => 0xA55A_C33C_0FF0_8001u64,
                4 => 0x0102_0304_0506_0708u64,
                _ => r.u64(),
            };
            v & max
        }
    }
}

// ---------------------------------------------------------------------------------------
// case
// ---------------------------------------------------------------------------------------

/// 0 = %I, 1 = %Q, 2 = %M
type Area = u8;

fn area_letter(a: Area) -> char {
    ['I', 'Q', 'M'][a.min(2) as usize]
}

#[derive(Clone, Debug, PartialEq, Serialize, Deserialize)]
pub struct Addr {
    pub area: Area,
    pub byte: u16,
    pub bit: u8,
}

#[derive(Clone, Debug, PartialEq, Serialize, Deserialize)]
pub struct VarDecl {
    pub name: String,
    pub ty: Ty,
    pub at: Option<Addr>,
    pub init: Option<u64>,
    /// declared `AT %I*` / `%Q*` / `%M*` in the program, located by VAR_CONFIG
    #[serde(default)]
    pub via_config: bool,
}

/// scope 0 = VAR_GLOBAL of the configuration, k + 1 = VAR of program k.
#[derive(Clone, Copy, Debug, PartialEq, Eq, Serialize, Deserialize)]
pub struct VarId {
    pub scope: u8,
    pub idx: u16,
}

#[derive(Clone, Debug, PartialEq, Serialize, Deserialize)]
pub enum Src {
    Var(VarId),
    Lit(u64),
    /// `var.%<kind><idx>`
    Part { var: VarId, kind: u8, idx: u8 },
}

#[derive(Clone, Debug, PartialEq, Serialize, Deserialize)]
pub enum Stmt {
    Assign { dst: VarId, src: Src },
    AssignPart { dst: VarId, kind: u8, idx: u8, src: Src },
    /// `IF cond THEN ftmp := DINT#1 / fz; END_IF;` (fz = 0): faults iff the input is TRUE.
    FaultIf { cond: VarId },
}

#[derive(Clone, Debug, PartialEq, Serialize, Deserialize)]
pub struct Prog {
    pub task: Option<u8>,
    /// indices of the globals this program declares VAR_EXTERNAL
    pub ext: Vec<u16>,
    pub vars: Vec<VarDecl>,
    pub body: Vec<Stmt>,
}

#[derive(Clone, Debug, PartialEq, Serialize, Deserialize)]
pub struct DirectOp {
    pub write: bool,
    pub area: Area,
    /// 0 = X, 1 = B, 2 = W, 3 = D, 4 = L
    pub size: u8,
    pub byte: u16,
    pub bit: u8,
    pub value: u64,
    /// for writes: carry a `Value` of this other size instead (must not be accepted silently
    /// outside the span)
    pub mistyped: Option<u8>,
}

#[derive(Clone, Debug, PartialEq, Serialize, Deserialize)]
pub struct CycleSpec {
    /// advance the clock by the task interval (all tasks due) or not at all (none due)
    pub step: bool,
    pub ops: Vec<DirectOp>,
    /// this driver's read_inputs fails in this cycle
    pub fail_read: Option<u8>,
}

#[derive(Clone, Debug, PartialEq, Serialize, Deserialize)]
pub struct Case {
    /// initial image lengths (inputs, outputs, memory)
    pub len: [u8; 3],
    pub bare: bool,
    pub globals: Vec<VarDecl>,
    pub progs: Vec<Prog>,
    /// task priorities
    pub tasks: Vec<u8>,
    pub driver_seeds: Vec<u32>,
    /// owner of input byte b: driver index or 255 = nobody
    pub owner: Vec<u8>,
    pub cycles: Vec<CycleSpec>,
    pub debug: bool,
    /// Some = FaultPolicy::SafeHalt with these (size, byte, bit, value) %Q safe values
    pub safe: Option<Vec<(u8, u16, u8, u64)>>,
}

const MAX_BYTE: u16 = 64;
const OWNER_LEN: usize = 96;

struct Gen<'a, 'b> {
    r: &'a mut Reader<'b>,
    len: [u8; 3],
    used: Vec<(Area, usize, usize)>,
}

impl Gen<'_, '_> {
    fn addr(&mut self, area: Area, ty: Ty) -> Addr {
        let w = ty.span();
        let same: Vec<(usize, usize)> = self
            .used
            .iter()
            .filter(|u| u.0 == area)
            .map(|u| (u.1, u.2))
            .collect();
        let len = self.len[area as usize] as usize;
        let mode = self.r.weighted(&[4, 2, 2, 1, 1, 2]);
        let mut byte: i64 = match mode {
            1 if !same.is_empty() => same[self.r.pick(same.len())].0 as i64,
            2 if !same.is_empty() => same[self.r.pick(same.len())].1 as i64,
            3 if !same.is_empty() => same[self.r.pick(same.len())].0 as i64 - w as i64,
            4 if !same.is_empty() => same[self.r.pick(same.len())].0 as i64 + 1,
            5 if len > 0 => len as i64 - 1 - self.r.pick(w.max(2) - 1) as i64,
            _ => self.r.pick(MAX_BYTE as usize + 1) as i64,
        };
        byte = byte.clamp(0, MAX_BYTE as i64);
        let bit = if ty == Ty::Bool { self.r.pick(8) as u8 } else { 0 };
        self.used.push((area, byte as usize, byte as usize + w));
        Addr {
            area,
            byte: byte as u16,
            bit,
        }
    }
}

fn mix(a: u32, b: u32, c: u32) -> u32 {
    let mut x = a
        .wrapping_mul(0x9E37_79B1)
        .wrapping_add(b.wrapping_mul(0x85EB_CA77))
        .wrapping_add(c.wrapping_mul(0xC2B2_AE3D))
        .wrapping_add(0x27D4_EB2F);
    x ^= x >> 15;
    x = x.wrapping_mul(0x2C1B_3C6D);
    x ^= x >> 12;
    x = x.wrapping_mul(0x297A_2D39);
    x ^= x >> 15;
    x
}

/// The byte an instrumented driver puts at position `b` on its `call`-th read: always
/// different from the byte it finds there.
fn stream_byte(seed: u32, call: u32, b: usize, prev: u8) -> u8 {
    prev.wrapping_add(1 + (mix(seed, call, b as u32) % 255) as u8)
}

/// A rare event (about 1 in `n`) decided by two tape words; never on a zero/exhausted tape.
/// (The tape's words are often 0 or MAX, so a single-word `chance` cannot be rare.)
fn rare(r: &mut Reader, n: u32) -> bool {
    let a = r.word();
    let b = r.word();
    (a != 0 || b != 0) && mix(a, b, 0x5EED) % n == 0
}

fn var_decl<'a>(case: &'a Case, id: VarId) -> &'a VarDecl {
    if id.scope == 0 {
        &case.globals[id.idx as usize]
    } else {
        &case.progs[id.scope as usize - 1].vars[id.idx as usize]
    }
}

pub fn gen_case(t: &Tape) -> Case {
    let mut reader = Reader::new(t);
    let r = &mut reader;
    let nprogs = 1 + r.weighted(&[3, 4, 3, 2]);
    let ntasks = r.weighted(&[2, 3, 4, 2]).min(nprogs);
    let mut len = [0u8; 3];
    for l in len.iter_mut() {
        *l = match r.weighted(&[1, 3, 4]) {
            0 => 0,
            1 => 1 + r.pick(16) as u8,
            _ => 17 + r.pick(56) as u8,
        };
    }
    let nfocus = 1 + r.pick(3);
    let focus: Vec<Ty> = (0..nfocus).map(|_| ALL_TYPES[r.pick(17)]).collect();
    let tasks: Vec<u8> = (0..ntasks).map(|_| r.pick(4) as u8).collect();
    let bare = nprogs == 1 && ntasks == 0 && r.chance(2, 3);
    let mut progs: Vec<Prog> = (0..nprogs)
        .map(|k| Prog {
            task: if ntasks == 0 || r.chance(1, 4) {
                None
            } else if r.chance(1, 2) {
                Some((k % ntasks) as u8)
            } else {
                Some(r.pick(ntasks) as u8)
            },
            ext: Vec::new(),
            vars: Vec::new(),
            body: Vec::new(),
        })
        .collect();
    let mut globals: Vec<VarDecl> = Vec::new();
    let mut global_owner: Vec<Option<usize>> = Vec::new();
    let mut g = Gen {
        r,
        len,
        used: Vec::new(),
    };

    // AT-declared variables
    let n_at = 1 + g.r.pick(12);
    for _ in 0..n_at {
        let ty = if g.r.chance(3, 4) {
            focus[g.r.pick(focus.len())]
        } else {
            ALL_TYPES[g.r.pick(17)]
        };
        let area = g.r.weighted(&[4, 4, 2]) as Area;
        let at = g.addr(area, ty);
        let init = if area != 0 && g.r.chance(1, 4) {
            Some(gen_lit(ty, g.r))
        } else {
            None
        };
        if !bare && g.r.chance(if area == 0 { 4 } else { 2 }, 8) {
            let name = format!("g{}", globals.len());
            globals.push(VarDecl {
                name,
                ty,
                at: Some(at),
                init,
                via_config: false,
            });
            global_owner.push(if area == 0 {
                None
            } else {
                Some(g.r.pick(nprogs))
            });
        } else {
            let k = g.r.pick(nprogs);
            let name = format!("v{}", progs[k].vars.len());
            let via_config = !bare && g.r.chance(1, 6);
            progs[k].vars.push(VarDecl {
                name,
                ty,
                at: Some(at),
                init,
                via_config,
            });
        }
    }
    // VAR_EXTERNAL: input globals are shared, other globals belong to their one writer
    for (gi, decl) in globals.iter().enumerate() {
        for (k, p) in progs.iter_mut().enumerate() {
            let import = match global_owner[gi] {
                Some(o) => o == k,
                None => g.r.chance(7, 8),
            };
            if import {
                p.ext.push(gi as u16);
            }
        }
        let _ = decl;
    }
    // optional fault trigger
    let fault_prog = if g.r.chance(1, 3) {
        Some(g.r.pick(nprogs))
    } else {
        None
    };
    if let Some(k) = fault_prog {
        let has_bool_input = progs[k]
            .vars
            .iter()
            .any(|v| v.ty == Ty::Bool && v.at.as_ref().map(|a| a.area) == Some(0))
            || progs[k]
                .ext
                .iter()
                .any(|gi| globals[*gi as usize].ty == Ty::Bool && globals[*gi as usize].at.as_ref().map(|a| a.area) == Some(0));
        if !has_bool_input {
            let at = g.addr(0, Ty::Bool);
            let name = format!("v{}", progs[k].vars.len());
            progs[k].vars.push(VarDecl {
                name,
                ty: Ty::Bool,
                at: Some(at),
                init: None,
                via_config: false,
            });
        }
    }
    // locals: copies of the visible inputs, plus a few free ones
    // (program, local, the input it copies)
    let mut copies: Vec<(usize, VarId, VarId)> = Vec::new();
    for k in 0..nprogs {
        let mut want: Vec<(Ty, Option<VarId>)> = Vec::new();
        for (i, v) in progs[k].vars.iter().enumerate() {
            if v.at.as_ref().map(|a| a.area) == Some(0) {
                for _ in 0..g.r.weighted(&[1, 2, 1]) {
                    want.push((
                        v.ty,
                        Some(VarId {
                            scope: k as u8 + 1,
                            idx: i as u16,
                        }),
                    ));
                }
            }
        }
        for gi in progs[k].ext.iter() {
            let d = &globals[*gi as usize];
            if d.at.as_ref().map(|a| a.area) == Some(0) {
                for _ in 0..g.r.weighted(&[1, 2, 1]) {
                    want.push((
                        d.ty,
                        Some(VarId {
                            scope: 0,
                            idx: *gi,
                        }),
                    ));
                }
            }
        }
        for _ in 0..g.r.pick(3) {
            want.push((focus[g.r.pick(focus.len())], None));
        }
        want.truncate(8);
        for (ty, from) in want {
            if let Some(input) = from {
                copies.push((
                    k,
                    VarId {
                        scope: k as u8 + 1,
                        idx: progs[k].vars.len() as u16,
                    },
                    input,
                ));
            }
            let name = format!("v{}", progs[k].vars.len());
            let init = if g.r.chance(1, 5) {
                Some(gen_lit(ty, g.r))
            } else {
                None
            };
            progs[k].vars.push(VarDecl {
                name,
                ty,
                at: None,
                init,
                via_config: false,
            });
        }
    }
    // bodies
    for k in 0..nprogs {
        let scope = k as u8 + 1;
        // (id, ty, is_input)
        let mut visible: Vec<(VarId, Ty, bool)> = Vec::new();
        for (i, v) in progs[k].vars.iter().enumerate() {
            visible.push((
                VarId {
                    scope,
                    idx: i as u16,
                },
                v.ty,
                v.at.as_ref().map(|a| a.area) == Some(0),
            ));
        }
        for gi in progs[k].ext.iter() {
            let d = &globals[*gi as usize];
            visible.push((
                VarId {
                    scope: 0,
                    idx: *gi,
                },
                d.ty,
                d.at.as_ref().map(|a| a.area) == Some(0),
            ));
        }
        let writable: Vec<(VarId, Ty)> = visible.iter().filter(|v| !v.2).map(|v| (v.0, v.1)).collect();
        let mut body: Vec<Stmt> = Vec::new();
        let gen_src = |g: &mut Gen, ty: Ty| -> Src {
            let same: Vec<VarId> = visible.iter().filter(|v| v.1 == ty).map(|v| v.0).collect();
            // partial reads: a wider bit string that is visible
            let kind = match ty {
                Ty::Bool => Some(0u8),
                Ty::Byte => Some(1),
                Ty::Word => Some(2),
                Ty::DWord => Some(3),
                _ => None,
            };
            let wider: Vec<(VarId, Ty)> = match kind {
                Some(_) => visible
                    .iter()
                    .filter(|v| v.1.is_bitstring() && v.1.bits() > ty.bits())
                    .map(|v| (v.0, v.1))
                    .collect(),
                None => Vec::new(),
            };
            let weights = [
                if same.is_empty() { 0 } else { 5 },
                2,
                if wider.is_empty() { 0 } else { 1 },
            ];
            match g.r.weighted(&weights) {
                0 => Src::Var(same[g.r.pick(same.len())]),
                2 => {
                    let (var, vty) = wider[g.r.pick(wider.len())];
                    let n = (vty.bits() / ty.bits()) as usize;
                    Src::Part {
                        var,
                        kind: kind.unwrap_or(0),
                        idx: g.r.pick(n) as u8,
                    }
                }
                _ => Src::Lit(gen_lit(ty, g.r)),
            }
        };
        if !writable.is_empty() {
            let nst = g.r.pick(9);
            for _ in 0..nst {
                let (dst, ty) = writable[g.r.pick(writable.len())];
                if ty.is_bitstring() && g.r.chance(1, 4) {
                    // partial write
                    let kinds: Vec<u8> = (0u8..4).filter(|k| part_ty(*k).bits() < ty.bits()).collect();
                    let kind = kinds[g.r.pick(kinds.len())];
                    let n = (ty.bits() / part_ty(kind).bits()) as usize;
                    let idx = g.r.pick(n) as u8;
                    let src = gen_src(&mut g, part_ty(kind));
                    body.push(Stmt::AssignPart {
                        dst,
                        kind,
                        idx,
                        src,
                    });
                } else {
                    let src = gen_src(&mut g, ty);
                    body.push(Stmt::Assign { dst, src });
                }
            }
            // tail: tie outputs/markers to fresh inputs so that an early publish shows
            for (dst, ty) in writable.iter() {
                let inputs: Vec<VarId> = visible.iter().filter(|v| v.2 && v.1 == *ty).map(|v| v.0).collect();
                if !inputs.is_empty() && g.r.chance(1, 2) {
                    let src = Src::Var(inputs[g.r.pick(inputs.len())]);
                    body.push(Stmt::Assign { dst: *dst, src });
                }
            }
        }
        // copies of an input at several points of the body
        for (pk, local, input) in copies.iter() {
            if *pk == k && g.r.chance(3, 4) {
                let pos = g.r.pick(body.len() + 1);
                body.insert(
                    pos,
                    Stmt::Assign {
                        dst: *local,
                        src: Src::Var(*input),
                    },
                );
            }
        }
        if fault_prog == Some(k) {
            let conds: Vec<VarId> = visible.iter().filter(|v| v.2 && v.1 == Ty::Bool).map(|v| v.0).collect();
            if !conds.is_empty() {
                let cond = conds[g.r.pick(conds.len())];
                let pos = g.r.pick(body.len() + 1);
                body.insert(pos, Stmt::FaultIf { cond });
            }
        }
        progs[k].body = body;
    }
    // drivers
    let nd = 1 + g.r.weighted(&[4, 3, 2]);
    let driver_seeds: Vec<u32> = (0..nd).map(|_| g.r.word() | 1).collect();
    let okind = g.r.pick(4);
    let oword = g.r.word();
    let owner: Vec<u8> = (0..OWNER_LEN)
        .map(|b| {
            let o = match okind {
                0 => b % nd,
                1 => (b / 4) % (nd + 1),
                2 => (mix(oword, b as u32, 7) as usize) % (nd + 1),
                _ => {
                    if b < 8 {
                        0
                    } else {
                        nd
                    }
                }
            };
            if o >= nd {
                255
            } else {
                o as u8
            }
        })
        .collect();
    let debug = g.r.chance(1, 3);
    let safe = if g.r.chance(1, 3) {
        let n = 1 + g.r.pick(2);
        Some(
            (0..n)
                .map(|_| {
                    let size = g.r.pick(5) as u8;
                    let ty = [Ty::Bool, Ty::Byte, Ty::Word, Ty::DWord, Ty::LWord][size as usize];
                    let a = g.addr(1, ty);
                    let v = g.r.u64() & ty.mask();
                    (size, a.byte, a.bit, v)
                })
                .collect(),
        )
    } else {
        None
    };
    // cycles
    let nc = 1 + g.r.weighted(&[1, 3, 3, 3]);
    let mut cycles = Vec::new();
    for _ in 0..nc {
        let step = g.r.chance(6, 7);
        let fail_read = if rare(g.r, 60) {
            Some(g.r.pick(nd) as u8)
        } else {
            None
        };
        let nops = g.r.pick(4);
        let mut ops = Vec::new();
        for _ in 0..nops {
            let write = g.r.chance(2, 3);
            let area = g.r.pick(3) as Area;
            let size = g.r.pick(5) as u8;
            let ty = [Ty::Bool, Ty::Byte, Ty::Word, Ty::DWord, Ty::LWord][size as usize];
            let a = g.addr(area, ty);
            // direct operations do not count as bindings for later address choices
            g.used.pop();
            let value = match g.r.pick(4) {
                0 => 0,
                1 => u64::MAX,
                _ => g.r.u64(),
            } & ty.mask();
            let mistyped = if write && g.r.chance(1, 8) {
                Some(((size as usize + 1 + g.r.pick(4)) % 5) as u8)
            } else {
                None
            };
            ops.push(DirectOp {
                write,
                area,
                size,
                byte: a.byte,
                bit: a.bit,
                value,
                mistyped,
            });
        }
        cycles.push(CycleSpec {
            step,
            ops,
            fail_read,
        });
    }
    Case {
        len,
        bare,
        globals,
        progs,
        tasks,
        driver_seeds,
        owner,
        cycles,
        debug,
        safe,
    }
}

// ---------------------------------------------------------------------------------------
// ST rendering
// ---------------------------------------------------------------------------------------

fn inst_name(case: &Case, k: usize) -> String {
    if case.bare {
        format!("Prog{k}")
    } else {
        format!("P{k}")
    }
}

fn at_text(a: &Addr, ty: Ty) -> String {
    let mut s = format!("%{}{}{}", area_letter(a.area), ty.letter(), a.byte);
    if ty == Ty::Bool {
        s.push_str(&format!(".{}", a.bit));
    }
    s
}

fn decl_text(d: &VarDecl) -> String {
    let mut s = format!("    {}", d.name);
    if let Some(a) = &d.at {
        if d.via_config {
            s.push_str(&format!(" AT %{}*", area_letter(a.area)));
        } else {
            s.push_str(&format!(" AT {}", at_text(a, d.ty)));
        }
    }
    s.push_str(&format!(" : {}", d.ty.st()));
    if let Some(v) = d.init {
        s.push_str(&format!(" := {}", lit_text(d.ty, v)));
    }
    s.push_str(";\n");
    s
}

fn src_text(case: &Case, src: &Src, ty: Ty) -> String {
    match src {
        Src::Var(v) => var_decl(case, *v).name.clone(),
        Src::Lit(b) => lit_text(ty, *b),
        Src::Part { var, kind, idx } => {
            format!("{}.%{}{}", var_decl(case, *var).name, part_letter(*kind), idx)
        }
    }
}

pub fn render(case: &Case) -> String {
    let mut s = String::new();
    if !case.bare {
        s.push_str("CONFIGURATION Cfg\n");
        if !case.globals.is_empty() {
            s.push_str("VAR_GLOBAL\n");
            for d in &case.globals {
                s.push_str(&decl_text(d));
            }
            s.push_str("END_VAR\n");
        }
        for (i, p) in case.tasks.iter().enumerate() {
            s.push_str(&format!("TASK T{i} (INTERVAL := T#10ms, PRIORITY := {p});\n"));
        }
        for (k, p) in case.progs.iter().enumerate() {
            match p.task {
                Some(t) => s.push_str(&format!("PROGRAM P{k} WITH T{t} : Prog{k};\n")),
                None => s.push_str(&format!("PROGRAM P{k} : Prog{k};\n")),
            }
        }
        let located: Vec<String> = case
            .progs
            .iter()
            .enumerate()
            .flat_map(|(k, p)| {
                p.vars.iter().filter(|d| d.via_config).filter_map(move |d| {
                    d.at.as_ref()
                        .map(|a| format!("    P{k}.{} AT {} : {};\n", d.name, at_text(a, d.ty), d.ty.st()))
                })
            })
            .collect();
        if !located.is_empty() {
            s.push_str("VAR_CONFIG\n");
            for l in located {
                s.push_str(&l);
            }
            s.push_str("END_VAR\n");
        }
        s.push_str("END_CONFIGURATION\n\n");
    }
    for (k, p) in case.progs.iter().enumerate() {
        s.push_str(&format!("PROGRAM Prog{k}\n"));
        if !p.ext.is_empty() {
            s.push_str("VAR_EXTERNAL\n");
            for gi in &p.ext {
                let d = &case.globals[*gi as usize];
                s.push_str(&format!("    {} : {};\n", d.name, d.ty.st()));
            }
            s.push_str("END_VAR\n");
        }
        let has_fault = p.body.iter().any(|st| matches!(st, Stmt::FaultIf { .. }));
        if !p.vars.is_empty() || has_fault {
            s.push_str("VAR\n");
            for d in &p.vars {
                s.push_str(&decl_text(d));
            }
            if has_fault {
                s.push_str("    fz : DINT := DINT#0;\n    ftmp : DINT;\n");
            }
            s.push_str("END_VAR\n");
        }
        for st in &p.body {
            match st {
                Stmt::Assign { dst, src } => {
                    let d = var_decl(case, *dst);
                    s.push_str(&format!("{} := {};\n", d.name, src_text(case, src, d.ty)));
                }
                Stmt::AssignPart {
                    dst,
                    kind,
                    idx,
                    src,
                } => {
                    let d = var_decl(case, *dst);
                    s.push_str(&format!(
                        "{}.%{}{} := {};\n",
                        d.name,
                        part_letter(*kind),
                        idx,
                        src_text(case, src, part_ty(*kind))
                    ));
                }
                Stmt::FaultIf { cond } => {
                    s.push_str(&format!(
                        "IF {} THEN ftmp := DINT#1 / fz; END_IF;\n",
                        var_decl(case, *cond).name
                    ));
                }
            }
        }
        s.push_str("END_PROGRAM\n\n");
    }
    s
}

// ---------------------------------------------------------------------------------------
// byte-array model
// ---------------------------------------------------------------------------------------

#[derive(Clone, Debug, Default)]
struct Images {
    a: [Vec<u8>; 3],
}

fn get_byte(img: &[u8], i: usize) -> u8 {
    img.get(i).copied().unwrap_or(0)
}

fn put_byte(img: &mut Vec<u8>, i: usize, v: u8) {
    if img.len() <= i {
        img.resize(i + 1, 0);
    }
    img[i] = v;
}

/// little-endian read of `bits` at byte/bit; bytes beyond the image are 0
fn model_read(img: &[u8], byte: usize, bit: u8, bits: u32) -> u64 {
    if bits == 1 {
        return ((get_byte(img, byte) >> bit) & 1) as u64;
    }
    let mut v = 0u64;
    for i in 0..(bits / 8) as usize {
        v |= (get_byte(img, byte + i) as u64) << (8 * i);
    }
    v
}

fn model_write(img: &mut Vec<u8>, byte: usize, bit: u8, bits: u32, v: u64) {
    if bits == 1 {
        let old = get_byte(img, byte);
        let new = if v & 1 == 1 { old | (1 << bit) } else { old & !(1 << bit) };
        put_byte(img, byte, new);
        return;
    }
    for i in 0..(bits / 8) as usize {
        put_byte(img, byte + i, (v >> (8 * i)) as u8);
    }
}

/// equality modulo trailing zero bytes
fn same_image(a: &[u8], b: &[u8]) -> bool {
    let n = a.len().max(b.len());
    (0..n).all(|i| get_byte(a, i) == get_byte(b, i))
}

fn first_diff(a: &[u8], b: &[u8]) -> usize {
    let n = a.len().max(b.len());
    (0..n).find(|i| get_byte(a, *i) != get_byte(b, *i)).unwrap_or(n)
}

fn hex(a: &[u8]) -> String {
    a.iter().map(|b| format!("{b:02x}")).collect::<Vec<_>>().join(" ")
}

fn addr_text(area: Area, size: u8, byte: u16, bit: u8) -> String {
    if size == 0 {
        format!("%{}X{}.{}", area_letter(area), byte, bit)
    } else {
        format!("%{}{}{}", area_letter(area), size_letter(size), byte)
    }
}

// ---------------------------------------------------------------------------------------
// instrumented driver
// ---------------------------------------------------------------------------------------

#[derive(Clone, Debug)]
enum Ev {
    Read {
        d: usize,
        after: Vec<u8>,
        failed: bool,
    },
    Write {
        d: usize,
        image: Vec<u8>,
    },
    /// runtime event drained from the debug control at this point of the log
    Rt(&'static str),
}

struct Drv {
    idx: usize,
    seed: u32,
    owner: Arc<Vec<u8>>,
    calls: u32,
    log: Arc<Mutex<Vec<Ev>>>,
    fail_read: Arc<AtomicBool>,
    debug: Option<DebugControl>,
}

fn drain_events(debug: &Option<DebugControl>, log: &mut Vec<Ev>) {
    if let Some(ctl) = debug {
        for ev in ctl.drain_runtime_events() {
            log.push(Ev::Rt(match ev {
                RuntimeEvent::CycleStart { .. } => "CycleStart",
                RuntimeEvent::CycleEnd { .. } => "CycleEnd",
                RuntimeEvent::TaskStart { .. } => "TaskStart",
                RuntimeEvent::TaskEnd { .. } => "TaskEnd",
                RuntimeEvent::TaskOverrun { .. } => "TaskOverrun",
                _ => "Other",
            }));
        }
    }
}

impl IoDriver for Drv {
    fn read_inputs(&mut self, inputs: &mut [u8]) -> Result<(), RuntimeError> {
        let mut log = self.log.lock().unwrap_or_else(|p| p.into_inner());
        drain_events(&self.debug, &mut log);
        self.calls += 1;
        if self.fail_read.load(Ordering::SeqCst) {
            log.push(Ev::Read {
                d: self.idx,
                after: inputs.to_vec(),
                failed: true,
            });
            return Err(RuntimeError::IoDriver("c07 injected read failure".into()));
        }
        for (b, byte) in inputs.iter_mut().enumerate() {
            if self.owner.get(b).copied() == Some(self.idx as u8) {
                *byte = stream_byte(self.seed, self.calls, b, *byte);
            }
        }
        log.push(Ev::Read {
            d: self.idx,
            after: inputs.to_vec(),
            failed: false,
        });
        Ok(())
    }

    fn write_outputs(&mut self, outputs: &[u8]) -> Result<(), RuntimeError> {
        let mut log = self.log.lock().unwrap_or_else(|p| p.into_inner());
        drain_events(&self.debug, &mut log);
        log.push(Ev::Write {
            d: self.idx,
            image: outputs.to_vec(),
        });
        Ok(())
    }
}

// ---------------------------------------------------------------------------------------
// running a case
// ---------------------------------------------------------------------------------------

struct Binding {
    id: VarId,
    area: Area,
    byte: usize,
    bit: u8,
    ty: Ty,
}

fn bindings_of(case: &Case) -> Vec<Binding> {
    let mut out = Vec::new();
    let mut push = |scope: u8, idx: usize, d: &VarDecl| {
        if let Some(a) = &d.at {
            out.push(Binding {
                id: VarId {
                    scope,
                    idx: idx as u16,
                },
                area: a.area,
                byte: a.byte as usize,
                bit: a.bit,
                ty: d.ty,
            });
        }
    };
    for (i, d) in case.globals.iter().enumerate() {
        push(0, i, d);
    }
    for (k, p) in case.progs.iter().enumerate() {
        for (i, d) in p.vars.iter().enumerate() {
            push(k as u8 + 1, i, d);
        }
    }
    out
}

struct Vals {
    v: Vec<Vec<u64>>,
}

impl Vals {
    fn get(&self, id: VarId) -> u64 {
        self.v[id.scope as usize][id.idx as usize]
    }
    fn set(&mut self, id: VarId, x: u64) {
        self.v[id.scope as usize][id.idx as usize] = x;
    }
}

fn eval_src(case: &Case, vals: &Vals, src: &Src) -> u64 {
    match src {
        Src::Var(v) => vals.get(*v),
        Src::Lit(b) => *b,
        Src::Part { var, kind, idx } => {
            let _ = case;
            let w = part_ty(*kind).bits();
            (vals.get(*var) >> (w * *idx as u32)) & part_ty(*kind).mask()
        }
    }
}

/// Interpret one program body; true = it faults.
fn run_prog(case: &Case, vals: &mut Vals, k: usize) -> bool {
    for st in &case.progs[k].body {
        match st {
            Stmt::Assign { dst, src } => {
                let x = eval_src(case, vals, src);
                vals.set(*dst, x & var_decl(case, *dst).ty.mask());
            }
            Stmt::AssignPart {
                dst,
                kind,
                idx,
                src,
            } => {
                let x = eval_src(case, vals, src);
                let w = part_ty(*kind).bits();
                let shift = w * *idx as u32;
                let m = part_ty(*kind).mask() << shift;
                let old = vals.get(*dst);
                vals.set(*dst, (old & !m) | ((x << shift) & m));
            }
            Stmt::FaultIf { cond } => {
                if vals.get(*cond) & 1 == 1 {
                    return true;
                }
            }
        }
    }
    false
}

fn actual_var(rt: &Runtime, case: &Case, id: VarId) -> Option<Value> {
    let d = var_decl(case, id);
    if id.scope == 0 {
        return rt.storage().get_global(&d.name).cloned();
    }
    let inst = inst_name(case, id.scope as usize - 1);
    match rt.storage().get_global(&inst) {
        Some(Value::Instance(iid)) => rt.storage().get_instance_var(*iid, &d.name).cloned(),
        _ => None,
    }
}

/// Which bytes may the end-of-cycle copy of the bound variables leave in `area`?
/// Checks `actual` against `prev` overlaid with the encodings of all bindings of the area,
/// accepting any order among bindings that cover the same byte.
fn check_commit(
    what: &str,
    prev: &[u8],
    actual: &[u8],
    binds: &[&Binding],
    vals: &Vals,
) -> Result<bool, String> {
    let mut n = prev.len().max(actual.len());
    for b in binds {
        n = n.max(b.byte + b.ty.span());
    }
    // also compute the in-declaration-order overlay (reported as a label only)
    let mut in_order = prev.to_vec();
    for b in binds {
        model_write(&mut in_order, b.byte, b.bit, b.ty.bits(), vals.get(b.id));
    }
    for i in 0..n {
        let got = get_byte(actual, i);
        let whole: Vec<u8> = binds
            .iter()
            .filter(|b| b.ty != Ty::Bool && b.byte <= i && i < b.byte + b.ty.span())
            .map(|b| (vals.get(b.id) >> (8 * (i - b.byte))) as u8)
            .collect();
        let bits: Vec<(u8, u8)> = binds
            .iter()
            .filter(|b| b.ty == Ty::Bool && b.byte == i)
            .map(|b| (b.bit, (vals.get(b.id) & 1) as u8))
            .collect();
        let bases: Vec<(u8, bool)> = if whole.is_empty() {
            vec![(get_byte(prev, i), false)]
        } else {
            whole.iter().map(|w| (*w, true)).collect()
        };
        let ok = bases.iter().any(|(base, from_binding)| {
            (0..8u8).all(|p| {
                let g = (got >> p) & 1;
                let cands: Vec<u8> = bits.iter().filter(|(bp, _)| *bp == p).map(|(_, v)| *v).collect();
                if cands.is_empty() {
                    g == (base >> p) & 1
                } else if *from_binding {
                    cands.contains(&g) || g == (base >> p) & 1
                } else {
                    cands.contains(&g)
                }
            })
        });
        if !ok {
            let covering: Vec<String> = binds
                .iter()
                .filter(|b| b.byte <= i && i < b.byte + b.ty.span())
                .map(|b| {
                    format!(
                        "{:?}@{}{} = {:#x}",
                        b.ty,
                        b.byte,
                        if b.ty == Ty::Bool { format!(".{}", b.bit) } else { String::new() },
                        vals.get(b.id)
                    )
                })
                .collect();
            return Err(format!(
                "{what}: byte {i} is {got:#04x}; previous image byte {:#04x}; covering bindings [{}]\n  previous {}\n  actual   {}",
                get_byte(prev, i),
                covering.join(", "),
                hex(prev),
                hex(actual)
            ));
        }
    }
    Ok(same_image(&in_order, actual))
}

fn spans_overlap(a: &Binding, b: &Binding) -> bool {
    if a.area != b.area {
        return false;
    }
    if a.ty == Ty::Bool && b.ty == Ty::Bool {
        return a.byte == b.byte && a.bit == b.bit;
    }
    a.byte < b.byte + b.ty.span() && b.byte < a.byte + a.ty.span()
}

fn spans_touch(a: &Binding, b: &Binding) -> bool {
    if a.area != b.area {
        return false;
    }
    if a.ty == Ty::Bool && b.ty == Ty::Bool {
        return a.byte == b.byte && a.bit != b.bit;
    }
    a.byte + a.ty.span() == b.byte || b.byte + b.ty.span() == a.byte
}

/// input bindings a program body reads
fn inputs_read(case: &Case, k: usize, binds: &[Binding]) -> Vec<usize> {
    let mut out = Vec::new();
    let mut note = |id: VarId| {
        if let Some(i) = binds.iter().position(|b| b.id == id && b.area == 0) {
            if !out.contains(&i) {
                out.push(i);
            }
        }
    };
    for st in &case.progs[k].body {
        match st {
            Stmt::Assign { src, .. } | Stmt::AssignPart { src, .. } => match src {
                Src::Var(v) => note(*v),
                Src::Part { var, .. } => note(*var),
                Src::Lit(_) => {}
            },
            Stmt::FaultIf { cond } => note(*cond),
        }
    }
    out
}

thread_local! {
    static INFRA: RefCell<Vec<String>> = const { RefCell::new(Vec::new()) };
}

fn infra(msg: String) {
    INFRA.with(|i| {
        let mut i = i.borrow_mut();
        if i.len() < 5 {
            i.push(msg);
        }
    });
}

fn run_case(case: &Case, probe: &mut Probe) -> Result<(), String> {
    let src = render(case);
    let fail = |msg: String| -> String { format!("{msg}\n--- source ---\n{src}") };
    let mut h = match TestHarness::from_source(&src) {
        Ok(h) => h,
        Err(e) => {
            // a generator problem, never a property violation
            infra(format!("generated program does not compile: {e}\n{src}"));
            probe.label("infra=compile_error");
            return Ok(());
        }
    };
    let binds = bindings_of(case);
    let nd = case.driver_seeds.len();
    let log: Arc<Mutex<Vec<Ev>>> = Arc::new(Mutex::new(Vec::new()));
    let owner = Arc::new(case.owner.clone());
    let fail_flags: Vec<Arc<AtomicBool>> = (0..nd).map(|_| Arc::new(AtomicBool::new(false))).collect();
    let rt = h.runtime_mut();
    rt.io_mut()
        .resize(case.len[0] as usize, case.len[1] as usize, case.len[2] as usize);
    let debug = if case.debug { Some(rt.enable_debug()) } else { None };
    for d in 0..nd {
        rt.add_io_driver(
            format!("c07-{d}"),
            Box::new(Drv {
                idx: d,
                seed: case.driver_seeds[d],
                owner: owner.clone(),
                calls: 0,
                log: log.clone(),
                fail_read: fail_flags[d].clone(),
                debug: debug.clone(),
            }),
        );
    }
    if let Some(safe) = &case.safe {
        rt.set_fault_policy(FaultPolicy::SafeHalt);
        let mut outputs = Vec::new();
        for (size, byte, bit, v) in safe {
            let text = addr_text(1, *size, *byte, *bit);
            let addr = IoAddress::parse(&text).map_err(|e| fail(format!("IoAddress::parse({text}) failed: {e}")))?;
            outputs.push((addr, raw_value(*size, *v)));
        }
        rt.set_io_safe_state(IoSafeState { outputs });
    }

    // the number of bindings the runtime registered must be what was declared
    if rt.io().bindings().len() != binds.len() {
        infra(format!(
            "binding count mismatch: declared {}, runtime has {}\n{src}",
            binds.len(),
            rt.io().bindings().len()
        ));
        probe.label("infra=binding_count");
        return Ok(());
    }

    // model
    let mut img = Images::default();
    for a in 0..3 {
        img.a[a] = vec![0u8; case.len[a] as usize];
    }
    let mut vals = Vals {
        v: std::iter::once(case.globals.iter().map(|d| d.init.unwrap_or(0)).collect())
            .chain(case.progs.iter().map(|p| p.vars.iter().map(|d| d.init.unwrap_or(0)).collect()))
            .collect(),
    };
    let mut calls = vec![0u32; nd];

    // classification
    let mut overlap = false;
    let mut touch = false;
    for i in 0..binds.len() {
        for j in i + 1..binds.len() {
            overlap |= spans_overlap(&binds[i], &binds[j]);
            touch |= spans_touch(&binds[i], &binds[j]);
        }
    }
    let mut shared_tasks = false;
    {
        let reads: Vec<(Option<u8>, Vec<usize>)> = (0..case.progs.len())
            .map(|k| (case.progs[k].task, inputs_read(case, k, &binds)))
            .collect();
        for i in 0..reads.len() {
            for j in i + 1..reads.len() {
                if let (Some(a), Some(b)) = (reads[i].0, reads[j].0) {
                    if a != b {
                        for x in &reads[i].1 {
                            for y in &reads[j].1 {
                                if x == y || spans_overlap(&binds[*x], &binds[*y]) {
                                    shared_tasks = true;
                                }
                            }
                        }
                    }
                }
            }
        }
    }
    let mut cross_len = false;
    let mut faulted_cycle = false;
    let mut order_other = false;
    let mut task_events = false;
    let mut cycles_run = 0usize;
    let has_bg = case.progs.iter().any(|p| p.task.is_none());
    let uses_partial = case.progs.iter().any(|p| {
        p.body.iter().any(|s| {
            matches!(s, Stmt::AssignPart { .. })
                || matches!(s, Stmt::Assign { src: Src::Part { .. }, .. })
        })
    });

    'cycles: for (ci, cy) in case.cycles.iter().enumerate() {
        let rt = h.runtime_mut();
        // ---- direct operations between cycles ----
        for op in &cy.ops {
            let text = addr_text(op.area, op.size, op.byte, op.bit);
            let addr = IoAddress::parse(&text).map_err(|e| fail(format!("IoAddress::parse({text}) failed: {e}")))?;
            let a = op.area as usize;
            let bits = size_bits(op.size);
            let span = (bits as usize).div_ceil(8);
            let l = img.a[a].len();
            if span > 1 && (op.byte as usize) < l && l < op.byte as usize + span {
                cross_len = true;
            }
            if op.write {
                match op.mistyped {
                    None => {
                        rt.io_mut()
                            .write(&addr, raw_value(op.size, op.value))
                            .map_err(|e| fail(format!("cycle {ci}: IoInterface::write({text}) failed: {e}")))?;
                        model_write(&mut img.a[a], op.byte as usize, op.bit, bits, op.value);
                    }
                    Some(other) => {
                        // outcome unasserted; only "nothing outside the span changes"
                        let _ = rt.io_mut().write(&addr, raw_value(other, op.value));
                        let act = match a {
                            0 => rt.io().inputs(),
                            1 => rt.io().outputs(),
                            _ => rt.io().memory(),
                        };
                        for i in 0..span {
                            let v = get_byte(act, op.byte as usize + i);
                            if v != get_byte(&img.a[a], op.byte as usize + i) {
                                put_byte(&mut img.a[a], op.byte as usize + i, v);
                            }
                        }
                    }
                }
            } else {
                match rt.io().read(&addr) {
                    Ok(v) => {
                        let want = raw_value(op.size, model_read(&img.a[a], op.byte as usize, op.bit, bits));
                        if v != want {
                            return Err(fail(format!(
                                "cycle {ci}: IoInterface::read({text}) = {v:?}, byte-array model says {want:?}\n  image {}",
                                hex(&img.a[a])
                            )));
                        }
                    }
                    Err(e) => {
                        if op.byte as usize + span <= l {
                            return Err(fail(format!("cycle {ci}: IoInterface::read({text}) inside the image failed: {e}")));
                        }
                        probe.label("unasserted=read_beyond_image_err");
                    }
                }
            }
            let acts = [rt.io().inputs(), rt.io().outputs(), rt.io().memory()];
            for k in 0..3 {
                if !same_image(acts[k], &img.a[k]) {
                    let i = first_diff(acts[k], &img.a[k]);
                    return Err(fail(format!(
                        "cycle {ci}: after direct {} {text} (value {:#x}) the %{} image differs from the byte-array model at byte {i}\n  model  {}\n  actual {}",
                        if op.write { "write" } else { "read" },
                        op.value,
                        area_letter(k as u8),
                        hex(&img.a[k]),
                        hex(acts[k])
                    )));
                }
            }
        }
        // adopt the actual lengths (lengths are not asserted)
        {
            let acts = [rt.io().inputs().len(), rt.io().outputs().len(), rt.io().memory().len()];
            for k in 0..3 {
                img.a[k].resize(acts[k], 0);
            }
        }
        for b in &binds {
            let l = img.a[b.area as usize].len();
            if b.ty.span() > 1 && b.byte < l && l < b.byte + b.ty.span() {
                cross_len = true;
            }
        }

        // ---- the cycle ----
        for (d, f) in fail_flags.iter().enumerate() {
            f.store(cy.fail_read == Some(d as u8), Ordering::SeqCst);
        }
        if cy.step {
            rt.advance_time(Duration::from_millis(10));
        }
        {
            let mut l = log.lock().unwrap_or_else(|p| p.into_inner());
            l.clear();
        }
        let prev_q = img.a[1].clone();
        let prev_m = img.a[2].clone();
        let result = rt.execute_cycle();
        {
            let mut l = log.lock().unwrap_or_else(|p| p.into_inner());
            drain_events(&debug, &mut l);
        }
        let events: Vec<Ev> = log.lock().unwrap_or_else(|p| p.into_inner()).clone();
        cycles_run += 1;

        // ---- model of the cycle ----
        // drivers: the runtime's order is not asserted, ownership is disjoint
        let mut read_fault = false;
        let mut latched = img.a[0].clone();
        if cy.fail_read.is_some() {
            read_fault = true;
        } else {
            for d in 0..nd {
                calls[d] += 1;
                for (b, byte) in latched.iter_mut().enumerate() {
                    if case.owner.get(b).copied() == Some(d as u8) {
                        *byte = stream_byte(case.driver_seeds[d], calls[d], b, *byte);
                    }
                }
            }
        }
        let mut prog_fault = false;
        let mut expect_vals = Vals { v: vals.v.clone() };
        if !read_fault {
            for b in &binds {
                if b.area == 0 {
                    expect_vals.set(b.id, model_read(&latched, b.byte, b.bit, b.ty.bits()));
                } else if b.area == 2 {
                    expect_vals.set(b.id, model_read(&img.a[2], b.byte, b.bit, b.ty.bits()));
                }
            }
            for k in 0..case.progs.len() {
                let runs = case.progs[k].task.is_none() || cy.step;
                if runs && run_prog(case, &mut expect_vals, k) {
                    prog_fault = true;
                }
            }
        }

        let reads: Vec<(usize, usize, bool)> = events
            .iter()
            .enumerate()
            .filter_map(|(i, e)| match e {
                Ev::Read { d, failed, .. } => Some((i, *d, *failed)),
                _ => None,
            })
            .collect();
        let writes: Vec<(usize, usize)> = events
            .iter()
            .enumerate()
            .filter_map(|(i, e)| match e {
                Ev::Write { d, .. } => Some((i, *d)),
                _ => None,
            })
            .collect();
        let order_text = || -> String {
            events
                .iter()
                .map(|e| match e {
                    Ev::Read { d, failed, .. } => format!("read[{d}]{}", if *failed { "!" } else { "" }),
                    Ev::Write { d, .. } => format!("write[{d}]"),
                    Ev::Rt(s) => (*s).to_string(),
                })
                .collect::<Vec<_>>()
                .join(" ")
        };

        if read_fault || prog_fault {
            // ---- faulted cycle ----
            faulted_cycle = true;
            if result.is_ok() {
                return Err(fail(format!(
                    "cycle {ci}: expected a fault ({}), execute_cycle returned Ok",
                    if read_fault { "driver read failure" } else { "division by zero behind a TRUE input" }
                )));
            }
            for d in 0..nd {
                let n = reads.iter().filter(|r| r.1 == d).count();
                if n > 1 || (prog_fault && n != 1) {
                    return Err(fail(format!(
                        "cycle {ci} (faulted): driver {d} was asked for inputs {n} times; call order: {}",
                        order_text()
                    )));
                }
            }
            // whatever reaches a driver in this cycle carries no program-computed value:
            // the previous output image, overlaid with the configured safe state if any
            let allowed = prev_q.clone();
            let mut allowed_safe = prev_q.clone();
            if let Some(safe) = &case.safe {
                for (size, byte, bit, v) in safe {
                    model_write(&mut allowed_safe, *byte as usize, *bit, size_bits(*size), *v);
                }
            }
            for e in &events {
                if let Ev::Write { d, image } = e {
                    if !same_image(image, &allowed) && !same_image(image, &allowed_safe) {
                        let i = first_diff(image, &allowed);
                        return Err(fail(format!(
                            "cycle {ci} faulted ({:?}) but driver {d} was given outputs that differ from the previous image{} at byte {i}\n  previous(+safe) {}\n  published       {}\n  call order: {}",
                            result.as_ref().err(),
                            if case.safe.is_some() { " + safe state" } else { "" },
                            hex(&allowed),
                            hex(image),
                            order_text()
                        )));
                    }
                }
            }
            probe.label(if read_fault { "fault=driver_read" } else { "fault=program" });
            if case.safe.is_some() {
                probe.label("fault=with_safe_state");
            }
            break 'cycles;
        }

        // ---- normal cycle ----
        if let Err(e) = &result {
            let oob = binds
                .iter()
                .any(|b| b.area != 1 && b.byte + b.ty.span() > img.a[b.area as usize].len());
            if oob && !matches!(e, RuntimeError::DivisionByZero) {
                probe.label("unasserted=fault_with_binding_beyond_image");
                break 'cycles;
            }
            return Err(fail(format!("cycle {ci}: unexpected fault {e:?}; call order: {}", order_text())));
        }
        for d in 0..nd {
            let nr = reads.iter().filter(|r| r.1 == d).count();
            let nw = writes.iter().filter(|w| w.1 == d).count();
            if nr != 1 || nw != 1 {
                return Err(fail(format!(
                    "cycle {ci}: driver {d} got {nr} read_inputs and {nw} write_outputs calls (exactly one each is required); call order: {}",
                    order_text()
                )));
            }
        }
        let last_read = reads.iter().map(|r| r.0).max().unwrap_or(0);
        let first_write = writes.iter().map(|w| w.0).min().unwrap_or(usize::MAX);
        if last_read > first_write {
            return Err(fail(format!(
                "cycle {ci}: a driver was given outputs before every driver was read; call order: {}",
                order_text()
            )));
        }
        for (i, e) in events.iter().enumerate() {
            if let Ev::Rt(kind) = e {
                let is_task = *kind == "TaskStart" || *kind == "TaskEnd";
                if is_task && (i < last_read || i > first_write) {
                    return Err(fail(format!(
                        "cycle {ci}: task execution is not enclosed by the driver calls; order: {}",
                        order_text()
                    )));
                }
            }
        }
        if debug.is_some() && events.iter().any(|e| matches!(e, Ev::Rt("TaskStart"))) {
            task_events = true;
        }
        // the latched image: what the last driver left behind
        if let Some(Ev::Read { after, .. }) = events.get(last_read) {
            if !same_image(after, &latched) {
                let i = first_diff(after, &latched);
                return Err(fail(format!(
                    "cycle {ci}: input image after the driver reads differs from the model at byte {i}\n  model  {}\n  actual {}",
                    hex(&latched),
                    hex(after)
                )));
            }
        }
        let rt = h.runtime();
        if !same_image(rt.io().inputs(), &latched) {
            let i = first_diff(rt.io().inputs(), &latched);
            return Err(fail(format!(
                "cycle {ci}: the input image changed after it was latched (byte {i})\n  latched {}\n  now     {}",
                hex(&latched),
                hex(rt.io().inputs())
            )));
        }
        // every variable: bound inputs = decode(latched), copies = latched value, finals
        for scope in 0..expect_vals.v.len() {
            for idx in 0..expect_vals.v[scope].len() {
                let id = VarId {
                    scope: scope as u8,
                    idx: idx as u16,
                };
                let d = var_decl(case, id);
                let want = expect_vals.get(id);
                let got = actual_var(rt, case, id);
                let got_bits = got.as_ref().and_then(value_bits);
                if got_bits != Some((d.ty, want)) {
                    let role = match d.at.as_ref().map(|a| a.area) {
                        Some(0) => "input-bound",
                        Some(1) => "output-bound",
                        Some(2) => "marker-bound",
                        _ => "local",
                    };
                    return Err(fail(format!(
                        "cycle {ci}: {role} variable {} ({}{}) holds {got:?}, the model says {} (bits {want:#x})\n  latched inputs {}\n  memory at start {}",
                        d.name,
                        d.ty.st(),
                        d.at.as_ref().map(|a| format!(" AT %{}{}{}.{}", area_letter(a.area), d.ty.letter(), a.byte, a.bit)).unwrap_or_default(),
                        lit_text(d.ty, want),
                        hex(&latched),
                        hex(&prev_m)
                    )));
                }
            }
        }
        // published bytes
        let final_q = rt.io().outputs().to_vec();
        for e in &events {
            if let Ev::Write { d, image } = e {
                if !same_image(image, &final_q) {
                    let i = first_diff(image, &final_q);
                    return Err(fail(format!(
                        "cycle {ci}: driver {d} was given an output image that differs from the final one at byte {i}\n  given {}\n  final {}",
                        hex(image),
                        hex(&final_q)
                    )));
                }
            }
        }
        let qb: Vec<&Binding> = binds.iter().filter(|b| b.area == 1).collect();
        let mb: Vec<&Binding> = binds.iter().filter(|b| b.area == 2).collect();
        let in_order_q = check_commit(&format!("cycle {ci}: published %Q image"), &prev_q, &final_q, &qb, &expect_vals)
            .map_err(&fail)?;
        let final_m = rt.io().memory().to_vec();
        let in_order_m = check_commit(&format!("cycle {ci}: %M image after the cycle"), &prev_m, &final_m, &mb, &expect_vals)
            .map_err(&fail)?;
        if !(in_order_q && in_order_m) {
            order_other = true;
        }
        // carry on from the actual images
        img.a[0] = latched;
        img.a[1] = final_q;
        img.a[2] = final_m;
        vals = expect_vals;
    }

    // ---- evidence ----
    probe.label(format!("drivers={nd}"));
    probe.label(format!("cycles_run={cycles_run}"));
    probe.label(format!("tasks={}", case.tasks.len()));
    probe.label(format!("bindings={}", match binds.len() {
        0..=2 => "1-2",
        3..=5 => "3-5",
        6..=9 => "6-9",
        _ => "10+",
    }));
    for t in ALL_TYPES {
        if binds.iter().any(|b| b.ty == t) {
            probe.label(format!("type={}", t.st()));
        }
    }
    for (a, name) in ["I", "Q", "M"].iter().enumerate() {
        if binds.iter().any(|b| b.area == a as u8) {
            probe.label(format!("area={name}"));
        }
    }
    if overlap {
        probe.label("class=overlapping_bindings");
    }
    if touch {
        probe.label("class=touching_bindings");
    }
    if shared_tasks {
        probe.label("class=two_tasks_read_same_input");
    }
    if cross_len {
        probe.label("class=span_crosses_image_length");
    }
    if has_bg {
        probe.label("has_background_program");
    }
    if uses_partial {
        probe.label("has_partial_access");
    }
    if case.debug {
        probe.label("debug_attached");
    }
    if case.bare {
        probe.label("no_configuration");
    }
    if case.progs.iter().any(|p| p.vars.iter().any(|d| d.via_config)) {
        probe.label("has_var_config_located_binding");
    }
    if task_events {
        probe.label("order=task_events_observed");
    }
    if order_other {
        probe.label("overlap_resolved_not_in_declaration_order");
    }
    if !faulted_cycle {
        probe.label("fault=none");
    }
    if case.cycles.iter().any(|c| !c.step) {
        probe.label("has_cycle_without_due_task");
    }
    if case.cycles.iter().any(|c| !c.ops.is_empty()) {
        probe.label("has_direct_ops");
    }
    if overlap || touch || shared_tasks || cross_len {
        let key = serde_json::to_vec(case).unwrap_or_default();
        probe.nontrivial(&key);
        probe.sample(json!({
            "search": "cycle",
            "bindings": binds.iter().map(|b| format!("{}:{}", addr_text(b.area, match b.ty.bits() {1=>0,8=>1,16=>2,32=>3,_=>4}, b.byte as u16, b.bit), b.ty.st())).collect::<Vec<_>>(),
            "programs": case.progs.len(),
            "tasks": case.tasks.len(),
            "drivers": nd,
            "cycles": cycles_run,
            "classes": {"overlap": overlap, "touch": touch, "two_tasks_same_input": shared_tasks, "cross_len": cross_len},
        }));
    }
    Ok(())
}

// ---------------------------------------------------------------------------------------
// search "direct": a bare IoInterface against the byte-array model
// ---------------------------------------------------------------------------------------

#[derive(Clone, Debug, PartialEq, Serialize, Deserialize)]
pub enum DOp {
    Resize(u8, u8, u8),
    Write { area: u8, size: u8, byte: u8, bit: u8, value: u64 },
    Mistyped { area: u8, size: u8, other: u8, byte: u8, bit: u8, value: u64 },
    Read { area: u8, size: u8, byte: u8, bit: u8 },
}

fn dop_strategy() -> impl Strategy<Value = DOp> {
    let value = prop_oneof![
        2 => any::<u64>(),
        1 => Just(0u64),
        1 => Just(u64::MAX),
        1 => Just(0x0102_0304_0506_0708u64),
    ];
    let byte = prop_oneof![3 => 0u8..=72, 1 => 0u8..4];
    prop_oneof![
        1 => (0u8..=72, 0u8..=72, 0u8..=72).prop_map(|(a, b, c)| DOp::Resize(a, b, c)),
        6 => (0u8..3, 0u8..5, byte.clone(), 0u8..8, value.clone())
            .prop_map(|(area, size, byte, bit, value)| DOp::Write { area, size, byte, bit, value }),
        1 => (0u8..3, 0u8..5, 1u8..5, byte.clone(), 0u8..8, value)
            .prop_map(|(area, size, o, byte, bit, value)| DOp::Mistyped { area, size, other: (size + o) % 5, byte, bit, value }),
        5 => (0u8..3, 0u8..5, byte, 0u8..8).prop_map(|(area, size, byte, bit)| DOp::Read { area, size, byte, bit }),
    ]
}

fn run_direct(ops: &Vec<DOp>, probe: &mut Probe) -> Result<(), String> {
    let mut io = IoInterface::new();
    let mut img = Images::default();
    let mut interesting = false;
    let mut mistyped = false;
    for (n, op) in ops.iter().enumerate() {
        let describe;
        match op {
            DOp::Resize(a, b, c) => {
                io.resize(*a as usize, *b as usize, *c as usize);
                img.a[0].resize(*a as usize, 0);
                img.a[1].resize(*b as usize, 0);
                img.a[2].resize(*c as usize, 0);
                describe = format!("resize({a},{b},{c})");
            }
            DOp::Write { area, size, byte, bit, value } => {
                let text = addr_text(*area, *size, *byte as u16, *bit);
                let addr = IoAddress::parse(&text).map_err(|e| format!("IoAddress::parse({text}): {e}"))?;
                let bits = size_bits(*size);
                let v = value & [1, 0xff, 0xffff, 0xffff_ffff, u64::MAX][*size as usize];
                let a = *area as usize;
                let l = img.a[a].len();
                let span = (bits as usize).div_ceil(8);
                if (*size != 1) && (img.a[a].iter().any(|b| *b != 0) || ((*byte as usize) < l && l < *byte as usize + span)) {
                    interesting = true;
                }
                io.write(&addr, raw_value(*size, v)).map_err(|e| format!("op {n}: write({text}) failed: {e}"))?;
                model_write(&mut img.a[a], *byte as usize, *bit, bits, v);
                describe = format!("write({text}, {v:#x})");
            }
            DOp::Mistyped { area, size, other, byte, bit, value } => {
                let text = addr_text(*area, *size, *byte as u16, *bit);
                let addr = IoAddress::parse(&text).map_err(|e| format!("IoAddress::parse({text}): {e}"))?;
                let _ = io.write(&addr, raw_value(*other, *value));
                let a = *area as usize;
                let act = match a {
                    0 => io.inputs(),
                    1 => io.outputs(),
                    _ => io.memory(),
                };
                let span = (size_bits(*size) as usize).div_ceil(8);
                for i in 0..span {
                    let v = get_byte(act, *byte as usize + i);
                    if v != get_byte(&img.a[a], *byte as usize + i) {
                        put_byte(&mut img.a[a], *byte as usize + i, v);
                    }
                }
                describe = format!("write({text}, <value of size {}>)", size_letter(*other));
                mistyped = true;
            }
            DOp::Read { area, size, byte, bit } => {
                let text = addr_text(*area, *size, *byte as u16, *bit);
                let addr = IoAddress::parse(&text).map_err(|e| format!("IoAddress::parse({text}): {e}"))?;
                let a = *area as usize;
                let bits = size_bits(*size);
                let span = (bits as usize).div_ceil(8);
                let l = img.a[a].len();
                if (*size != 1) && (img.a[a].iter().any(|b| *b != 0) || ((*byte as usize) < l && l < *byte as usize + span)) {
                    interesting = true;
                }
                match io.read(&addr) {
                    Ok(v) => {
                        let want = raw_value(*size, model_read(&img.a[a], *byte as usize, *bit, bits));
                        if v != want {
                            return Err(format!(
                                "op {n}: read({text}) = {v:?}, byte-array model says {want:?}\n  image {}",
                                hex(&img.a[a])
                            ));
                        }
                    }
                    Err(e) => {
                        if *byte as usize + span <= l {
                            return Err(format!("op {n}: read({text}) inside the image failed: {e}"));
                        }
                        probe.label("unasserted=read_beyond_image_err");
                    }
                }
                describe = format!("read({text})");
            }
        }
        let acts = [io.inputs(), io.outputs(), io.memory()];
        for k in 0..3 {
            if !same_image(acts[k], &img.a[k]) {
                let i = first_diff(acts[k], &img.a[k]);
                return Err(format!(
                    "op {n}: after {describe} the %{} image differs from the byte-array model at byte {i}\n  model  {}\n  actual {}",
                    area_letter(k as u8),
                    hex(&img.a[k]),
                    hex(acts[k])
                ));
            }
        }
    }
    probe.label(format!("direct_ops={}", match ops.len() {
        0..=4 => "0-4",
        5..=15 => "5-15",
        _ => "16+",
    }));
    if mistyped {
        probe.label("direct=has_mistyped_write");
    }
    if interesting {
        probe.nontrivial(&serde_json::to_vec(ops).unwrap_or_default());
        probe.sample(json!({"search": "direct", "ops": ops.len()}));
    }
    Ok(())
}

// ---------------------------------------------------------------------------------------

fn cycle_strategy() -> impl Strategy<Value = Case> {
    // mostly uniform words (so that 17-way type choices stay balanced), a few boundary ones;
    // long enough that the generator rarely runs off the end of the tape
    let word = prop_oneof![
        12 => any::<u32>(),
        1 => (0u32..16).prop_map(|v| v << 28),
        1 => Just(0u32),
        1 => Just(u32::MAX),
    ];
    proptest::collection::vec(word, 500..1000).prop_map(|data| gen_case(&Tape { data }))
}

/// `tpv c07-show <replay.json>`: print the ST source and the plan of a saved case.
pub fn helper(args: &[String]) -> Option<i32> {
    if args.first().map(|s| s.as_str()) != Some("c07-show") {
        return None;
    }
    let Some(path) = args.get(1) else {
        eprintln!("usage: tpv c07-show <replay.json>");
        return Some(2);
    };
    let text = match std::fs::read_to_string(path) {
        Ok(t) => t,
        Err(e) => {
            eprintln!("{path}: {e}");
            return Some(2);
        }
    };
    let v: serde_json::Value = match serde_json::from_str(&text) {
        Ok(v) => v,
        Err(e) => {
            eprintln!("{path}: {e}");
            return Some(2);
        }
    };
    match serde_json::from_value::<Case>(v["case"].clone()) {
        Ok(case) => {
            println!("{}", render(&case));
            println!("image lengths {:?}, drivers {}, debug {}, safe {:?}", case.len, case.driver_seeds.len(), case.debug, case.safe);
            for (i, c) in case.cycles.iter().enumerate() {
                println!("cycle {i}: step={} fail_read={:?}", c.step, c.fail_read);
                for op in &c.ops {
                    println!(
                        "   {} {} value {:#x} mistyped {:?}",
                        if op.write { "write" } else { "read" },
                        addr_text(op.area, op.size, op.byte, op.bit),
                        op.value,
                        op.mistyped
                    );
                }
            }
            Some(0)
        }
        Err(e) => {
            eprintln!("not a C07 'cycle' case: {e}");
            Some(2)
        }
    }
}

fn run(ctx: &mut RunCtx) {
    let tier = ctx.tier;
    ctx.search("cycle", cycle_strategy(), tier.pick(12_000, 300_000), run_case);
    ctx.search(
        "direct",
        proptest::collection::vec(dop_strategy(), 0..40),
        tier.pick(40_000, 1_000_000),
        run_direct,
    );
    let problems: Vec<String> = INFRA.with(|i| i.borrow().clone());
    for p in problems {
        ctx.inconclusive(format!("generator/infrastructure problem: {p}"));
    }
}
