//! Numeric boundary texts: wherever the front end does arithmetic on numbers that come from
//! the source (enum values, subrange / array bounds, string lengths, typed / based / real /
//! time / date literals, constant expressions, direct addresses, task priorities and
//! intervals, CASE labels, FOR bounds, repetition counts, bit positions) a template puts
//! literals from a pool of type limits, limits +- 1, values beyond 64 bits, huge digit
//! strings and exponent extremes there.
//!
//! Third search of C13 (clause "no query panics for any file contents"): a case is
//! (template, three pool indices, a type index); its text is analysed in a new database, all
//! queries are asked (type_of at every token), then the text is edited to the neighbouring
//! boundary value and the answers are compared with a brand-new database as in the other
//! searches. The same templates are also one item kind of the project generator, so the
//! boundary texts take part in the edit histories.

use serde::{Deserialize, Serialize};

/// Integer-like literals (decimal, based, typed, with underscores, beyond every type).
pub const INTS: &[&str] = &[
    "0", "1", "-1", "2", "127", "128", "-128", "-129", "255", "256", "32767", "32768", "-32768",
    "-32769", "65535", "65536", "2147483647", "2147483648", "-2147483648", "-2147483649",
    "4294967295", "4294967296", "9223372036854775806", "9223372036854775807",
    "9223372036854775808", "-9223372036854775807", "-9223372036854775808",
    "-9223372036854775809", "18446744073709551615", "18446744073709551616",
    "99999999999999999999999999999999999999999999", "-99999999999999999999999999999999999999",
    "000000000000000000000000000000000000000000007", "1_000_000_000_000_000_000_000",
    "16#FF", "16#7FFFFFFFFFFFFFFF", "16#8000000000000000", "16#FFFFFFFFFFFFFFFF",
    "16#FFFFFFFFFFFFFFFFF", "16#1_0000_0000_0000_0000", "-16#8000000000000000",
    "2#11111111111111111111111111111111111111111111111111111111111111111",
    "8#1777777777777777777777", "8#7777777777777777777777", "16#", "2#2", "36#ZZ",
    "SINT#127", "SINT#128", "SINT#300", "SINT#-128", "SINT#-129", "USINT#255", "USINT#256",
    "USINT#-1", "INT#32767", "INT#32768", "INT#-32769", "INT#16#FFFF", "INT#16#8000",
    "UINT#65535", "UINT#65536", "UINT#-1", "DINT#2147483647", "DINT#2147483648",
    "DINT#-2147483649", "UDINT#4294967295", "UDINT#4294967296",
    "LINT#9223372036854775807", "LINT#9223372036854775808", "LINT#-9223372036854775808",
    "LINT#-9223372036854775809", "ULINT#18446744073709551615", "ULINT#18446744073709551616",
    "ULINT#-1", "BYTE#255", "BYTE#256", "WORD#16#FFFF", "WORD#16#10000", "DWORD#16#FFFFFFFF",
    "DWORD#16#100000000", "LWORD#16#FFFFFFFFFFFFFFFF", "LWORD#16#10000000000000000",
    "BOOL#2", "BOOL#1", "DINT#2#1", "INT#8#177777", "INT#", "SINT#16#80", "SINT#16#FF",
];

/// Real literals with exponent and digit-count extremes.
pub const REALS: &[&str] = &[
    "0.0", "-0.0", "1.0", "3.4028235E38", "3.4028236E38", "1.0E39", "-1.0E39", "1.0E308",
    "1.7976931348623157E308", "1.7976931348623159E308", "1.0E309", "-1.0E309", "1.0E-45",
    "1.0E-46", "4.9E-324", "1.0E-400", "1.0E99999999999", "1.0E-99999999999",
    "1.0E+2147483648", "1.0E9223372036854775808", "1E400", "REAL#1.0E39", "REAL#3.4028235E38",
    "REAL#-1.0E-60", "LREAL#1.0E309", "LREAL#1.7976931348623157E308", "LREAL#4.9E-324",
    "REAL#16#FF", "REAL#1", "LREAL#-0.0",
    "123456789012345678901234567890123456789012345678901234567890.0",
    "0.000000000000000000000000000000000000000000000000000000000000000001",
    "1_0.0_1E1_0", "1.", ".5", "1.0E", "1.0E+", "1.E5",
];

/// Durations, dates, times of day.
pub const TIMES: &[&str] = &[
    "T#0s", "T#1ms", "T#-1ms", "T#24d20h31m23s647ms", "T#24d20h31m23s648ms", "T#49d17h2m47s295ms",
    "T#49d17h2m47s296ms", "T#106751d23h47m16s854ms", "T#106752d", "T#9223372036854775807ms",
    "T#9223372036854775808ms", "T#-9223372036854775808ns", "T#18446744073709551616s",
    "T#99999999999999999999999999d", "T#1d25h61m61s1000ms", "T#1.5h", "T#1.5E10s",
    "T#1E400s", "T#0.0000000000000000000001s", "T#999999999999h999999999999m", "T#5", "T#",
    "T#-", "T#1h_30m", "T#1s1s", "T#1ms1h", "TIME#4294967296ms", "TIME#2147483648ms",
    "LTIME#106751d23h47m16s854ms775us807ns", "LTIME#106751d23h47m16s854ms775us808ns",
    "LTIME#9223372036854775807ns", "LTIME#9223372036854775808ns", "LTIME#-9223372036854775808ns",
    "LTIME#1us1000000000000000000ns", "LT#99999999999d", "D#1970-01-01", "D#0000-00-00",
    "D#9999-12-31", "D#9999-99-99", "D#2024-02-30", "D#99999999999-01-01", "DATE#2106-02-07",
    "DATE#2106-02-08", "D#292277026596-12-04", "LDATE#2262-04-11", "LDATE#2262-04-12",
    "LDATE#1677-09-21", "TOD#00:00:00", "TOD#23:59:59.999", "TOD#24:00:00", "TOD#25:61:61",
    "TOD#99999999999:00:00", "TOD#23:59:59.99999999999999999999", "LTOD#23:59:59.999999999",
    "LTOD#24:00:00.000000001", "DT#1970-01-01-00:00:00", "DT#2106-02-07-06:28:15",
    "DT#2106-02-07-06:28:16", "DT#9999-12-31-23:59:59", "DT#9999-99-99-99:99:99",
    "LDT#2262-04-11-23:47:16.854775807", "LDT#2262-04-11-23:47:16.854775808",
    "LDT#1677-09-21-00:12:43.145224192", "DT#99999999999-01-01-00:00:00",
];

const INT_TYPES: &[&str] = &[
    "INT", "SINT", "DINT", "LINT", "USINT", "UINT", "UDINT", "ULINT", "BYTE", "WORD", "DWORD",
    "LWORD", "BOOL", "REAL", "LREAL", "TIME", "LTIME", "DATE", "TOD", "DT", "STRING", "CHAR",
];

pub const N_TEMPLATES: usize = 44;

#[derive(Clone, Debug, Serialize, Deserialize, PartialEq, Eq)]
pub struct BoundaryCase {
    pub tpl: u8,
    pub a: u8,
    pub b: u8,
    pub c: u8,
    pub ty: u8,
}

fn pick<'a>(pool: &'a [&'a str], i: u8) -> &'a str {
    pool[i as usize % pool.len()]
}

/// The text of a case. `a`, `b`, `c` index the pools (which pool depends on the template).
pub fn text(case: &BoundaryCase) -> String {
    let (a, b, c) = (pick(INTS, case.a), pick(INTS, case.b), pick(INTS, case.c));
    let (ra, rb) = (pick(REALS, case.a), pick(REALS, case.b));
    let (ta, tb) = (pick(TIMES, case.a), pick(TIMES, case.b));
    let ty = pick(INT_TYPES, case.ty);
    let prog = |decls: &str, body: &str| {
        format!("PROGRAM Main\nVAR\n    r : {ty};\n    i : INT;\n    b : BOOL;\n{decls}END_VAR\n{body}END_PROGRAM\n")
    };
    match case.tpl as usize % N_TEMPLATES {
        // --- enums
        0 => format!("TYPE TColor : (Red := {a}, Green, Blue := {b}, Amber) {ty};\nEND_TYPE\n"),
        1 => format!("TYPE TColor : (Red := {a}, Green := {b});\nEND_TYPE\n"),
        2 => format!("TYPE TColor : {ty} (Red := {a}, Green, Blue) := Green;\nEND_TYPE\n"),
        3 => format!("TYPE TColor : (Red, Green := {a}, Blue := {a}, Amber := {b} + {c});\nEND_TYPE\nPROGRAM Main\nVAR\n    c : TColor := Amber;\nEND_VAR\nc := TColor#Blue;\nEND_PROGRAM\n"),
        // --- subranges
        4 => format!("TYPE TLevel : {ty} ({a}..{b});\nEND_TYPE\n"),
        5 => prog(&format!("    v : {ty} ({a}..{b}) := {c};\n"), &format!("v := {c};\nv := v + {a};\n")),
        6 => format!("TYPE TLevel : INT ({a}..{b});\nEND_TYPE\nTYPE TPoint : TLevel ({b}..{c});\nEND_TYPE\n"),
        // --- arrays
        7 => format!("TYPE TPoint : ARRAY[{a}..{b}] OF {ty};\nEND_TYPE\n"),
        8 => prog(&format!("    arr : ARRAY[{a}..{b}, 0..{c}] OF INT;\n"), &format!("i := arr[{a}, {c}];\narr[{b}, 0] := i;\ni := arr[{c}];\n")),
        9 => prog(&format!("    arr : ARRAY[{a}..{b}] OF INT;\n    a1 : ARRAY[0..{c}] OF ARRAY[{a}..{a}] OF INT;\n"), &format!("i := arr[{a}];\ni := arr[{b} + 1];\ni := arr[{c} - {a}];\ni := a1[0][{a}];\n")),
        10 => prog(&format!("    arr : ARRAY[*] OF INT;\n    a2 : ARRAY[{a}..{b}] OF ARRAY[{b}..{c}] OF BOOL;\n"), &format!("b := a2[{a}][{c}];\n")),
        // --- strings
        11 => prog(&format!("    s : STRING[{a}] := 'abc';\n    w : WSTRING[{b}];\n"), "s := 'x';\n"),
        12 => format!("TYPE TLevel : STRING[{a}];\nEND_TYPE\nTYPE TPoint : WSTRING[{a} * {b}];\nEND_TYPE\n"),
        13 => prog("    s : STRING;\n    ch : CHAR;\n    wc : WCHAR;\n", &format!("s := '$FF$41$$$L$N$P$R$T$00';\ns := '{a}';\nch := '$41';\nwc := \"$FFFF\";\nwc := \"$FFFFF\";\ni := LEN(s) + {a};\ns := LEFT(s, {a});\ns := MID(s, {a}, {b});\ns := CONCAT(s, s);\ni := FIND(s, 'a');\ns := DELETE(s, {a}, {b});\ns := INSERT(s, 'x', {c});\n")),
        // --- literals in expressions (constant folding / range checks)
        14 => prog("", &format!("r := {a};\nr := -{a};\nr := {a} + {b};\nr := {a} - {b};\nr := {a} * {b};\n")),
        15 => prog("", &format!("r := {a} / {b};\nr := {a} MOD {b};\nr := {a} / 0;\nr := {a} MOD 0;\nr := {a} ** {b};\nr := 2 ** {a};\n")),
        16 => prog("", &format!("r := -(-({a}));\nr := NOT {a};\nr := {a} AND {b};\nr := {a} OR {b} XOR {c};\nb := {a} < {b};\nb := {a} = {b};\nb := {a} >= -{c};\n")),
        17 => prog("", &format!("r := SHL({a}, {b});\nr := SHR({a}, {b});\nr := ROL({a}, {b});\nr := ROR({a}, {c});\nr := ABS({a});\nr := LIMIT({a}, {b}, {c});\nr := MAX({a}, {b});\nr := MIN({a}, {b}, {c});\nr := SEL(b, {a}, {b});\nr := MUX({a}, {b}, {c});\n")),
        18 => prog("", &format!("r := INT_TO_SINT({a});\nr := DINT_TO_INT({a});\nr := LINT_TO_DINT({a});\nr := ULINT_TO_LINT({a});\nr := TO_INT({a});\nr := TO_USINT({b});\nr := TRUNC({ra});\nr := REAL_TO_INT({ra});\nr := LREAL_TO_LINT({rb});\nr := LINT_TO_REAL({a});\nr := BCD_TO_INT({a});\nr := INT_TO_BCD({a});\n")),
        19 => prog("    x : REAL;\n    y : LREAL;\n", &format!("x := {ra};\ny := {rb};\nx := {ra} + {rb};\ny := {ra} * {rb};\ny := {ra} / {rb};\ny := {ra} ** {rb};\nx := -{ra};\nb := {ra} < {rb};\ny := SQRT({ra});\ny := LN({ra});\ny := EXP({ra});\ny := EXPT({ra}, {a});\ni := {ra};\nr := {rb};\n")),
        // --- constants (collector-side constant evaluation)
        20 => format!("PROGRAM Main\nVAR CONSTANT\n    c1 : {ty} := {a};\n    c2 : {ty} := c1 + {b};\n    c3 : {ty} := c1 * c2;\n    c4 : {ty} := -c1;\n    c5 : {ty} := c1 / (c2 - c2);\n    c6 : {ty} := c1 ** {c};\n    c7 : {ty} := c1 MOD {b};\nEND_VAR\nVAR\n    arr : ARRAY[c1..c2] OF INT;\n    s : STRING[c3];\n    v : INT (c4..c1);\nEND_VAR\nEND_PROGRAM\n"),
        21 => format!("CONFIGURATION Conf\nVAR_GLOBAL CONSTANT\n    gCount : {ty} := {a};\nEND_VAR\nEND_CONFIGURATION\nTYPE TPoint : ARRAY[0..gCount] OF INT;\nEND_TYPE\nTYPE TColor : (Red := gCount, Green, Blue := gCount + {b});\nEND_TYPE\n"),
        22 => format!("PROGRAM Main\nVAR CONSTANT\n    c1 : INT := c2 + {a};\n    c2 : INT := c1 - {b};\nEND_VAR\nVAR\n    arr : ARRAY[c1..c2] OF INT;\nEND_VAR\nEND_PROGRAM\n"),
        // --- time / date
        23 => prog("    t : TIME;\n    lt : LTIME;\n", &format!("t := {ta};\nlt := {tb};\nt := {ta} + {tb};\nt := {ta} - {tb};\nt := {ta} * {a};\nt := {ta} / {a};\nb := {ta} < {tb};\nt := ADD_TIME({ta}, {tb});\nt := SUB_TIME({ta}, {tb});\nt := MUL_TIME({ta}, {a});\nt := DIV_TIME({ta}, {a});\nr := {ta};\n")),
        24 => prog(&format!("    t : TIME := {ta};\n    d : DATE := {tb};\n    tod1 : TOD := {ta};\n    dt1 : DT := {tb};\n    ld : LDATE := {ta};\n    ldt1 : LDT := {tb};\n"), &format!("dt1 := CONCAT_DATE_TOD({ta}, {tb});\nd := DT_TO_DATE({ta});\ntod1 := ADD_TOD_TIME({ta}, {tb});\ndt1 := ADD_DT_TIME({ta}, {tb});\nt := SUB_DATE_DATE({ta}, {tb});\nt := SUB_DT_DT({ta}, {tb});\ni := DAY_OF_WEEK({ta});\n")),
        25 => format!("CONFIGURATION Conf\nRESOURCE R ON CPU\n    TASK Fast (INTERVAL := {ta}, PRIORITY := {a});\n    TASK Slow (INTERVAL := {tb}, PRIORITY := {b});\n    TASK Ev (SINGLE := gFlag, PRIORITY := {c});\n    PROGRAM P1 WITH Fast : Main;\n    PROGRAM P2 WITH Slow : Main;\nEND_RESOURCE\nEND_CONFIGURATION\nPROGRAM Main\nEND_PROGRAM\n"),
        26 => format!("CONFIGURATION Conf\nRESOURCE R ON CPU\n    TASK Fast (INTERVAL := {a}, PRIORITY := {ta});\n    TASK Slow (PRIORITY := -{b});\n    TASK T3 (INTERVAL := {ra});\n    PROGRAM P1 WITH Fast : Main;\nEND_RESOURCE\nEND_CONFIGURATION\nPROGRAM Main\nEND_PROGRAM\n"),
        // --- direct addresses
        27 => prog(&format!("    q1 AT %QX{a}.{b} : BOOL;\n    i1 AT %IW{a} : INT;\n    m1 AT %MD{a}.{b}.{c} : DINT;\n    q2 AT %QX0.{a} : BOOL;\n    q3 AT %Q* : BOOL;\n    l1 AT %ML{c} : LINT;\n"), &format!("q1 := %IX{a}.{b};\n%QW{c} := i1;\nb := %MX{b}.{c};\n")),
        28 => format!("PROGRAM Main\nVAR\n    q AT %Q* : BOOL;\n    w AT %IW{c}.{a} : WORD;\n    x AT %MX{a}.{b}.{c}.{a} : BOOL;\nEND_VAR\nEND_PROGRAM\nCONFIGURATION Conf\nVAR_GLOBAL\n    gFlag AT %QX{b}.{c} : BOOL;\nEND_VAR\nVAR_CONFIG\n    P1.q AT %QX{a}.{a} : BOOL;\nEND_VAR\nEND_CONFIGURATION\n"),
        // --- statements with numeric positions
        29 => prog("", &format!("CASE i OF\n    {a}: i := 1;\n    {b}..{c}: i := 2;\n    {c}, {a}: i := 3;\nELSE\n    i := 4;\nEND_CASE;\n")),
        30 => prog("", &format!("FOR i := {a} TO {b} BY {c} DO\n    r := i;\nEND_FOR;\nFOR r := {b} TO {a} DO\n    i := i + 1;\nEND_FOR;\n")),
        31 => prog("    w : WORD;\n    lw : LWORD;\n", &format!("b := w.{a};\nb := lw.%X{b};\nw.{c} := TRUE;\nb := i.{a};\nb := w.%B{a};\nr := lw.%W{b};\n")),
        32 => prog("    p : POINTER TO INT;\n    rf : REF_TO INT;\n", &format!("p := ADR(i) + {a};\ni := p^ + {b};\ni := SIZEOF({ty});\ni := SIZEOF(r) * {a};\np := {a};\nrf := REF(i);\n")),
        33 => prog(&format!("    v : {ty} := {a};\n    v2 : {ty} := -{b};\n    v3 : {ty} := {a} + {b};\n    v4 : {ty} := {a} * {b} - {c};\n"), "r := v;\n"),
        // --- calls with literal arguments
        34 => format!("FUNCTION AddOne : {ty}\nVAR_INPUT\n    x : {ty} := {a};\n    y : {ty} := {b};\nEND_VAR\nAddOne := x + {c};\nEND_FUNCTION\nPROGRAM Main\nVAR\n    r : {ty};\nEND_VAR\nr := AddOne({a});\nr := AddOne(x := {b}, y := {c});\nr := AddOne({a}, {b}, {c});\nEND_PROGRAM\n"),
        35 => prog("    ton1 : TON;\n    ctu1 : CTU;\n", &format!("ton1(IN := b, PT := {ta});\nton1(IN := b, PT := {a});\nctu1(CU := b, PV := {a});\nctu1(CU := b, R := b, PV := {b});\ni := ctu1.CV + {c};\n")),
        // --- struct / initialisers
        36 => format!("TYPE TPoint :\nSTRUCT\n    a : {ty} := {a};\n    b : ARRAY[{a}..{b}] OF {ty};\n    s : STRING[{c}];\nEND_STRUCT\nEND_TYPE\nPROGRAM Main\nVAR\n    v : TPoint;\nEND_VAR\nv.a := {c};\nv.b[{b}] := {a};\nv.s := 'x';\nEND_PROGRAM\n"),
        37 => format!("TYPE TPoint :\nUNION\n    a : {ty};\n    b : ARRAY[0..{a}] OF BYTE;\nEND_UNION\nEND_TYPE\nTYPE TLevel : POINTER TO ARRAY[{a}..{b}] OF TPoint;\nEND_TYPE\n"),
        // --- literal spellings on their own
        38 => prog("", &format!("r := {a};\nr := {ra};\nr := {ta};\ni := {b};\nb := {c};\n")),
        39 => prog("", &format!("r := {ty}#{a};\nr := {ty}#{ra};\nr := {ty}#-{b};\nr := {ty}#16#{c};\n")),
        40 => prog("", &format!("i := {a}{b};\ni := {a}.{b};\ni := {a}..{b};\ni := {a}#{b};\ni := {ra}{rb};\ns := '$GG$';\ns := '$F';\n")),
        41 => format!("TYPE TLevel : {ty} := {a};\nEND_TYPE\nTYPE TPoint : {ty} ({a}..{b}) := {c};\nEND_TYPE\nTYPE TColor : ARRAY[{a}..{b}] OF {ty};\nEND_TYPE\n"),
        42 => prog(&format!("    sr : {ty}({a}..{b});\n    s2 : {ty}({b}..{c}) := {a};\n    ss : STRING[{c}] := '{a}';\n"), &format!("sr := {c};\nsr := s2;\ns2 := sr + {a};\n")),
        _ => prog("", &format!("WHILE i < {a} DO\n    i := i + {b};\nEND_WHILE;\nREPEAT\n    i := i - {c};\nUNTIL i <= {a}\nEND_REPEAT;\nIF {a} > {b} THEN\n    i := {c};\nELSIF {a} = {b} THEN\n    i := -{c};\nEND_IF;\nRETURN;\n")),
    }
}

/// The neighbouring case used as the edit: the next pool entry for `a`.
pub fn neighbour(case: &BoundaryCase) -> BoundaryCase {
    BoundaryCase {
        a: case.a.wrapping_add(1),
        ..case.clone()
    }
}
