//! Canonical, id-free rendering of analysis answers (diagnostics, symbol tables, types).
//!
//! Internal numbering (SymbolId, TypeId of user types, ScopeId) never appears in the output:
//! a symbol is referred to by name + declaration range + origin file, a type by its structure.
//! Every list whose order is an artefact of hash-map iteration is sorted.

use trust_hir::diagnostics::Diagnostic;
use trust_hir::symbols::{Symbol, SymbolId, SymbolKind, SymbolTable};
use trust_hir::types::{Type, TypeId};

fn range_str(r: text_size::TextRange) -> String {
    format!("{}..{}", u32::from(r.start()), u32::from(r.end()))
}

/// One diagnostic as a line: code, severity, range, message, related (sorted).
pub fn diagnostic_line(d: &Diagnostic) -> String {
    let mut related: Vec<String> = d
        .related
        .iter()
        .map(|r| format!("{}:{:?}", range_str(r.range), r.message))
        .collect();
    related.sort();
    format!(
        "{} {:?} {} {:?} related=[{}]",
        d.code.code(),
        d.severity,
        range_str(d.range),
        d.message,
        related.join("; ")
    )
}

/// Order-insensitive (multiset) rendering of a diagnostics list.
pub fn diagnostics(list: &[Diagnostic]) -> Vec<String> {
    let mut out: Vec<String> = list.iter().map(diagnostic_line).collect();
    out.sort();
    out
}

/// Structural rendering of a type; `depth` bounds recursion through (possibly cyclic)
/// user types.
pub fn type_str(table: &SymbolTable, id: TypeId, depth: u32) -> String {
    if id == TypeId::UNKNOWN {
        return "?".into();
    }
    if id == TypeId::VOID {
        return "VOID".into();
    }
    if let Some(n) = id.builtin_name() {
        return n.to_string();
    }
    if id.0 < TypeId::USER_TYPES_START {
        // fixed, documented constants of the type system - not an allocation artefact
        return format!("builtin#{}", id.0);
    }
    let Some(ty) = table.type_by_id(id) else {
        return "<user type not in table>".into();
    };
    if depth == 0 {
        return match ty {
            Type::Struct { name, .. } => format!("STRUCT {name}"),
            Type::Union { name, .. } => format!("UNION {name}"),
            Type::Enum { name, .. } => format!("ENUM {name}"),
            Type::Alias { name, .. } => format!("ALIAS {name}"),
            Type::FunctionBlock { name } => format!("FB {name}"),
            Type::Class { name } => format!("CLASS {name}"),
            Type::Interface { name } => format!("INTERFACE {name}"),
            Type::Array { dimensions, .. } => format!("ARRAY{dimensions:?} OF .."),
            Type::Pointer { .. } => "POINTER TO ..".into(),
            Type::Reference { .. } => "REF_TO ..".into(),
            Type::Subrange { lower, upper, .. } => format!("..({lower}..{upper})"),
            other => format!("{other:?}"),
        };
    }
    let d = depth - 1;
    match ty {
        Type::Array {
            element,
            dimensions,
        } => format!("ARRAY{:?} OF {}", dimensions, type_str(table, *element, d)),
        Type::Struct { name, fields } => {
            let fs: Vec<String> = fields
                .iter()
                .map(|f| {
                    format!(
                        "{}:{}{}",
                        f.name,
                        type_str(table, f.type_id, d),
                        f.address.as_ref().map(|a| format!("@{a}")).unwrap_or_default()
                    )
                })
                .collect();
            format!("STRUCT {name}{{{}}}", fs.join(","))
        }
        Type::Union { name, variants } => {
            let fs: Vec<String> = variants
                .iter()
                .map(|f| {
                    format!(
                        "{}:{}{}",
                        f.name,
                        type_str(table, f.type_id, d),
                        f.address.as_ref().map(|a| format!("@{a}")).unwrap_or_default()
                    )
                })
                .collect();
            format!("UNION {name}{{{}}}", fs.join(","))
        }
        Type::Enum { name, base, values } => {
            let vs: Vec<String> = values.iter().map(|(n, v)| format!("{n}={v}")).collect();
            format!("ENUM {name}:{}({})", type_str(table, *base, d), vs.join(","))
        }
        Type::Pointer { target } => format!("POINTER TO {}", type_str(table, *target, d)),
        Type::Reference { target } => format!("REF_TO {}", type_str(table, *target, d)),
        Type::Subrange { base, lower, upper } => {
            format!("{}({lower}..{upper})", type_str(table, *base, d))
        }
        Type::FunctionBlock { name } => format!("FB {name}"),
        Type::Class { name } => format!("CLASS {name}"),
        Type::Interface { name } => format!("INTERFACE {name}"),
        Type::Alias { name, target } => format!("ALIAS {name}={}", type_str(table, *target, d)),
        // elementary / generic variants carry no ids (String{max_len}, Int, AnyInt, ...)
        other => format!("{other:?}"),
    }
}

/// How an origin file is named in the rendering: `f<FileId>` for the Database search, the
/// source key for the Project search (where FileId numbers are an allocation artefact).
pub type FileNamer<'a> = &'a dyn Fn(u32) -> String;

pub fn by_file_id(id: u32) -> String {
    format!("f{id}")
}

/// Reference to another symbol without its id.
fn symbol_ref(table: &SymbolTable, id: SymbolId, namer: FileNamer) -> String {
    if id == SymbolId::UNKNOWN {
        return "<unknown>".into();
    }
    match table.get(id) {
        Some(s) => format!(
            "{}@{}{}",
            s.name,
            range_str(s.range),
            s.origin.map(|o| format!("/{}", namer(o.file_id.0))).unwrap_or_default()
        ),
        None => "<dangling>".into(),
    }
}

fn kind_str(table: &SymbolTable, kind: &SymbolKind, namer: FileNamer) -> String {
    match kind {
        SymbolKind::Function {
            return_type,
            parameters,
        } => format!(
            "Function:{}({})",
            type_str(table, *return_type, 2),
            parameters
                .iter()
                .map(|p| symbol_ref(table, *p, namer))
                .collect::<Vec<_>>()
                .join(",")
        ),
        SymbolKind::Method {
            return_type,
            parameters,
        } => format!(
            "Method:{}({})",
            return_type
                .map(|t| type_str(table, t, 2))
                .unwrap_or_else(|| "-".into()),
            parameters
                .iter()
                .map(|p| symbol_ref(table, *p, namer))
                .collect::<Vec<_>>()
                .join(",")
        ),
        SymbolKind::Property {
            prop_type,
            has_get,
            has_set,
        } => format!(
            "Property:{} get={has_get} set={has_set}",
            type_str(table, *prop_type, 2)
        ),
        // remaining variants carry no ids
        other => format!("{other:?}"),
    }
}

fn symbol_line(table: &SymbolTable, s: &Symbol, with_builtin_detail: bool, namer: FileNamer) -> String {
    let mut line = format!(
        "{} | {} | {} | type={} | origin={} | parent={}",
        s.name,
        kind_str(table, &s.kind, namer),
        range_str(s.range),
        type_str(table, s.type_id, 3),
        s.origin
            .map(|o| namer(o.file_id.0))
            .unwrap_or_else(|| "-".into()),
        s.parent
            .map(|p| symbol_ref(table, p, namer))
            .unwrap_or_else(|| "-".into()),
    );
    if with_builtin_detail {
        line.push_str(&format!(
            " | vis={:?} mods={}{}{} addr={:?} ext={:?} impl={:?} doc={:?}",
            s.visibility,
            if s.modifiers.is_final { "F" } else { "" },
            if s.modifiers.is_abstract { "A" } else { "" },
            if s.modifiers.is_override { "O" } else { "" },
            s.direct_address,
            table.extends_name(s.id),
            table.implements_names(s.id),
            s.doc,
        ));
    }
    line
}

/// Canonical rendering of a symbol table: one line per symbol (sorted), then one line per
/// scope (kind, owner, parent owner, names visible in it - sorted), then the global-name
/// lookup result for every top-level name. No SymbolId/TypeId/ScopeId numbers.
pub fn symbol_table_with(table: &SymbolTable, namer: FileNamer) -> Vec<String> {
    let mut lines: Vec<String> = table
        .iter()
        .map(|s| format!("S {}", symbol_line(table, s, true, namer)))
        .collect();
    let mut scope_lines = Vec::new();
    for scope in table.scopes() {
        // builtin symbols (empty range, no origin) are the same in every table: only their
        // number is kept so that the line stays readable
        let is_builtin = |id: &SymbolId| {
            table
                .get(*id)
                .map(|s| s.range.is_empty() && s.origin.is_none())
                .unwrap_or(false)
        };
        let builtins = scope.symbols.values().filter(|id| is_builtin(id)).count();
        let mut names: Vec<String> = scope
            .symbols
            .iter()
            .filter(|(_, id)| !is_builtin(id))
            .map(|(k, id)| format!("{k}->{}", symbol_ref(table, *id, namer)))
            .collect();
        names.sort();
        names.push(format!("+{builtins} builtin"));
        let parent_owner = scope
            .parent
            .and_then(|p| table.get_scope(p))
            .map(|p| {
                format!(
                    "{:?}/{}",
                    p.kind,
                    p.owner.map(|o| symbol_ref(table, o, namer)).unwrap_or_else(|| "-".into())
                )
            })
            .unwrap_or_else(|| "-".into());
        let mut usings: Vec<String> = scope
            .using_directives
            .iter()
            .map(|u| format!("{}@{}", u.path.join("."), range_str(u.range)))
            .collect();
        usings.sort();
        scope_lines.push(format!(
            "C {:?} owner={} parent={} using=[{}] names=[{}]",
            scope.kind,
            scope.owner.map(|o| symbol_ref(table, o, namer)).unwrap_or_else(|| "-".into()),
            parent_owner,
            usings.join(","),
            names.join(", ")
        ));
    }
    lines.append(&mut scope_lines);
    // what a by-name lookup of each top-level symbol finds (first-wins / last-wins
    // decisions on name clashes are part of the observable table)
    let mut seen = std::collections::BTreeSet::new();
    for s in table.iter() {
        if s.parent.is_none() {
            let key = s.name.to_ascii_uppercase();
            if seen.insert(key.clone()) {
                let found = table
                    .lookup(&key)
                    .map(|id| symbol_ref(table, id, namer))
                    .unwrap_or_else(|| "-".into());
                let ty = table
                    .lookup_type(&key)
                    .map(|t| type_str(table, t, 2))
                    .unwrap_or_else(|| "-".into());
                lines.push(format!("L {key} -> {found} type={ty}"));
            }
        }
    }
    lines.sort();
    lines
}
