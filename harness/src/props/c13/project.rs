//! Second search of C13: the same property one layer up, through `trust_hir::Project`
//! (source registry + analysis database) - the way the language server adds, edits,
//! removes, renames and re-adds files. Files are addressed by `SourceKey`, the registry
//! allocates the FileIds.
//!
//! Oracle after every op: (1) registry invariants - every live key has a FileId, distinct
//! live keys have distinct FileIds, `key_for_file_id` is the inverse, a removed key has none,
//! `source_text(id_of(key))` is the text last set for that key, the database and the
//! registry know exactly as many files as there are live keys; (2) for every live KEY the
//! id-free rendering (origins are named by key, not by FileId) of diagnostics / symbols /
//! expression types equals that of a brand-new `Project` into which the current key -> text
//! map was loaded.
//!
//! Name clashes between files are resolved by FileId order, so a from-scratch result
//! legitimately depends on the order in which keys get their ids. The brand-new project is
//! therefore loaded in the order of the incremental project's FileIds (the relative order
//! is the same, the numbers differ: dense in the new project, sparse after removals in the
//! old one). Nothing is assumed about *which* numbers the registry hands out.

use std::collections::BTreeMap;

use serde_json::json;
use trust_hir::db::{FileId, SourceDatabase};
use trust_hir::{Project, SourceKey};

use super::gen::{History, Op, QueryKind};
use super::{ask, ask_twice, compare_file_snaps, describe_with, diff_lines, file_snapshot, render_raw_with, FileSnap};
use crate::engine::Probe;

pub const NKEYS: usize = 8;

/// Half of the keys are virtual documents (untitled / non-file URIs), half are paths (which
/// do not exist, so that `SourceKey::from_path` normalises lexically and deterministically).
pub fn key_of(slot: usize) -> SourceKey {
    let slot = slot % NKEYS;
    if slot % 2 == 0 {
        SourceKey::from_virtual(format!("untitled:k{slot}.st"))
    } else {
        SourceKey::from_path(format!("/tpv-c13-no-such-dir/src/k{slot}.st"))
    }
}

fn key_name(slot: usize) -> String {
    key_of(slot).display()
}

fn namer_for(p: &Project) -> impl Fn(u32) -> String + '_ {
    move |id| match p.key_for_file_id(FileId(id)) {
        Some(k) => format!("<{}>", k.display()),
        None => format!("<file id {id} without key>"),
    }
}

fn slot_of(op: &Op) -> usize {
    match op {
        Op::Set { f, .. } | Op::Remove { f } | Op::Query { f, .. } => *f as usize % NKEYS,
    }
}

fn describe(op: &Op) -> String {
    describe_with(op, &|f| format!("key {}", key_name(f % NKEYS)))
}

fn apply(p: &mut Project, texts: &mut [Option<String>], op: &Op) -> Result<(), String> {
    let slot = slot_of(op);
    match op {
        Op::Set { text, .. } => {
            let id = p.set_source_text(key_of(slot), text.clone());
            texts[slot] = Some(text.clone());
            if p.file_id_for_key(&key_of(slot)) != Some(id) {
                return Err(format!(
                    "set_source_text({}) returned file id {} but the registry maps the key to {:?}",
                    key_name(slot),
                    id.0,
                    p.file_id_for_key(&key_of(slot))
                ));
            }
        }
        Op::Remove { .. } => {
            let _ = p.remove_source(&key_of(slot));
            texts[slot] = None;
        }
        Op::Query { .. } => {}
    }
    Ok(())
}

/// Registry / database bookkeeping implied by "additions, edits, removals, re-additions".
/// Returns the FileId of every live key.
fn invariants(p: &Project, texts: &[Option<String>], ctx: &str) -> Result<Vec<Option<FileId>>, String> {
    let mut ids: Vec<Option<FileId>> = vec![None; NKEYS];
    let mut owner: BTreeMap<u32, usize> = BTreeMap::new();
    let db = p.database();
    for slot in 0..NKEYS {
        let key = key_of(slot);
        match (&texts[slot], p.file_id_for_key(&key)) {
            (Some(text), Some(id)) => {
                if let Some(other) = owner.insert(id.0, slot) {
                    return Err(format!(
                        "{ctx}: two live keys share one file id: {} and {} are both file id {}",
                        key_name(other),
                        key_name(slot),
                        id.0
                    ));
                }
                if p.key_for_file_id(id) != Some(&key) {
                    return Err(format!(
                        "{ctx}: key_for_file_id({}) is {:?}, not {} which owns that id",
                        id.0,
                        p.key_for_file_id(id).map(|k| k.display()),
                        key_name(slot)
                    ));
                }
                let stored = db.source_text(id);
                if stored.as_str() != text.as_str() {
                    let belongs: Vec<String> = (0..NKEYS)
                        .filter(|s| texts[*s].as_deref() == Some(stored.as_str()))
                        .map(key_name)
                        .collect();
                    return Err(format!(
                        "{ctx}: source_text(file id of {}) is not the text last set for that key ({} bytes stored, {} bytes expected; the stored text is what was set for {:?})",
                        key_name(slot),
                        stored.len(),
                        text.len(),
                        belongs
                    ));
                }
                ids[slot] = Some(id);
            }
            (Some(_), None) => {
                return Err(format!("{ctx}: live key {} has no file id", key_name(slot)));
            }
            (None, Some(id)) => {
                return Err(format!(
                    "{ctx}: removed / never added key {} still has file id {}",
                    key_name(slot),
                    id.0
                ));
            }
            (None, None) => {}
        }
    }
    let live = texts.iter().flatten().count();
    let db_files = db.file_ids().len();
    if db_files != live {
        return Err(format!(
            "{ctx}: the analysis database knows {db_files} files but {live} keys are live"
        ));
    }
    let reg = p.sources().iter().count();
    if reg != live {
        return Err(format!(
            "{ctx}: the source registry lists {reg} keys but {live} keys are live"
        ));
    }
    let mut db_ids: Vec<u32> = db.file_ids().iter().map(|f| f.0).collect();
    db_ids.sort();
    let mut reg_ids: Vec<u32> = owner.keys().copied().collect();
    reg_ids.sort();
    if db_ids != reg_ids {
        return Err(format!(
            "{ctx}: file ids in the database {db_ids:?} are not the ids of the live keys {reg_ids:?}"
        ));
    }
    Ok(ids)
}

/// Brand-new project holding the current key -> text map (loaded in `order`).
struct FreshProject {
    order: Vec<usize>,
    texts: Vec<Option<String>>,
    project: Project,
    ids: Vec<Option<FileId>>,
    snaps: Option<Vec<Option<FileSnap>>>,
}

impl FreshProject {
    fn new(texts: &[Option<String>], order: &[usize]) -> FreshProject {
        super::FRESH_DATABASES.fetch_add(1, std::sync::atomic::Ordering::Relaxed);
        let mut project = Project::new();
        let mut ids = vec![None; NKEYS];
        for slot in order {
            if let Some(t) = &texts[*slot] {
                ids[*slot] = Some(project.set_source_text(key_of(*slot), t.clone()));
            }
        }
        FreshProject {
            order: order.to_vec(),
            texts: texts.to_vec(),
            project,
            ids,
            snaps: None,
        }
    }

    fn snapshot(&mut self) -> Result<&Vec<Option<FileSnap>>, String> {
        if self.snaps.is_none() {
            let s = snapshot_keys(&self.project, &self.ids, &self.texts, 0, "from-scratch project")?;
            self.snaps = Some(s);
        }
        Ok(self.snaps.as_ref().unwrap())
    }
}

/// Live slots in ascending order of their FileId in the incremental project.
fn id_order(ids: &[Option<FileId>]) -> Vec<usize> {
    let mut v: Vec<(u32, usize)> = ids
        .iter()
        .enumerate()
        .filter_map(|(s, id)| id.map(|i| (i.0, s)))
        .collect();
    v.sort();
    v.into_iter().map(|(_, s)| s).collect()
}

fn snapshot_keys(
    p: &Project,
    ids: &[Option<FileId>],
    texts: &[Option<String>],
    rot: usize,
    who: &str,
) -> Result<Vec<Option<FileSnap>>, String> {
    let namer = namer_for(p);
    let mut out: Vec<Option<FileSnap>> = vec![None; NKEYS];
    for i in 0..NKEYS {
        let slot = (i + rot) % NKEYS;
        if let Some(id) = ids[slot] {
            out[slot] = Some(file_snapshot(
                p.database(),
                id,
                texts[slot].as_ref(),
                (rot / NKEYS) % 2 == 1,
                who,
                &namer,
            )?);
        }
    }
    Ok(out)
}

/// The from-scratch side is cached per (text state, id order).
struct FreshCache {
    entries: Vec<(usize, FreshProject)>,
}

impl FreshCache {
    fn get(&mut self, state: usize, texts: &[Option<String>], order: &[usize]) -> &mut FreshProject {
        let pos = self
            .entries
            .iter()
            .position(|(s, f)| *s == state && f.order == order);
        let pos = match pos {
            Some(p) => p,
            None => {
                self.entries.push((state, FreshProject::new(texts, order)));
                self.entries.len() - 1
            }
        };
        &mut self.entries[pos].1
    }
}

fn compare_all(
    p: &Project,
    ids: &[Option<FileId>],
    texts: &[Option<String>],
    fresh: &mut FreshProject,
    rot: usize,
    ctx: &str,
) -> Result<(), String> {
    let inc = snapshot_keys(p, ids, texts, rot, "incremental project")?;
    let fr = fresh.snapshot()?;
    for slot in 0..NKEYS {
        match (&inc[slot], &fr[slot]) {
            (Some(a), Some(b)) => compare_file_snaps(a, b, ctx, &format!("key {}", key_name(slot)))?,
            (None, None) => {}
            _ => return Err(format!("{ctx}: key {} is live on one side only", key_name(slot))),
        }
    }
    Ok(())
}

fn compare_query(
    p: &Project,
    ids: &[Option<FileId>],
    fresh: &FreshProject,
    kind: QueryKind,
    slot: usize,
    arg: u32,
    ctx: &str,
) -> Result<(), String> {
    let (Some(a_id), Some(b_id)) = (ids[slot], fresh.ids[slot]) else {
        return Ok(()); // the key is not live: there is no file id to ask about
    };
    let a = ask_twice(p.database(), kind, a_id, arg, "incremental project")?;
    let b = ask_twice(fresh.project.database(), kind, b_id, arg, "from-scratch project")?;
    let ra = render_raw_with(&a, None, &namer_for(p));
    let rb = render_raw_with(&b, None, &namer_for(&fresh.project));
    super::COMPARED_QUERIES.fetch_add(1, std::sync::atomic::Ordering::Relaxed);
    if ra != rb {
        return Err(format!(
            "{ctx}: answer of {kind:?}(key {}, {arg}) differs from a brand-new project with the same key -> text map:{}",
            key_name(slot),
            diff_lines(&ra, &rb)
        ));
    }
    Ok(())
}

fn state_indices(h: &History) -> Vec<usize> {
    let mut texts: Vec<Option<String>> = vec![None; NKEYS];
    let mut state = 0usize;
    let mut out = Vec::with_capacity(h.ops.len());
    for op in &h.ops {
        let slot = slot_of(op);
        let changed = match op {
            Op::Set { text, .. } => {
                // a re-add of the same text after a removal is a new state as well
                let c = texts[slot].as_ref() != Some(text);
                texts[slot] = Some(text.clone());
                c
            }
            Op::Remove { .. } => texts[slot].take().is_some(),
            Op::Query { .. } => false,
        };
        if changed {
            state += 1;
        }
        out.push(state);
    }
    out
}

/// One project; after every op the invariants and all live keys are checked.
fn full_pass(h: &History, states: &[usize], cache: &mut FreshCache) -> Result<(), String> {
    let mut p = Project::new();
    let mut texts: Vec<Option<String>> = vec![None; NKEYS];
    for (k, op) in h.ops.iter().enumerate() {
        let ctx = format!("[project, full pass] after op {k} = {}", describe(op));
        apply(&mut p, &mut texts, op).map_err(|e| format!("{ctx}: {e}"))?;
        let ids = invariants(&p, &texts, &ctx)?;
        let order = id_order(&ids);
        let fresh = cache.get(states[k], &texts, &order);
        if let Op::Query { kind, arg, .. } = op {
            compare_query(&p, &ids, fresh, *kind, slot_of(op), *arg, &ctx)?;
        }
        compare_all(&p, &ids, &texts, fresh, k, &ctx)?;
    }
    Ok(())
}

/// A second project sees only the history's own ops; invariants after every op, every query
/// compared, all keys compared at the end and on four replayed prefixes.
fn pure_pass(h: &History, states: &[usize], cache: &mut FreshCache) -> Result<(), String> {
    let n = h.ops.len();
    let mut p = Project::new();
    let mut texts: Vec<Option<String>> = vec![None; NKEYS];
    for (k, op) in h.ops.iter().enumerate() {
        let ctx = format!("[project, pure pass] op {k} = {}", describe(op));
        apply(&mut p, &mut texts, op).map_err(|e| format!("{ctx}: {e}"))?;
        let ids = invariants(&p, &texts, &ctx)?;
        if let Op::Query { kind, arg, .. } = op {
            let order = id_order(&ids);
            let fresh = cache.get(states[k], &texts, &order);
            compare_query(&p, &ids, fresh, *kind, slot_of(op), *arg, &ctx)?;
        }
    }
    let mut prefixes: Vec<usize> = (1..=4).map(|i| i * n / 4).filter(|p| *p >= 1).collect();
    prefixes.dedup();
    for pre in prefixes {
        let ctx = format!(
            "[project, pure pass] prefix of {pre} ops (last = {})",
            describe(&h.ops[pre - 1])
        );
        let mut rp = Project::new();
        let mut rtexts: Vec<Option<String>> = vec![None; NKEYS];
        for op in &h.ops[..pre] {
            apply(&mut rp, &mut rtexts, op).map_err(|e| format!("{ctx}: {e}"))?;
            if let Op::Query { kind, arg, .. } = op {
                if let Some(id) = rp.file_id_for_key(&key_of(slot_of(op))) {
                    let _ = ask(rp.database(), *kind, id, *arg);
                }
            }
        }
        let ids = invariants(&rp, &rtexts, &ctx)?;
        let order = id_order(&ids);
        let fresh = cache.get(states[pre - 1], &rtexts, &order);
        compare_all(&rp, &ids, &rtexts, fresh, pre, &ctx)?;
    }
    Ok(())
}

fn classify(h: &History, probe: &mut Probe) {
    let n = h.ops.len();
    probe.label(format!(
        "project_ops={}",
        match n {
            0..=5 => "1-5",
            6..=15 => "6-15",
            _ => "16-40",
        }
    ));
    let mut live: Vec<usize> = Vec::new(); // slots in allocation order
    let mut used = std::collections::BTreeSet::new();
    let mut removed_any = false;
    let mut alloc_after_removal = false;
    let mut alloc_after_removal_with_others = false;
    // the shape of seeded change C13-b: an older key is removed, then two ids are allocated
    let mut pending_after_older_removal: Option<u32> = None;
    let mut older_then_two = false;
    let mut readd = false;
    let mut ever_removed = std::collections::BTreeSet::new();
    let mut max_live = 0;
    for (k, op) in h.ops.iter().enumerate() {
        let slot = slot_of(op);
        match op {
            Op::Set { .. } => {
                used.insert(slot);
                if !live.contains(&slot) {
                    if removed_any {
                        alloc_after_removal = true;
                        if live.len() >= 2 {
                            alloc_after_removal_with_others = true;
                        }
                    }
                    if ever_removed.contains(&slot) {
                        readd = true;
                    }
                    if let Some(c) = pending_after_older_removal.as_mut() {
                        *c += 1;
                        if *c >= 2 {
                            older_then_two = true;
                        }
                    }
                    live.push(slot);
                }
            }
            Op::Remove { .. } => {
                if let Some(pos) = live.iter().position(|s| *s == slot) {
                    if pos + 1 != live.len() && pending_after_older_removal.is_none() {
                        pending_after_older_removal = Some(0);
                    }
                    live.remove(pos);
                    removed_any = true;
                    ever_removed.insert(slot);
                } else {
                    probe.label("project_remove_absent_key");
                }
            }
            Op::Query { .. } => {
                if !live.contains(&slot) {
                    probe.label("project_query_dead_key");
                }
            }
        }
        if let Some(w) = h.how.get(k) {
            if w.starts_with("rename_set") {
                probe.label("project_rename");
            }
        }
        max_live = max_live.max(live.len());
    }
    probe.label(format!("project_distinct_keys={}", used.len()));
    probe.label(format!("project_max_live={max_live}"));
    if alloc_after_removal {
        probe.label("project_id_allocated_after_a_removal");
    }
    if older_then_two {
        probe.label("project_older_key_removed_then_two_allocations");
    }
    if readd {
        probe.label("project_remove_then_readd_same_key");
    }
    if alloc_after_removal_with_others {
        let mut key = b"project:".to_vec();
        key.extend(serde_json::to_vec(&h.ops).unwrap_or_default());
        probe.nontrivial(&key);
        probe.sample(json!({
            "search": "project",
            "ops": h.ops.iter().map(describe).collect::<Vec<_>>(),
            "how": h.how,
            "older_key_removed_then_two_allocations": older_then_two,
        }));
    }
}

pub fn check_project_history(h: &History, probe: &mut Probe) -> Result<(), String> {
    let states = state_indices(h);
    let mut cache = FreshCache { entries: Vec::new() };
    full_pass(h, &states, &mut cache)?;
    pure_pass(h, &states, &mut cache)?;
    classify(h, probe);
    Ok(())
}
