//! History generator for C13: a small cross-referencing project (up to five files) that is
//! edited in small steps, with removals, re-additions and queries in between.
//!
//! Everything is a deterministic function of a choice tape. Names come from very small
//! pools, so that a FUNCTION/TYPE/FB/global/namespace declared in one file is used in
//! another one and name clashes between files are frequent.

use serde::{Deserialize, Serialize};
use trust_syntax::lexer::{lex, TokenKind};

use crate::engine::tape::{Reader, Tape};

pub const NFILES: usize = 5;
pub const MAX_OPS: usize = 40;

#[derive(Clone, Copy, Debug, Serialize, Deserialize, PartialEq, Eq, PartialOrd, Ord, Hash)]
pub enum QueryKind {
    Diagnostics,
    Analyze,
    FileSymbols,
    /// `expr_id_at_offset(f, arg)` then `type_of(f, id)`
    TypeOfAt,
    /// `type_of(f, arg)` with a raw expression id
    TypeOfId,
    ExprAt,
    /// `resolve_name(f, NAMES[arg])` (only issued by the concurrent-readers search)
    ResolveName,
}

/// Names asked by `ResolveName` (pool names of the project generator, any spelling).
pub const RESOLVE_NAMES: &[&str] = &[
    "AddOne", "Main", "TPoint", "Motor", "gCount", "Scale", "aux", "TCOLOR", "Lib", "x", "r",
    "IDevice", "Clamp", "Valve", "TLevel", "Conf", "Red", "nosuchname",
];

#[derive(Clone, Debug, Serialize, Deserialize, PartialEq, Eq)]
pub enum Op {
    /// file index 0..5 (FileId = index + 1)
    Set { f: u8, text: String },
    Remove { f: u8 },
    Query { kind: QueryKind, f: u8, arg: u32 },
}

#[derive(Clone, Debug, Serialize, Deserialize, PartialEq, Eq)]
pub struct History {
    pub ops: Vec<Op>,
    /// how each op was produced (evidence only; not interpreted by the check)
    #[serde(default)]
    pub how: Vec<String>,
    /// true for cases produced by the strategy (never serialised: a replayed case has false)
    #[serde(skip)]
    pub generated: bool,
}

const FUNCS: &[&str] = &["AddOne", "Scale", "Clamp"];
const TYPES: &[&str] = &["TPoint", "TColor", "TLevel"];
const FBS: &[&str] = &["Motor", "Valve"];
const GLOBALS: &[&str] = &["gCount", "gFlag"];
const NAMESPACES: &[&str] = &["Lib", "Util"];
const PROGRAMS: &[&str] = &["Main", "Aux"];
const IFACES: &[&str] = &["IDevice", "IUnit"];
const ELEM: &[&str] = &["INT", "DINT", "BOOL", "REAL", "UINT", "TIME", "STRING", "LREAL"];

#[derive(Clone, Debug, PartialEq, Eq)]
pub struct Item {
    pub kind: u8,
    pub n: u8,
    pub t: u8,
    pub t2: u8,
    pub v: u8,
    pub r: [u8; 4],
    pub stmts: Vec<(u8, u8)>,
    pub enabled: bool,
}


fn pick_name<'a>(pool: &'a [&'a str], i: u8) -> &'a str {
    pool[i as usize % pool.len()]
}

fn elem(i: u8) -> &'static str {
    ELEM[i as usize % ELEM.len()]
}

/// A type reference: elementary for low values, a pool user type otherwise.
fn any_type(i: u8) -> &'static str {
    let i = i as usize % (ELEM.len() + TYPES.len());
    if i < ELEM.len() {
        ELEM[i]
    } else {
        TYPES[i - ELEM.len()]
    }
}

fn gen_item(r: &mut Reader) -> Item {
    // low tape values -> FUNCTION / PROGRAM, the simplest cross-file pair
    let kind = [0u8, 8, 1, 2, 3, 4, 6, 7, 5, 9, 10, 11, 12, 8]
        [r.weighted(&[4, 3, 2, 2, 2, 3, 2, 2, 1, 1, 1, 1, 3, 3])];
    let nst = if kind == 8 || kind == 4 { 1 + r.pick(5) } else { 0 };
    Item {
        kind,
        n: r.pick(6) as u8,
        t: r.pick(11) as u8,
        t2: r.pick(11) as u8,
        v: r.pick(4) as u8,
        r: [r.pick(6) as u8, r.pick(6) as u8, r.pick(6) as u8, r.pick(6) as u8],
        stmts: (0..nst).map(|_| (r.pick(18) as u8, r.pick(6) as u8)).collect(),
        enabled: true,
    }
}

fn stmt_text(it: &Item, s: (u8, u8), out: &mut String) {
    let f = pick_name(FUNCS, s.1);
    let g = pick_name(GLOBALS, it.r[2]);
    let ns = pick_name(NAMESPACES, s.1);
    let ty = pick_name(TYPES, s.1);
    let line = match s.0 % 18 {
        0 => format!("r := {f}(r);"),
        1 => format!("r := {f}(x := r);"),
        2 => "fb(i := r);".to_string(),
        3 => "r := fb.o;".to_string(),
        4 => "v.a := r;".to_string(),
        5 => format!("{g} := {g} + 1;"),
        6 => format!("r := {ns}.{f}(r);"),
        7 => "c := Red;".to_string(),
        8 => format!("c := {ty}#Green;"),
        9 => "r := v.b + r;".to_string(),
        10 => format!("IF {g} > 0 THEN\n    r := r + 1;\nEND_IF;"),
        11 => "fb.i := r;".to_string(),
        12 => format!("r := {f}({f}(r));"),
        13 => "r := arr[1];".to_string(),
        14 => "fb.Start();".to_string(),
        15 => format!("r := {g};"),
        16 => "v := v;".to_string(),
        _ => format!("r := {ns}.{f}(x := {g});"),
    };
    out.push_str(&line);
    out.push('\n');
}

fn render_item(it: &Item, out: &mut String) {
    if !it.enabled {
        return;
    }
    match it.kind {
        0 => {
            let f = pick_name(FUNCS, it.n);
            let ty = any_type(it.t);
            let body = match it.v % 4 {
                0 => format!("{f} := x;"),
                1 => format!("{f} := x + 1;"),
                2 => format!("IF x > 0 THEN\n    {f} := x;\nEND_IF;"),
                _ => format!("{f} := {}(x);", pick_name(FUNCS, it.r[0])),
            };
            out.push_str(&format!(
                "FUNCTION {f} : {ty}\nVAR_INPUT\n    x : {ty};\nEND_VAR\n{body}\nEND_FUNCTION\n"
            ));
        }
        1 => {
            let t = pick_name(TYPES, it.n);
            out.push_str(&format!(
                "TYPE {t} :\nSTRUCT\n    a : {};\n    b : {};\nEND_STRUCT\nEND_TYPE\n",
                any_type(it.t),
                any_type(it.t2)
            ));
        }
        2 => {
            let t = pick_name(TYPES, it.n);
            let body = match it.v % 4 {
                0 => "(Red, Green, Blue)",
                1 => "(Red := 1, Green := 2)",
                2 => "(Green, Red)",
                _ => "(Red, Green, Blue, Amber) := Green",
            };
            out.push_str(&format!("TYPE {t} : {body};\nEND_TYPE\n"));
        }
        3 => {
            let t = pick_name(TYPES, it.n);
            let body = match it.v % 4 {
                0 => any_type(it.t).to_string(),
                1 => format!("ARRAY[0..3] OF {}", any_type(it.t)),
                2 => "INT (0..10)".to_string(),
                _ => pick_name(TYPES, it.r[0]).to_string(),
            };
            out.push_str(&format!("TYPE {t} : {body};\nEND_TYPE\n"));
        }
        4 => {
            let fb = pick_name(FBS, it.n);
            let head = match it.v % 4 {
                0 | 1 => String::new(),
                2 => format!(" EXTENDS {}", pick_name(FBS, it.r[0])),
                _ => format!(" IMPLEMENTS {}", pick_name(IFACES, it.r[0])),
            };
            out.push_str(&format!(
                "FUNCTION_BLOCK {fb}{head}\nVAR_INPUT\n    i : {};\nEND_VAR\nVAR_OUTPUT\n    o : {};\nEND_VAR\nVAR\n    p : {};\n    r : {};\n    v : {};\n    fb : {};\n    arr : ARRAY[0..3] OF {};\nEND_VAR\n",
                elem(it.t),
                elem(it.t),
                pick_name(TYPES, it.r[1]),
                elem(it.t2),
                pick_name(TYPES, it.r[1]),
                pick_name(FBS, it.r[3]),
                elem(it.t2),
            ));
            if it.v % 4 == 3 {
                out.push_str("METHOD PUBLIC Start\nEND_METHOD\n");
            }
            out.push_str("o := i;\n");
            for s in &it.stmts {
                stmt_text(it, *s, out);
            }
            out.push_str("END_FUNCTION_BLOCK\n");
        }
        5 => {
            let i = pick_name(IFACES, it.n);
            let head = if it.v % 4 == 3 {
                format!(" EXTENDS {}", pick_name(IFACES, it.r[0]))
            } else {
                String::new()
            };
            out.push_str(&format!("INTERFACE {i}{head}\n    METHOD Start\n    END_METHOD\n"));
            if it.v % 2 == 1 {
                out.push_str(&format!(
                    "    METHOD Stop : {}\n    END_METHOD\n",
                    elem(it.t)
                ));
            }
            out.push_str("END_INTERFACE\n");
        }
        6 => {
            let g = pick_name(GLOBALS, it.n);
            let p = pick_name(PROGRAMS, it.r[0]);
            out.push_str(&format!(
                "CONFIGURATION Conf\nVAR_GLOBAL\n    {g} : {};\nEND_VAR\nRESOURCE R ON CPU\n    TASK Fast (INTERVAL := T#10ms, PRIORITY := 1);\n",
                any_type(it.t)
            ));
            if it.v % 2 == 1 {
                out.push_str("    TASK Slow (INTERVAL := T#100ms, PRIORITY := 2);\n");
                out.push_str(&format!(
                    "    PROGRAM P2 WITH Slow : {};\n",
                    pick_name(PROGRAMS, it.r[1])
                ));
            }
            out.push_str(&format!(
                "    PROGRAM P1 WITH Fast : {p};\nEND_RESOURCE\nEND_CONFIGURATION\n"
            ));
        }
        7 => {
            let ns = pick_name(NAMESPACES, it.n);
            out.push_str(&format!("NAMESPACE {ns}\n"));
            let inner = Item {
                kind: [0u8, 0, 1, 2][it.v as usize % 4],
                n: it.r[0],
                v: it.r[1],
                stmts: Vec::new(),
                enabled: true,
                ..it.clone()
            };
            render_item(&inner, out);
            out.push_str("END_NAMESPACE\n");
        }
        8 => {
            let p = pick_name(PROGRAMS, it.n);
            if it.v % 4 == 1 {
                out.push_str(&format!("USING {};\n", pick_name(NAMESPACES, it.r[0])));
            }
            out.push_str(&format!(
                "PROGRAM {p}\nVAR\n    v : {};\n    fb : {};\n    r : {};\n    c : {};\n    arr : {};\nEND_VAR\n",
                pick_name(TYPES, it.r[1]),
                pick_name(FBS, it.r[3]),
                any_type(it.t),
                pick_name(TYPES, it.r[0]),
                if it.v % 4 == 2 {
                    pick_name(TYPES, it.t2).to_string()
                } else {
                    format!("ARRAY[0..3] OF {}", any_type(it.t2))
                },
            ));
            if it.t2 % 3 == 0 {
                // direct address: a one-character edit changes Symbol::direct_address only
                out.push_str(&format!(
                    "VAR\n    io AT %IX0.{} : BOOL;\nEND_VAR\n",
                    it.r[2] % 8
                ));
            }
            if it.v % 4 != 3 {
                out.push_str(&format!(
                    "VAR_EXTERNAL\n    {} : {};\nEND_VAR\n",
                    pick_name(GLOBALS, it.r[2]),
                    any_type(it.t2)
                ));
            }
            for s in &it.stmts {
                stmt_text(it, *s, out);
            }
            out.push_str("END_PROGRAM\n");
        }
        9 => {
            // top-level VAR_GLOBAL block (the parser may or may not accept it here)
            out.push_str(&format!(
                "VAR_GLOBAL\n    {} : {};\nEND_VAR\n",
                pick_name(GLOBALS, it.n),
                any_type(it.t)
            ));
        }
        10 => {
            let c = pick_name(FBS, it.n);
            out.push_str(&format!(
                "CLASS {c} IMPLEMENTS {}\n    METHOD PUBLIC Start\n    END_METHOD\nEND_CLASS\n",
                pick_name(IFACES, it.r[0])
            ));
        }
        12 => {
            // numeric boundary declarations / statements (see boundary.rs); the pool names
            // TColor / TLevel / TPoint / AddOne / Main / gCount / gFlag / Conf are used there
            // as well, so these items take part in the cross-file references and clashes
            let case = super::boundary::BoundaryCase {
                tpl: ((it.v as usize * 11 + it.t as usize) % super::boundary::N_TEMPLATES) as u8,
                a: ((it.t2 as usize * 6 + it.r[0] as usize + 66 * (it.r[3] as usize % 2)) % 251) as u8,
                b: ((it.n as usize * 6 + it.r[1] as usize + 36 * (it.r[2] as usize % 3)) % 251) as u8,
                c: ((it.r[2] as usize * 6 + it.r[1] as usize) % 251) as u8,
                ty: ((it.t2 as usize + it.n as usize) % 251) as u8,
            };
            out.push_str(&super::boundary::text(&case));
        }
        _ => {
            // a function whose name is a TYPE/FB pool name: cross-kind name clash
            let names = [TYPES[0], FBS[0], PROGRAMS[0], GLOBALS[0]];
            let f = names[it.n as usize % names.len()];
            out.push_str(&format!(
                "FUNCTION {f} : {}\n{f} := 0;\nEND_FUNCTION\n",
                elem(it.t)
            ));
        }
    }
}

#[derive(Clone, Debug, PartialEq, Eq)]
pub struct FileModel {
    pub items: Vec<Item>,
    /// leading blank lines / comment (shifts every range in the file)
    pub lead: u8,
    /// text-level damage applied after rendering: (kind, selector)
    pub damage: Vec<(u8, u32)>,
}

const GARBAGE: &[&str] = &[
    "END_VAR", ";", "(", ")", "'", "(*", "END_PROGRAM", ":=", "VAR", "END_TYPE", ":", "FUNCTION",
    "\u{e9}", "1..", "#", "END_IF", "STRUCT", "[",
];

fn floor_boundary(s: &str, mut i: usize) -> usize {
    if i > s.len() {
        i = s.len();
    }
    while !s.is_char_boundary(i) {
        i -= 1;
    }
    i
}

fn sel(selector: u32, n: usize) -> usize {
    if n == 0 {
        0
    } else {
        ((selector as u64 * n as u64) >> 32) as usize
    }
}

fn tokens(text: &str) -> Vec<(TokenKind, usize, usize)> {
    lex(text)
        .into_iter()
        .map(|t| (t.kind, usize::from(t.range.start()), usize::from(t.range.end())))
        .collect()
}

pub fn apply_damage(text: &mut String, kind: u8, selector: u32) {
    match kind % 6 {
        0 => {
            // delete one line
            let lines: Vec<&str> = text.split_inclusive('\n').collect();
            if lines.is_empty() {
                return;
            }
            let k = sel(selector, lines.len());
            let new: String = lines
                .iter()
                .enumerate()
                .filter(|(i, _)| *i != k)
                .map(|(_, l)| *l)
                .collect();
            *text = new;
        }
        1 => {
            // truncate (keep at least the first third so that something parses)
            let lo = text.len() / 3;
            let at = floor_boundary(text, lo + sel(selector, text.len() - lo + 1));
            text.truncate(at);
        }
        2 => {
            let toks: Vec<_> = tokens(text).into_iter().filter(|t| !t.0.is_trivia()).collect();
            if toks.is_empty() {
                return;
            }
            let (_, s, e) = toks[sel(selector, toks.len())];
            text.replace_range(s..e, "");
        }
        3 => {
            let toks: Vec<_> = tokens(text).into_iter().filter(|t| !t.0.is_trivia()).collect();
            if toks.is_empty() {
                return;
            }
            let (_, s, e) = toks[sel(selector, toks.len())];
            let t = format!(" {}", &text[s..e]);
            text.insert_str(e, &t);
        }
        4 => {
            let toks = tokens(text);
            if toks.is_empty() {
                return;
            }
            let (_, _, e) = toks[sel(selector, toks.len())];
            let g = GARBAGE[(selector as usize >> 3) % GARBAGE.len()];
            text.insert_str(e, &format!(" {g} "));
        }
        _ => {
            // duplicate one line
            let lines: Vec<&str> = text.split_inclusive('\n').collect();
            if lines.is_empty() {
                return;
            }
            let k = sel(selector, lines.len());
            let mut new = String::with_capacity(text.len() + 40);
            for (i, l) in lines.iter().enumerate() {
                new.push_str(l);
                if i == k {
                    new.push_str(l);
                    if !l.ends_with('\n') {
                        new.push('\n');
                    }
                }
            }
            *text = new;
        }
    }
}

impl FileModel {
    pub fn render(&self) -> String {
        let mut out = String::new();
        match self.lead % 4 {
            0 => {}
            1 => out.push('\n'),
            2 => out.push_str("(* header *)\n"),
            _ => out.push_str("\n\n// generated\n"),
        }
        for it in &self.items {
            render_item(it, &mut out);
        }
        for (k, s) in &self.damage {
            apply_damage(&mut out, *k, *s);
        }
        out
    }
}

fn gen_model(r: &mut Reader) -> FileModel {
    let n = 1 + r.weighted(&[5, 4, 2, 1]);
    FileModel {
        items: (0..n).map(|_| gen_item(r)).collect(),
        lead: 0,
        damage: Vec::new(),
    }
}

/// One small edit of a model; returns a short description.
fn small_edit(m: &mut FileModel, r: &mut Reader) -> &'static str {
    if m.items.is_empty() {
        m.items.push(gen_item(r));
        return "add_item";
    }
    let i = r.pick(m.items.len());
    match r.weighted(&[6, 6, 4, 2, 3, 3, 3, 3, 3, 3, 2]) {
        0 => {
            // rename one declaration
            let it = &mut m.items[i];
            it.n = it.n.wrapping_add(1 + r.pick(2) as u8);
            "rename_decl"
        }
        1 => {
            let it = &mut m.items[i];
            it.t = it.t.wrapping_add(1 + r.pick(9) as u8);
            "change_type"
        }
        2 => {
            let it = &mut m.items[i];
            it.enabled = !it.enabled;
            "toggle_decl"
        }
        3 => {
            m.items.remove(i);
            "delete_item"
        }
        4 => {
            let at = r.pick(m.items.len() + 1);
            m.items.insert(at, gen_item(r));
            "add_item"
        }
        5 => {
            m.lead = m.lead.wrapping_add(1 + r.pick(3) as u8);
            "shift_ranges"
        }
        6 => {
            let it = &mut m.items[i];
            it.v = it.v.wrapping_add(1 + r.pick(3) as u8);
            "change_variant"
        }
        7 => {
            let it = &mut m.items[i];
            if it.stmts.is_empty() {
                let k = r.pick(4);
                it.r[k] = it.r[k].wrapping_add(1);
                "change_ref"
            } else {
                let k = r.pick(it.stmts.len());
                it.stmts[k] = (r.pick(18) as u8, r.pick(6) as u8);
                "change_stmt"
            }
        }
        8 => {
            let it = &mut m.items[i];
            let k = r.pick(4);
            it.r[k] = it.r[k].wrapping_add(1 + r.pick(2) as u8);
            "change_ref"
        }
        9 => {
            if m.damage.len() < 3 {
                m.damage.push((r.pick(6) as u8, r.word()));
                "damage_text"
            } else {
                m.damage.clear();
                "repair_text"
            }
        }
        _ => {
            if m.damage.is_empty() {
                let j = r.pick(m.items.len());
                m.items.swap(i, j);
                "swap_items"
            } else {
                m.damage.pop();
                "repair_text"
            }
        }
    }
}

/// Raw (model-free) texts: empty, blank, corpus files mutated with C12-style mutators.
fn raw_text(r: &mut Reader) -> String {
    match r.weighted(&[2, 1, 1, 6, 2, 1]) {
        0 => String::new(),
        1 => " \n\t\n".to_string(),
        2 => "\u{feff}PROGRAM P\nEND_PROGRAM\n".to_string(),
        5 => super::super::c12::nest_text(&super::super::c12::NestCase {
            kind: r.pick(12) as u8,
            depth: 1 + r.pick(32) as u16,
            close: r.chance(2, 3),
        }),
        3 => {
            let c = super::super::c12::corpus();
            let small: Vec<&String> = c.files.iter().filter(|f| f.len() <= 2500).collect();
            let mut text = if small.is_empty() {
                c.files[0].clone()
            } else {
                small[r.pick(small.len())].clone()
            };
            let rounds = r.pick(4);
            for _ in 0..rounds {
                let k = r.pick(6) as u8;
                let s = r.word();
                apply_damage(&mut text, k, s);
            }
            text
        }
        _ => {
            let c = super::super::c12::corpus();
            let mut out = String::new();
            let n = 1 + r.pick(30);
            for _ in 0..n {
                out.push_str(&c.vocab[r.pick(c.vocab.len())]);
                out.push(if r.chance(1, 5) { '\n' } else { ' ' });
            }
            out
        }
    }
}

#[derive(Clone)]
enum Slot {
    Model(FileModel),
    Raw,
}

/// Offsets at which the generator aims expression queries: starts of non-trivia tokens.
pub fn token_starts(text: &str) -> Vec<u32> {
    tokens(text)
        .into_iter()
        .filter(|t| !t.0.is_trivia())
        .map(|t| t.1 as u32)
        .collect()
}

/// Shape of a history: number of file slots (FileId 1..5 for the Database search, source
/// keys for the Project search), how many may be live at once, and the op weights
/// (query, small edit, remove, re-add same, re-add edited, copy, undo, replace, raw text,
/// same text again, rename [remove old, remove new, set new := old text], add a further file).
pub struct GenCfg {
    pub nslots: usize,
    pub max_live: usize,
    pub max_ops: usize,
    pub weights: [u32; 12],
}

pub const DB_CFG: GenCfg = GenCfg {
    nslots: NFILES,
    max_live: NFILES,
    max_ops: MAX_OPS,
    weights: [38, 34, 6, 5, 5, 2, 3, 2, 2, 1, 0, 2],
};

/// Shorter histories for the concurrent-readers search (each case is repeated several times).
pub const READERS_CFG: GenCfg = GenCfg {
    nslots: NFILES,
    max_live: NFILES,
    max_ops: 20,
    weights: [30, 40, 5, 4, 4, 2, 3, 2, 2, 1, 0, 6],
};

/// More removals / additions / renames, eight keys of which at most six are live, so that
/// file ids are allocated, freed and (if the registry recycles them) reused all the time.
pub const PROJECT_CFG: GenCfg = GenCfg {
    nslots: 8,
    max_live: 6,
    max_ops: 30,
    weights: [26, 20, 14, 6, 5, 2, 2, 2, 1, 1, 4, 12],
};

pub fn history_from_tape_cfg(tape: &Tape, cfg: &GenCfg) -> History {
    let nslots = cfg.nslots;
    let mut r = Reader::new(tape);
    let mut ops: Vec<Op> = Vec::new();
    let mut how: Vec<String> = Vec::new();
    let mut slot: Vec<Option<Slot>> = vec![None; nslots];
    let mut text: Vec<Option<String>> = vec![None; nslots];
    let mut prev_text: Vec<Option<(String, Option<Slot>)>> = vec![None; nslots];
    let mut removed: Vec<Option<(String, Option<Slot>)>> = vec![None; nslots];

    // lengths 1..40, biased to the longer half (low tape values -> short, for shrinking)
    let n_ops = match r.weighted(&[2, 3, 5]) {
        0 => 1 + r.pick(8),
        1 => 9 + r.pick(12),
        _ => 21 + r.pick(MAX_OPS - 20),
    }
    .min(cfg.max_ops);
    // an initial project of 1..4 files, added in tape-chosen order
    let initial = (1 + r.pick(4)).min(n_ops);

    let push_set = |ops: &mut Vec<Op>,
                        how: &mut Vec<String>,
                        slot: &mut Vec<Option<Slot>>,
                        text: &mut Vec<Option<String>>,
                        prev_text: &mut Vec<Option<(String, Option<Slot>)>>,
                        f: usize,
                        new_slot: Slot,
                        new_text: String,
                        why: &str| {
        if let Some(old) = text[f].take() {
            prev_text[f] = Some((old, slot[f].clone()));
        }
        slot[f] = Some(new_slot);
        text[f] = Some(new_text.clone());
        ops.push(Op::Set {
            f: f as u8,
            text: new_text,
        });
        how.push(why.to_string());
    };

    while ops.len() < n_ops {
        if r.exhausted() && !ops.is_empty() {
            break;
        }
        let present: Vec<usize> = (0..nslots).filter(|f| text[*f].is_some()).collect();
        if ops.len() < initial || present.is_empty() {
            let absent: Vec<usize> = (0..nslots).filter(|f| text[*f].is_none()).collect();
            let f = if absent.is_empty() {
                r.pick(nslots)
            } else {
                absent[r.pick(absent.len())]
            };
            let m = gen_model(&mut r);
            let t = m.render();
            push_set(
                &mut ops, &mut how, &mut slot, &mut text, &mut prev_text, f,
                Slot::Model(m), t, "new_file",
            );
            continue;
        }
        // weights: query, small edit, remove, re-add same, re-add different, copy, undo,
        //          new model, raw text, same text again, add a further file
        let choice = r.weighted(&cfg.weights);
        let full = present.len() >= cfg.max_live;
        match choice {
            0 => {
                // (the tape over-represents 0 and u32::MAX: first and last entries are common)
                let kind = [
                    QueryKind::TypeOfAt,
                    QueryKind::Analyze,
                    QueryKind::FileSymbols,
                    QueryKind::ExprAt,
                    QueryKind::TypeOfId,
                    QueryKind::Diagnostics,
                ][r.weighted(&[6, 4, 4, 2, 1, 5])];
                let f = if r.chance(9, 10) {
                    present[r.pick(present.len())]
                } else {
                    r.pick(nslots)
                };
                let arg = match (&text[f], kind) {
                    (_, QueryKind::TypeOfId) => r.pick(40) as u32,
                    (Some(t), _) => {
                        let starts = token_starts(t);
                        if starts.is_empty() || r.chance(1, 8) {
                            r.pick(t.len() + 3) as u32
                        } else {
                            // the statement part sits at the end of a POU: bias to later tokens
                            let k = starts.len() - 1 - sel(r.word() / 3 * 2, starts.len());
                            starts[k]
                        }
                    }
                    (None, _) => r.pick(50) as u32,
                };
                ops.push(Op::Query {
                    kind,
                    f: f as u8,
                    arg,
                });
                how.push("query".into());
            }
            1 => {
                let f = present[r.pick(present.len())];
                match slot[f].clone() {
                    Some(Slot::Model(mut m)) => {
                        let mut why = small_edit(&mut m, &mut r);
                        let mut t = m.render();
                        for _ in 0..3 {
                            if Some(&t) != text[f].as_ref() {
                                break;
                            }
                            why = small_edit(&mut m, &mut r);
                            t = m.render();
                        }
                        if Some(&t) == text[f].as_ref() {
                            // the edit was invisible in the text: shift the ranges instead
                            m.lead = m.lead.wrapping_add(1);
                            t = m.render();
                            why = "shift_ranges";
                        }
                        push_set(
                            &mut ops, &mut how, &mut slot, &mut text, &mut prev_text, f,
                            Slot::Model(m), t, why,
                        );
                    }
                    _ => {
                        // raw text: one text-level mutation
                        let mut t = text[f].clone().unwrap_or_default();
                        let k = r.pick(6) as u8;
                        let s = r.word();
                        apply_damage(&mut t, k, s);
                        push_set(
                            &mut ops, &mut how, &mut slot, &mut text, &mut prev_text, f,
                            Slot::Raw, t, "mutate_raw",
                        );
                    }
                }
            }
            2 => {
                // remove (sometimes a file that is not there)
                let f = if r.chance(9, 10) {
                    present[r.pick(present.len())]
                } else {
                    r.pick(nslots)
                };
                if let Some(t) = text[f].take() {
                    removed[f] = Some((t, slot[f].take()));
                }
                ops.push(Op::Remove { f: f as u8 });
                how.push("remove".into());
            }
            3 | 4 => {
                if full {
                    continue;
                }
                let cands: Vec<usize> = (0..nslots)
                    .filter(|f| text[*f].is_none() && removed[*f].is_some())
                    .collect();
                if cands.is_empty() {
                    continue;
                }
                let f = cands[r.pick(cands.len())];
                let (t, s) = removed[f].clone().unwrap();
                if choice == 3 {
                    push_set(
                        &mut ops, &mut how, &mut slot, &mut text, &mut prev_text, f,
                        s.unwrap_or(Slot::Raw), t, "readd_same",
                    );
                } else {
                    match s {
                        Some(Slot::Model(mut m)) => {
                            small_edit(&mut m, &mut r);
                            let t2 = m.render();
                            let why = if t2 == t { "readd_same" } else { "readd_edited" };
                            push_set(
                                &mut ops, &mut how, &mut slot, &mut text, &mut prev_text, f,
                                Slot::Model(m), t2, why,
                            );
                        }
                        _ => {
                            let m = gen_model(&mut r);
                            let t2 = m.render();
                            push_set(
                                &mut ops, &mut how, &mut slot, &mut text, &mut prev_text, f,
                                Slot::Model(m), t2, "readd_edited",
                            );
                        }
                    }
                }
            }
            5 => {
                // copy another file's content (every declaration clashes)
                let src = present[r.pick(present.len())];
                let f = r.pick(nslots);
                if f == src || (full && text[f].is_none()) {
                    continue;
                }
                let t = text[src].clone().unwrap();
                let s = slot[src].clone().unwrap_or(Slot::Raw);
                push_set(
                    &mut ops, &mut how, &mut slot, &mut text, &mut prev_text, f, s, t,
                    "copy_file",
                );
            }
            6 => {
                let cands: Vec<usize> = present
                    .iter()
                    .copied()
                    .filter(|f| prev_text[*f].is_some())
                    .collect();
                if cands.is_empty() {
                    continue;
                }
                let f = cands[r.pick(cands.len())];
                let (t, s) = prev_text[f].clone().unwrap();
                push_set(
                    &mut ops, &mut how, &mut slot, &mut text, &mut prev_text, f,
                    s.unwrap_or(Slot::Raw), t, "undo",
                );
            }
            7 => {
                let f = present[r.pick(present.len())];
                let m = gen_model(&mut r);
                let t = m.render();
                push_set(
                    &mut ops, &mut how, &mut slot, &mut text, &mut prev_text, f,
                    Slot::Model(m), t, "replace_file",
                );
            }
            8 => {
                let f = r.pick(nslots);
                if full && text[f].is_none() {
                    continue;
                }
                let t = raw_text(&mut r);
                push_set(
                    &mut ops, &mut how, &mut slot, &mut text, &mut prev_text, f, Slot::Raw, t,
                    "raw_text",
                );
            }
            9 => {
                let f = present[r.pick(present.len())];
                let t = text[f].clone().unwrap();
                ops.push(Op::Set { f: f as u8, text: t });
                how.push("same_text".into());
            }
            10 => {
                // what the language server does on a file rename: remove the old key,
                // remove the new key, set the new key to the old content
                let from = present[r.pick(present.len())];
                let to = r.pick(nslots);
                if to == from {
                    continue;
                }
                let t = text[from].take().unwrap();
                let s = slot[from].take();
                removed[from] = Some((t.clone(), s.clone()));
                ops.push(Op::Remove { f: from as u8 });
                how.push("rename_remove_old".into());
                if let Some(old) = text[to].take() {
                    removed[to] = Some((old, slot[to].take()));
                }
                ops.push(Op::Remove { f: to as u8 });
                how.push("rename_remove_new".into());
                push_set(
                    &mut ops, &mut how, &mut slot, &mut text, &mut prev_text, to,
                    s.unwrap_or(Slot::Raw), t, "rename_set_new",
                );
            }
            _ => {
                let absent: Vec<usize> = (0..nslots).filter(|f| text[*f].is_none()).collect();
                if absent.is_empty() || full {
                    continue;
                }
                let f = absent[r.pick(absent.len())];
                let m = gen_model(&mut r);
                let t = m.render();
                push_set(
                    &mut ops, &mut how, &mut slot, &mut text, &mut prev_text, f,
                    Slot::Model(m), t, "new_file",
                );
            }
        }
    }
    ops.truncate(MAX_OPS);
    how.truncate(MAX_OPS);
    History {
        ops,
        how,
        generated: true,
    }
}
