//! Fourth search of C13: concurrent READERS of one `&Database`.
//!
//! Queries take `&self`; the language server shares the database by reference between its
//! worker threads (`RwLock<Project>::read()`), so "repeating a query without intervening
//! edits returns the same answer" and "queries in any order" must also hold when two
//! threads ask at the same time. A read must not disturb another read in flight (e.g. by
//! writing a salsa input under `&self`, which cancels the other thread's query; `Database`
//! maps `salsa::Cancelled` to an empty analysis / no diagnostics / `TypeId::UNKNOWN`).
//!
//! Case: an edit history (exclusive phase, one thread, with the history's own queries) and
//! 2-4 reader scripts of read-only queries (diagnostics, analyze, file_symbols, type_of,
//! expr_id_at_offset, resolve_name over all files, present or not). At up to three points
//! of the history (always at its end; the others right after an edit, i.e. cold) the
//! readers run on `&Database` inside `std::thread::scope`: pass 1 (cold: whatever the last
//! edit invalidated has to be recomputed) and, after a barrier, pass 2 (warm). All threads are
//! joined before the next edit. The whole case is repeated with a new `Database` so that
//! the OS varies the interleaving.
//!
//! Oracle: every answer, rendered id-free, equals the answer a brand-new database loaded
//! with the same texts gives to the same query when asked sequentially. No timing is
//! involved: a cancelled / empty / stale answer simply differs. The verdict of a correct
//! tree therefore cannot depend on the schedule; only the evidence counters (how often
//! queries overlapped) do.

use std::collections::BTreeMap;
use std::sync::atomic::{AtomicU32, AtomicU64, Ordering};
use std::sync::Barrier;

use serde::{Deserialize, Serialize};
use serde_json::json;
use trust_hir::db::Database;

use super::gen::{self, History, Op, QueryKind, NFILES};
use super::{apply_to_db, ask, build_states, describe, fid, render_raw, Raw, States};
use crate::engine::Probe;

#[derive(Clone, Debug, Serialize, Deserialize)]
pub struct ReadersCase {
    pub history: History,
    /// per reader thread: (kind 0..7, file 0..5, selector)
    pub scripts: Vec<Vec<(u8, u8, u32)>>,
    /// where (besides the end of the history) the readers run: selectors over the edit ops
    pub phases: Vec<u32>,
    #[serde(skip)]
    pub generated: bool,
}

const KINDS: [QueryKind; 7] = [
    QueryKind::Analyze,
    QueryKind::FileSymbols,
    QueryKind::TypeOfAt,
    QueryKind::ExprAt,
    QueryKind::ResolveName,
    QueryKind::TypeOfId,
    QueryKind::Diagnostics,
];

type Query = (QueryKind, usize, u32);

/// Scripts with concrete arguments for the current texts (offsets = token starts).
fn concrete(scripts: &[Vec<(u8, u8, u32)>], texts: &[Option<String>]) -> Vec<Vec<Query>> {
    let starts: Vec<Vec<u32>> = texts
        .iter()
        .map(|t| t.as_ref().map(|t| gen::token_starts(t)).unwrap_or_default())
        .collect();
    scripts
        .iter()
        .map(|s| {
            s.iter()
                .map(|(k, f, sel)| {
                    let kind = KINDS[*k as usize % KINDS.len()];
                    let f = *f as usize % NFILES;
                    let arg = match kind {
                        QueryKind::TypeOfAt | QueryKind::ExprAt => {
                            let st = &starts[f];
                            if st.is_empty() {
                                *sel % 64
                            } else {
                                st[((*sel as u64 * st.len() as u64) >> 32) as usize]
                            }
                        }
                        QueryKind::TypeOfId => *sel % 40,
                        QueryKind::ResolveName => *sel % gen::RESOLVE_NAMES.len() as u32,
                        _ => 0,
                    };
                    (kind, f, arg)
                })
                .collect()
        })
        .collect()
}

/// Evidence (per worker process; schedule dependent, not part of the verdict).
pub static QUERIES_ASKED: AtomicU64 = AtomicU64::new(0);
pub static QUERIES_OVERLAPPED: AtomicU64 = AtomicU64::new(0);
pub static COLD_QUERIES_OVERLAPPED: AtomicU64 = AtomicU64::new(0);
pub static PHASES: AtomicU64 = AtomicU64::new(0);
pub static PHASES_WITH_COLD_OVERLAP: AtomicU64 = AtomicU64::new(0);

/// One read phase: all readers on `&Database`, two passes separated by a barrier.
/// Returns per thread the answers of pass 1 and pass 2.
fn read_phase(db: &Database, scripts: &[Vec<Query>]) -> Result<Vec<(Vec<Raw>, Vec<Raw>)>, String> {
    let n = scripts.len();
    let barrier = Barrier::new(n);
    let in_flight = AtomicU32::new(0);
    let cold_overlap = AtomicU64::new(0);
    let results: Vec<Result<(Vec<Raw>, Vec<Raw>), String>> = std::thread::scope(|scope| {
        let mut handles = Vec::new();
        for script in scripts {
            let (barrier, in_flight, cold_overlap) = (&barrier, &in_flight, &cold_overlap);
            let h = std::thread::Builder::new()
                .stack_size(8 << 20)
                .spawn_scoped(scope, move || {
                    let run = |cold: bool| -> Vec<Raw> {
                        let mut out = Vec::with_capacity(script.len());
                        for (kind, f, arg) in script {
                            let others = in_flight.fetch_add(1, Ordering::SeqCst);
                            let raw = ask(db, *kind, fid(*f), *arg);
                            // another query was in flight when this one started or ended
                            let others_end = in_flight.fetch_sub(1, Ordering::SeqCst) - 1;
                            QUERIES_ASKED.fetch_add(1, Ordering::Relaxed);
                            if others > 0 || others_end > 0 {
                                QUERIES_OVERLAPPED.fetch_add(1, Ordering::Relaxed);
                                if cold {
                                    COLD_QUERIES_OVERLAPPED.fetch_add(1, Ordering::Relaxed);
                                    cold_overlap.fetch_add(1, Ordering::Relaxed);
                                }
                            }
                            out.push(raw);
                        }
                        out
                    };
                    // a panic inside a reader is caught here (the panic hook's message is
                    // thread local) but the barrier protocol must still be completed
                    barrier.wait();
                    let p1 = crate::engine::catch(|| run(true));
                    barrier.wait();
                    let p2 = crate::engine::catch(|| run(false));
                    Ok::<_, String>((p1?, p2?))
                });
            handles.push(h);
        }
        handles
            .into_iter()
            .map(|h| match h {
                Ok(h) => h
                    .join()
                    .unwrap_or_else(|_| Err("a reader thread panicked outside its queries".into())),
                Err(e) => Err(format!("cannot spawn reader thread: {e}")),
            })
            .collect()
    });
    PHASES.fetch_add(1, Ordering::Relaxed);
    if cold_overlap.load(Ordering::Relaxed) > 0 {
        PHASES_WITH_COLD_OVERLAP.fetch_add(1, Ordering::Relaxed);
    }
    results.into_iter().collect()
}

/// Sequential reference answers of a brand-new database, cached per (state, query).
struct Reference {
    cache: BTreeMap<(usize, QueryKind, usize, u32), Vec<String>>,
}

impl Reference {
    fn get(&mut self, st: &States, state: usize, q: &Query) -> &Vec<String> {
        self.cache
            .entry((state, q.0, q.1, q.2))
            .or_insert_with(|| render_raw(&ask(&st.states[state].db, q.0, fid(q.1), q.2), None))
    }
}

fn phase_points(h: &History, selectors: &[u32]) -> Vec<usize> {
    let edits: Vec<usize> = h
        .ops
        .iter()
        .enumerate()
        .filter(|(_, op)| !matches!(op, Op::Query { .. }))
        .map(|(k, _)| k)
        .collect();
    let mut points = vec![h.ops.len() - 1];
    if !edits.is_empty() {
        // the last edit (cold even if queries of the history follow it) and tape-chosen ones
        points.push(*edits.last().unwrap());
        for s in selectors.iter().take(2) {
            points.push(edits[((*s as u64 * edits.len() as u64) >> 32) as usize]);
        }
    }
    points.sort();
    points.dedup();
    points
}

/// One repetition: new database, the history sequentially, readers at the phase points.
fn one_repetition(
    case: &ReadersCase,
    st: &States,
    reference: &mut Reference,
    points: &[usize],
    rep: usize,
) -> Result<(), String> {
    let h = &case.history;
    let mut db = Database::new();
    for (k, op) in h.ops.iter().enumerate() {
        apply_to_db(&mut db, op);
        if let Op::Query { kind, f, arg } = op {
            let _ = ask(&db, *kind, fid(*f as usize % NFILES), *arg);
        }
        if !points.contains(&k) {
            continue;
        }
        let state = st.state_after[k];
        let scripts = concrete(&case.scripts, &st.states[state].texts);
        let answers = read_phase(&db, &scripts)?;
        for (t, (p1, p2)) in answers.iter().enumerate() {
            for (pass, got) in [(1, p1), (2, p2)] {
                for (i, raw) in got.iter().enumerate() {
                    let q = &scripts[t][i];
                    let rendered = render_raw(raw, None);
                    let want = reference.get(st, state, q);
                    if &rendered != want {
                        return Err(format!(
                            "[readers] repetition {rep}, after op {k} = {}, reader {t} of {}, pass {pass} ({}), query {i} = {:?}(file {}, {}): the answer given while other readers were querying the same &Database differs from the sequential answer of a brand-new database with the same texts:{}",
                            describe(op),
                            scripts.len(),
                            if pass == 1 { "cold" } else { "warm" },
                            q.0,
                            q.1 + 1,
                            q.2,
                            super::diff_lines(&rendered, want)
                        ));
                    }
                }
            }
        }
        // after the join the same questions asked by one thread must get the same answers
        // (no edit happened)
        for script in &scripts {
            if let Some(q) = script.first() {
                let rendered = render_raw(&ask(&db, q.0, fid(q.1), q.2), None);
                if &rendered != reference.get(st, state, q) {
                    return Err(format!(
                        "[readers] repetition {rep}, after op {k}: sequential re-query {:?}(file {}, {}) after the concurrent phase differs from a brand-new database",
                        q.0,
                        q.1 + 1,
                        q.2
                    ));
                }
            }
        }
    }
    Ok(())
}

pub fn check_readers(case: &ReadersCase, repetitions: usize, probe: &mut Probe) -> Result<(), String> {
    let h = &case.history;
    if h.ops.is_empty() || case.scripts.len() < 2 {
        return Ok(());
    }
    let st = build_states(h);
    let mut reference = Reference {
        cache: BTreeMap::new(),
    };
    let points = phase_points(h, &case.phases);
    let before = (
        COLD_QUERIES_OVERLAPPED.load(Ordering::Relaxed),
        QUERIES_ASKED.load(Ordering::Relaxed),
    );
    for rep in 0..repetitions {
        one_repetition(case, &st, &mut reference, &points, rep)?;
    }
    let cold = COLD_QUERIES_OVERLAPPED.load(Ordering::Relaxed) - before.0;
    let asked = QUERIES_ASKED.load(Ordering::Relaxed) - before.1;
    probe.label(format!("readers_threads={}", case.scripts.len()));
    probe.label(format!("readers_phases_per_repetition={}", points.len()));
    // schedule dependent (evidence only)
    probe.label(if cold == 0 {
        "readers_cold_overlap=none"
    } else if cold * 10 < asked {
        "readers_cold_overlap=under_10_percent_of_queries"
    } else {
        "readers_cold_overlap=10_percent_or_more"
    });
    let files = st
        .states
        .last()
        .map(|s| s.texts.iter().flatten().count())
        .unwrap_or(0);
    if files >= 2 {
        let mut key = b"readers:".to_vec();
        key.extend(serde_json::to_vec(&(&h.ops, &case.scripts, &case.phases)).unwrap_or_default());
        probe.nontrivial(&key);
        probe.sample(json!({
            "search": "readers",
            "ops": h.ops.iter().map(describe).collect::<Vec<_>>(),
            "threads": case.scripts.len(),
            "queries_per_thread": case.scripts.iter().map(|s| s.len()).collect::<Vec<_>>(),
            "phase_after_ops": points,
            "repetitions": repetitions,
        }));
    }
    Ok(())
}
