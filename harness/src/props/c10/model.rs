//! C10 model: a serialisable mirror of the retainable `Value` shapes (floats as bit
//! patterns so equality is bitwise), conversions to/from the runtime types, the tape-driven
//! generator, and an independent STRN v1 encoder that records where every tag / length /
//! count field lives (used for structure-aware corruption).

use serde::{Deserialize, Serialize};
use smol_str::SmolStr;
use trust_runtime::value::{
    ArrayValue, DateTimeValue, DateValue, Duration, EnumValue, LDateTimeValue, LDateValue,
    LTimeOfDayValue, StructValue, TimeOfDayValue, Value,
};
use trust_runtime::RetainSnapshot;

use crate::engine::tape::{Reader, Tape};

/// Mirror of every retainable `Value` variant (all but Reference / Instance).
#[derive(Clone, Debug, PartialEq, Serialize, Deserialize)]
pub enum MV {
    Bool(bool),
    SInt(i8),
    Int(i16),
    DInt(i32),
    LInt(i64),
    USInt(u8),
    UInt(u16),
    UDInt(u32),
    ULInt(u64),
    /// f32 bit pattern
    Real(u32),
    /// f64 bit pattern
    LReal(u64),
    Byte(u8),
    Word(u16),
    DWord(u32),
    LWord(u64),
    Time(i64),
    LTime(i64),
    Date(i64),
    LDate(i64),
    Tod(i64),
    LTod(i64),
    Dt(i64),
    Ldt(i64),
    Str(String),
    WStr(String),
    Char(u8),
    WChar(u16),
    Array {
        dims: Vec<(i64, i64)>,
        elems: Vec<MV>,
    },
    Struct {
        ty: String,
        fields: Vec<(String, MV)>,
    },
    Enum {
        ty: String,
        variant: String,
        num: i64,
    },
    Null,
}

pub const TAG_COUNT: usize = 31;

impl MV {
    /// Wire tag (STRN v1), also used as the label of the shape.
    pub fn tag(&self) -> u8 {
        match self {
            MV::Bool(_) => 1,
            MV::SInt(_) => 2,
            MV::Int(_) => 3,
            MV::DInt(_) => 4,
            MV::LInt(_) => 5,
            MV::USInt(_) => 6,
            MV::UInt(_) => 7,
            MV::UDInt(_) => 8,
            MV::ULInt(_) => 9,
            MV::Real(_) => 10,
            MV::LReal(_) => 11,
            MV::Byte(_) => 12,
            MV::Word(_) => 13,
            MV::DWord(_) => 14,
            MV::LWord(_) => 15,
            MV::Time(_) => 16,
            MV::LTime(_) => 17,
            MV::Date(_) => 18,
            MV::LDate(_) => 19,
            MV::Tod(_) => 20,
            MV::LTod(_) => 21,
            MV::Dt(_) => 22,
            MV::Ldt(_) => 23,
            MV::Str(_) => 24,
            MV::WStr(_) => 25,
            MV::Char(_) => 26,
            MV::WChar(_) => 27,
            MV::Array { .. } => 28,
            MV::Struct { .. } => 29,
            MV::Enum { .. } => 30,
            MV::Null => 31,
        }
    }

    pub fn is_aggregate(&self) -> bool {
        matches!(self, MV::Array { .. } | MV::Struct { .. })
    }

    /// Nesting depth: scalar 0, aggregate of scalars 1, ...
    pub fn depth(&self) -> usize {
        match self {
            MV::Array { elems, .. } => 1 + elems.iter().map(|e| e.depth()).max().unwrap_or(0),
            MV::Struct { fields, .. } => {
                1 + fields.iter().map(|(_, v)| v.depth()).max().unwrap_or(0)
            }
            _ => 0,
        }
    }

    pub fn tags_into(&self, seen: &mut [bool; TAG_COUNT + 1]) {
        seen[self.tag() as usize] = true;
        match self {
            MV::Array { elems, .. } => elems.iter().for_each(|e| e.tags_into(seen)),
            MV::Struct { fields, .. } => fields.iter().for_each(|(_, v)| v.tags_into(seen)),
            _ => {}
        }
    }

    pub fn has_special_float(&self) -> bool {
        match self {
            MV::Real(b) => {
                let f = f32::from_bits(*b);
                f.is_nan() || *b == 0x8000_0000
            }
            MV::LReal(b) => {
                let f = f64::from_bits(*b);
                f.is_nan() || *b == 0x8000_0000_0000_0000
            }
            MV::Array { elems, .. } => elems.iter().any(|e| e.has_special_float()),
            MV::Struct { fields, .. } => fields.iter().any(|(_, v)| v.has_special_float()),
            _ => false,
        }
    }

    pub fn max_string_len(&self) -> usize {
        match self {
            MV::Str(s) | MV::WStr(s) => s.len(),
            MV::Array { elems, .. } => elems.iter().map(|e| e.max_string_len()).max().unwrap_or(0),
            MV::Struct { fields, .. } => fields
                .iter()
                .map(|(_, v)| v.max_string_len())
                .max()
                .unwrap_or(0),
            _ => 0,
        }
    }

    pub fn to_value(&self) -> Value {
        match self {
            MV::Bool(v) => Value::Bool(*v),
            MV::SInt(v) => Value::SInt(*v),
            MV::Int(v) => Value::Int(*v),
            MV::DInt(v) => Value::DInt(*v),
            MV::LInt(v) => Value::LInt(*v),
            MV::USInt(v) => Value::USInt(*v),
            MV::UInt(v) => Value::UInt(*v),
            MV::UDInt(v) => Value::UDInt(*v),
            MV::ULInt(v) => Value::ULInt(*v),
            MV::Real(b) => Value::Real(f32::from_bits(*b)),
            MV::LReal(b) => Value::LReal(f64::from_bits(*b)),
            MV::Byte(v) => Value::Byte(*v),
            MV::Word(v) => Value::Word(*v),
            MV::DWord(v) => Value::DWord(*v),
            MV::LWord(v) => Value::LWord(*v),
            MV::Time(v) => Value::Time(Duration::from_nanos(*v)),
            MV::LTime(v) => Value::LTime(Duration::from_nanos(*v)),
            MV::Date(v) => Value::Date(DateValue::new(*v)),
            MV::LDate(v) => Value::LDate(LDateValue::new(*v)),
            MV::Tod(v) => Value::Tod(TimeOfDayValue::new(*v)),
            MV::LTod(v) => Value::LTod(LTimeOfDayValue::new(*v)),
            MV::Dt(v) => Value::Dt(DateTimeValue::new(*v)),
            MV::Ldt(v) => Value::Ldt(LDateTimeValue::new(*v)),
            MV::Str(s) => Value::String(SmolStr::new(s)),
            MV::WStr(s) => Value::WString(s.clone()),
            MV::Char(v) => Value::Char(*v),
            MV::WChar(v) => Value::WChar(*v),
            MV::Array { dims, elems } => Value::Array(ArrayValue {
                elements: elems.iter().map(|e| e.to_value()).collect(),
                dimensions: dims.clone(),
            }),
            MV::Struct { ty, fields } => {
                let mut map = indexmap::IndexMap::new();
                for (n, v) in fields {
                    map.insert(SmolStr::new(n), v.to_value());
                }
                Value::Struct(StructValue {
                    type_name: SmolStr::new(ty),
                    fields: map,
                })
            }
            MV::Enum { ty, variant, num } => Value::Enum(EnumValue {
                type_name: SmolStr::new(ty),
                variant_name: SmolStr::new(variant),
                numeric_value: *num,
            }),
            MV::Null => Value::Null,
        }
    }

    pub fn from_value(v: &Value) -> Result<MV, String> {
        Ok(match v {
            Value::Bool(v) => MV::Bool(*v),
            Value::SInt(v) => MV::SInt(*v),
            Value::Int(v) => MV::Int(*v),
            Value::DInt(v) => MV::DInt(*v),
            Value::LInt(v) => MV::LInt(*v),
            Value::USInt(v) => MV::USInt(*v),
            Value::UInt(v) => MV::UInt(*v),
            Value::UDInt(v) => MV::UDInt(*v),
            Value::ULInt(v) => MV::ULInt(*v),
            Value::Real(f) => MV::Real(f.to_bits()),
            Value::LReal(f) => MV::LReal(f.to_bits()),
            Value::Byte(v) => MV::Byte(*v),
            Value::Word(v) => MV::Word(*v),
            Value::DWord(v) => MV::DWord(*v),
            Value::LWord(v) => MV::LWord(*v),
            Value::Time(v) => MV::Time(v.as_nanos()),
            Value::LTime(v) => MV::LTime(v.as_nanos()),
            Value::Date(v) => MV::Date(v.ticks()),
            Value::LDate(v) => MV::LDate(v.nanos()),
            Value::Tod(v) => MV::Tod(v.ticks()),
            Value::LTod(v) => MV::LTod(v.nanos()),
            Value::Dt(v) => MV::Dt(v.ticks()),
            Value::Ldt(v) => MV::Ldt(v.nanos()),
            Value::String(s) => MV::Str(s.to_string()),
            Value::WString(s) => MV::WStr(s.clone()),
            Value::Char(v) => MV::Char(*v),
            Value::WChar(v) => MV::WChar(*v),
            Value::Array(a) => MV::Array {
                dims: a.dimensions.clone(),
                elems: a
                    .elements
                    .iter()
                    .map(MV::from_value)
                    .collect::<Result<Vec<_>, _>>()?,
            },
            Value::Struct(s) => MV::Struct {
                ty: s.type_name.to_string(),
                fields: s
                    .fields
                    .iter()
                    .map(|(n, v)| Ok((n.to_string(), MV::from_value(v)?)))
                    .collect::<Result<Vec<_>, String>>()?,
            },
            Value::Enum(e) => MV::Enum {
                ty: e.type_name.to_string(),
                variant: e.variant_name.to_string(),
                num: e.numeric_value,
            },
            Value::Null => MV::Null,
            Value::Reference(_) => return Err("a Reference value".into()),
            Value::Instance(_) => return Err("an Instance value".into()),
        })
    }
}

/// A snapshot: ordered (name, value) entries with unique names.
#[derive(Clone, Debug, PartialEq, Serialize, Deserialize, Default)]
pub struct MSnap {
    pub entries: Vec<(String, MV)>,
}

impl MSnap {
    pub fn to_snapshot(&self) -> RetainSnapshot {
        let mut s = RetainSnapshot::default();
        for (n, v) in &self.entries {
            s.insert(SmolStr::new(n), v.to_value());
        }
        s
    }

    pub fn from_snapshot(s: &RetainSnapshot) -> Result<MSnap, String> {
        let mut entries = Vec::new();
        for (n, v) in s.values() {
            entries.push((n.to_string(), MV::from_value(v)?));
        }
        Ok(MSnap { entries })
    }

    pub fn depth(&self) -> usize {
        self.entries
            .iter()
            .map(|(_, v)| v.depth())
            .max()
            .unwrap_or(0)
    }

    pub fn has_nested_aggregate(&self) -> bool {
        self.depth() >= 2
    }

    /// Short human description for evidence samples.
    pub fn summary(&self) -> serde_json::Value {
        let mut seen = [false; TAG_COUNT + 1];
        for (_, v) in &self.entries {
            v.tags_into(&mut seen);
        }
        let tags: Vec<usize> = (1..=TAG_COUNT).filter(|t| seen[*t]).collect();
        serde_json::json!({
            "entries": self.entries.len(),
            "depth": self.depth(),
            "tags": tags,
            "encoded_bytes": encode(self).bytes.len(),
            "names": self.entries.iter().take(4).map(|(n, _)| clip(n, 24)).collect::<Vec<_>>(),
        })
    }
}

pub fn clip(s: &str, n: usize) -> String {
    if s.len() <= n {
        return s.to_string();
    }
    let mut e = n;
    while !s.is_char_boundary(e) {
        e -= 1;
    }
    format!("{}..[{}B]", &s[..e], s.len())
}

/// Explain the first difference between two snapshots (for violation messages).
pub fn diff(expected: &MSnap, got: &MSnap) -> String {
    if expected.entries.len() != got.entries.len() {
        return format!(
            "entry count {} expected, {} loaded",
            expected.entries.len(),
            got.entries.len()
        );
    }
    for (i, ((en, ev), (gn, gv))) in expected.entries.iter().zip(got.entries.iter()).enumerate() {
        if en != gn {
            return format!(
                "entry {i}: name {:?} expected, {:?} loaded",
                clip(en, 40),
                clip(gn, 40)
            );
        }
        if ev != gv {
            return format!("entry {i} ({:?}): {}", clip(en, 40), diff_value(ev, gv));
        }
    }
    "no difference".into()
}

fn diff_value(e: &MV, g: &MV) -> String {
    if e.tag() != g.tag() {
        return format!("tag {} expected, tag {} loaded", e.tag(), g.tag());
    }
    match (e, g) {
        (
            MV::Array {
                dims: ed,
                elems: ee,
            },
            MV::Array {
                dims: gd,
                elems: ge,
            },
        ) => {
            if ed != gd {
                return format!("array dimensions {ed:?} expected, {gd:?} loaded");
            }
            if ee.len() != ge.len() {
                return format!("array length {} expected, {} loaded", ee.len(), ge.len());
            }
            for (i, (a, b)) in ee.iter().zip(ge.iter()).enumerate() {
                if a != b {
                    return format!("element {i}: {}", diff_value(a, b));
                }
            }
            "arrays equal".into()
        }
        (MV::Struct { ty: et, fields: ef }, MV::Struct { ty: gt, fields: gf }) => {
            if et != gt {
                return format!("struct type {et:?} expected, {gt:?} loaded");
            }
            if ef.len() != gf.len() {
                return format!(
                    "struct field count {} expected, {} loaded",
                    ef.len(),
                    gf.len()
                );
            }
            for (i, ((an, av), (bn, bv))) in ef.iter().zip(gf.iter()).enumerate() {
                if an != bn {
                    return format!("field {i}: name {an:?} expected, {bn:?} loaded");
                }
                if av != bv {
                    return format!("field {an:?}: {}", diff_value(av, bv));
                }
            }
            "structs equal".into()
        }
        (MV::Str(a), MV::Str(b)) | (MV::WStr(a), MV::WStr(b)) => format!(
            "string of {} bytes expected ({:?}), {} bytes loaded ({:?})",
            a.len(),
            clip(a, 30),
            b.len(),
            clip(b, 30)
        ),
        _ => format!("{e:?} expected, {g:?} loaded"),
    }
}

// ---------------------------------------------------------------------------------------
// Generator (deterministic function of a choice tape; low tape values = simple shapes)
// ---------------------------------------------------------------------------------------

pub struct GenCfg {
    pub max_entries: usize,
    pub max_depth: usize,
    pub node_budget: usize,
    pub long_strings: usize,
    pub min_entries: usize,
}

impl GenCfg {
    pub fn roundtrip(thorough: bool) -> GenCfg {
        GenCfg {
            max_entries: if thorough { 12 } else { 8 },
            max_depth: if thorough { 6 } else { 4 },
            node_budget: if thorough { 300 } else { 120 },
            long_strings: 2,
            min_entries: 0,
        }
    }
    pub fn crash() -> GenCfg {
        GenCfg {
            max_entries: 5,
            max_depth: 3,
            node_budget: 60,
            long_strings: 1,
            min_entries: 1,
        }
    }
    pub fn bytes() -> GenCfg {
        GenCfg {
            max_entries: 4,
            max_depth: 3,
            node_budget: 40,
            long_strings: 0,
            min_entries: 0,
        }
    }
}

const F32_BITS: &[u32] = &[
    0x0000_0000, // +0.0
    0x8000_0000, // -0.0
    0x3F80_0000, // 1.0
    0xBF80_0000, // -1.0
    0x7F80_0000, // +inf
    0xFF80_0000, // -inf
    0x7FC0_0000, // canonical quiet NaN
    0x7FC0_0001, // quiet NaN with payload
    0x7F80_0001, // signalling NaN
    0xFFC1_2345, // negative NaN with payload
    0x7FFF_FFFF, // all-ones NaN
    0x0000_0001, // smallest subnormal
    0x007F_FFFF, // largest subnormal
    0x0080_0000, // smallest normal
    0x7F7F_FFFF, // f32::MAX
    0xFF7F_FFFF, // f32::MIN
    0x3EAA_AAAB, // 1/3
];

const F64_BITS: &[u64] = &[
    0x0000_0000_0000_0000,
    0x8000_0000_0000_0000,
    0x3FF0_0000_0000_0000,
    0xBFF0_0000_0000_0000,
    0x7FF0_0000_0000_0000,
    0xFFF0_0000_0000_0000,
    0x7FF8_0000_0000_0000,
    0x7FF8_0000_0000_0001,
    0x7FF0_0000_0000_0001,
    0xFFF8_1234_5678_9ABC,
    0x7FFF_FFFF_FFFF_FFFF,
    0x0000_0000_0000_0001,
    0x000F_FFFF_FFFF_FFFF,
    0x0010_0000_0000_0000,
    0x7FEF_FFFF_FFFF_FFFF,
    0xFFEF_FFFF_FFFF_FFFF,
    0x3FD5_5555_5555_5555,
];

const IDENTS: &[&str] = &[
    "x",
    "g0",
    "counter",
    "Main.counter",
    "Plant.Line1.Motor.speed",
    "retain_total",
    "R",
    "fbTimer.ET",
    "aValues",
    "stConfig",
    "E_State",
    "MyNs.T_Point",
    "i",
    "Q",
    "SetPoint_01",
];

const PIECES: &[&str] = &[
    "a",
    "Z",
    "0",
    "_",
    " ",
    ".",
    "'",
    "\"",
    "$",
    "\\",
    "\n",
    "\r\n",
    "\t",
    "\u{0}",
    "\u{7f}",
    "\u{e4}",
    "\u{df}",
    "\u{4e2d}\u{6587}",
    "\u{1F600}",
    "e\u{0301}",
    "\u{feff}",
    "\u{202e}",
    "\u{ffff}",
    "\u{10ffff}",
    "STRN",
    "\u{1}\u{0}\u{0}\u{0}",
];

pub struct Gen<'a> {
    pub r: Reader<'a>,
    budget: usize,
    long_left: usize,
    max_depth: usize,
}

impl<'a> Gen<'a> {
    pub fn new(tape: &'a Tape, cfg: &GenCfg) -> Gen<'a> {
        Gen {
            r: Reader::new(tape),
            budget: cfg.node_budget,
            long_left: cfg.long_strings,
            max_depth: cfg.max_depth,
        }
    }

    fn int(&mut self, min: i128, max: i128) -> i128 {
        let v = match self.r.weighted(&[2, 1, 1, 1, 1, 1, 1, 2, 5]) {
            0 => 0,
            1 => 1,
            2 => -1,
            3 => min,
            4 => max,
            5 => min + 1,
            6 => max - 1,
            7 => {
                let k = self.r.pick(64) as u32;
                let p = 1i128 << k;
                match self.r.pick(3) {
                    0 => p,
                    1 => p - 1,
                    _ => -p,
                }
            }
            _ => {
                let span = (max - min + 1) as u128;
                let w = self.r.u64() as u128;
                min + ((w * span) >> 64) as i128
            }
        };
        v.clamp(min, max)
    }

    fn i64v(&mut self) -> i64 {
        self.int(i64::MIN as i128, i64::MAX as i128) as i64
    }

    fn f32bits(&mut self) -> u32 {
        if self.r.chance(2, 3) {
            *self.r.choose(F32_BITS)
        } else {
            self.r.word()
        }
    }

    fn f64bits(&mut self) -> u64 {
        if self.r.chance(2, 3) {
            *self.r.choose(F64_BITS)
        } else {
            self.r.u64()
        }
    }

    pub fn ident(&mut self) -> String {
        let base = *self.r.choose(IDENTS);
        if self.r.chance(1, 3) {
            format!("{base}{}", self.r.pick(100))
        } else {
            base.to_string()
        }
    }

    fn pieces(&mut self, max: usize) -> String {
        let n = 1 + self.r.pick(max);
        let mut s = String::new();
        for _ in 0..n {
            let piece: &str = *self.r.choose(PIECES);
            s.push_str(piece);
        }
        s
    }

    pub fn string(&mut self) -> String {
        match self.r.weighted(&[3, 5, 4, 2, 2, 2]) {
            0 => String::new(),
            1 => self.ident(),
            2 => self.pieces(12),
            3 => {
                // SmolStr inline/heap boundary and one-byte length boundaries
                let n = *self
                    .r
                    .choose(&[1usize, 22, 23, 24, 25, 127, 128, 255, 256, 257]);
                "a".repeat(n)
            }
            4 => {
                // multi-byte text around the same boundaries (length counted in bytes)
                let n = *self.r.choose(&[7usize, 8, 11, 12, 85, 86]);
                "\u{4e2d}".repeat(n)
            }
            _ => {
                if self.long_left == 0 {
                    return self.pieces(30);
                }
                self.long_left -= 1;
                let n = *self.r.choose(&[10_240usize, 4_096, 65_535, 65_536, 70_001]);
                let unit = self.pieces(6);
                let unit = if unit.is_empty() {
                    "x".to_string()
                } else {
                    unit
                };
                let mut s = String::with_capacity(n + unit.len());
                while s.len() < n {
                    s.push_str(&unit);
                }
                // cut back to exactly <= n on a char boundary, then pad with ASCII
                let mut e = n.min(s.len());
                while !s.is_char_boundary(e) {
                    e -= 1;
                }
                s.truncate(e);
                while s.len() < n {
                    s.push('~');
                }
                s
            }
        }
    }

    fn name(&mut self) -> String {
        match self.r.weighted(&[12, 3, 1, 1]) {
            0 => self.ident(),
            1 => self.pieces(5),
            2 => String::new(),
            _ => {
                let n = *self.r.choose(&[23usize, 24, 300]);
                "N".repeat(n)
            }
        }
    }

    fn scalar(&mut self, idx: usize) -> MV {
        match idx {
            0 => MV::Bool(self.r.flag()),
            1 => MV::SInt(self.int(i8::MIN as i128, i8::MAX as i128) as i8),
            2 => MV::Int(self.int(i16::MIN as i128, i16::MAX as i128) as i16),
            3 => MV::DInt(self.int(i32::MIN as i128, i32::MAX as i128) as i32),
            4 => MV::LInt(self.i64v()),
            5 => MV::USInt(self.int(0, u8::MAX as i128) as u8),
            6 => MV::UInt(self.int(0, u16::MAX as i128) as u16),
            7 => MV::UDInt(self.int(0, u32::MAX as i128) as u32),
            8 => MV::ULInt(self.int(0, u64::MAX as i128) as u64),
            9 => MV::Real(self.f32bits()),
            10 => MV::LReal(self.f64bits()),
            11 => MV::Byte(self.int(0, u8::MAX as i128) as u8),
            12 => MV::Word(self.int(0, u16::MAX as i128) as u16),
            13 => MV::DWord(self.int(0, u32::MAX as i128) as u32),
            14 => MV::LWord(self.int(0, u64::MAX as i128) as u64),
            15 => MV::Time(self.i64v()),
            16 => MV::LTime(self.i64v()),
            17 => MV::Date(self.i64v()),
            18 => MV::LDate(self.i64v()),
            19 => MV::Tod(self.i64v()),
            20 => MV::LTod(self.i64v()),
            21 => MV::Dt(self.i64v()),
            22 => MV::Ldt(self.i64v()),
            23 => MV::Str(self.string()),
            24 => MV::WStr(self.string()),
            25 => MV::Char(self.int(0, u8::MAX as i128) as u8),
            26 => MV::WChar(self.int(0, u16::MAX as i128) as u16),
            27 => MV::Enum {
                ty: self.ident(),
                variant: if self.r.chance(1, 8) {
                    self.string()
                } else {
                    self.ident()
                },
                num: self.i64v(),
            },
            _ => MV::Null,
        }
    }

    /// kind: 0..=28 scalar-like (see `scalar`), 29 array, 30 struct
    fn value_of_kind(&mut self, kind: usize, depth: usize) -> MV {
        if self.budget > 0 {
            self.budget -= 1;
        }
        match kind {
            29 if depth < self.max_depth && self.budget > 0 => self.array(depth),
            30 if depth < self.max_depth && self.budget > 0 => self.structure(depth),
            29 | 30 => MV::Null,
            k => self.scalar(k),
        }
    }

    fn pick_kind(&mut self, depth: usize) -> usize {
        // 29 scalar-like kinds (weight 2 each), array and struct heavier while depth allows
        let agg = if depth < self.max_depth && self.budget > 4 {
            14
        } else {
            0
        };
        let mut w = [2u32; 31];
        w[29] = agg;
        w[30] = agg;
        self.r.weighted(&w)
    }

    pub fn value(&mut self, depth: usize) -> MV {
        let k = self.pick_kind(depth);
        self.value_of_kind(k, depth)
    }

    fn lower_bound(&mut self, extent: i64) -> i64 {
        match self.r.weighted(&[4, 4, 2, 1, 1, 2]) {
            0 => 0,
            1 => 1,
            2 => -(self.r.pick(10) as i64),
            3 => i64::MIN,
            4 => i64::MAX - (extent - 1),
            _ => self.r.range_i64(-1000, 1000),
        }
    }

    fn array(&mut self, depth: usize) -> MV {
        let kind = self.pick_kind(depth + 1);
        let scalar_elems = kind < 29;
        let ndims = 1 + self.r.weighted(&[6, 3, 1]);
        let mut extents = Vec::new();
        let mut len: usize = 1;
        for d in 0..ndims {
            let e = if ndims == 1 && scalar_elems {
                *self.r.choose(&[1usize, 2, 3, 4, 8, 10, 16, 33, 100])
            } else if d == 0 {
                1 + self.r.pick(4)
            } else {
                1 + self.r.pick(3)
            };
            extents.push(e);
            len *= e;
        }
        // respect the node budget: shrink to a one-dimensional array that fits
        let room = self.budget.max(1);
        if len > room {
            len = room.min(len);
            extents = vec![len];
        }
        let dims: Vec<(i64, i64)> = extents
            .iter()
            .map(|e| {
                let lo = self.lower_bound(*e as i64);
                (lo, lo + (*e as i64 - 1))
            })
            .collect();
        let mut elems = Vec::with_capacity(len);
        for _ in 0..len {
            elems.push(self.value_of_kind(kind, depth + 1));
        }
        MV::Array { dims, elems }
    }

    fn structure(&mut self, depth: usize) -> MV {
        let ty = if self.r.chance(1, 10) {
            self.string()
        } else {
            self.ident()
        };
        let n = self.r.weighted(&[1, 3, 4, 3, 2, 1, 1]);
        let mut fields: Vec<(String, MV)> = Vec::new();
        for i in 0..n {
            let mut name = self.name();
            if fields.iter().any(|(f, _)| *f == name) {
                name = format!("{name}#{i}");
            }
            let v = self.value(depth + 1);
            fields.push((name, v));
        }
        MV::Struct { ty, fields }
    }

    pub fn snapshot(&mut self, cfg: &GenCfg) -> MSnap {
        // an exhausted tape yields one entry, not none; the empty snapshot stays a rare shape
        // (the "empty" slot sits in the middle of the range: the tape's boundary-biased words
        // 0 and u32::MAX do not select it)
        self.budget = cfg.node_budget;
        self.long_left = cfg.long_strings;
        let lo = cfg.min_entries.max(1);
        let n = if cfg.min_entries > 0 || self.r.pick(25) != 13 {
            lo + self.r.pick(cfg.max_entries - lo + 1)
        } else {
            0
        };
        let mut entries: Vec<(String, MV)> = Vec::new();
        for i in 0..n {
            let mut name = self.name();
            if entries.iter().any(|(f, _)| *f == name) {
                name = format!("{name}#{i}");
            }
            let v = self.value(0);
            entries.push((name, v));
        }
        MSnap { entries }
    }

    /// Same layout (names, tags, lengths, encoded size), different scalar contents.
    pub fn perturb(&mut self, v: &MV) -> MV {
        match v {
            MV::Bool(b) => MV::Bool(!*b),
            MV::Null => MV::Null,
            MV::Str(s) => MV::Str(rotate_ascii(s)),
            MV::WStr(s) => MV::WStr(rotate_ascii(s)),
            MV::Array { dims, elems } => MV::Array {
                dims: dims.clone(),
                elems: elems.iter().map(|e| self.perturb(e)).collect(),
            },
            MV::Struct { ty, fields } => MV::Struct {
                ty: ty.clone(),
                fields: fields
                    .iter()
                    .map(|(n, f)| (n.clone(), self.perturb(f)))
                    .collect(),
            },
            MV::Enum { ty, variant, num } => MV::Enum {
                ty: ty.clone(),
                variant: variant.clone(),
                num: num.wrapping_add(1),
            },
            other => {
                // a fresh scalar of the same tag; force a change if the draw repeats the old one
                let idx = (other.tag() - 1) as usize;
                let fresh = self.scalar(idx);
                if fresh == *other {
                    bump(other)
                } else {
                    fresh
                }
            }
        }
    }
}

fn rotate_ascii(s: &str) -> String {
    s.chars()
        .map(|c| match c {
            'a'..='y' | 'A'..='Y' | '0'..='8' => (c as u8 + 1) as char,
            'z' => 'a',
            'Z' => 'A',
            '9' => '0',
            _ => c,
        })
        .collect()
}

fn bump(v: &MV) -> MV {
    match v {
        MV::SInt(x) => MV::SInt(x.wrapping_add(1)),
        MV::Int(x) => MV::Int(x.wrapping_add(1)),
        MV::DInt(x) => MV::DInt(x.wrapping_add(1)),
        MV::LInt(x) => MV::LInt(x.wrapping_add(1)),
        MV::USInt(x) => MV::USInt(x.wrapping_add(1)),
        MV::UInt(x) => MV::UInt(x.wrapping_add(1)),
        MV::UDInt(x) => MV::UDInt(x.wrapping_add(1)),
        MV::ULInt(x) => MV::ULInt(x.wrapping_add(1)),
        MV::Real(x) => MV::Real(x.wrapping_add(1)),
        MV::LReal(x) => MV::LReal(x.wrapping_add(1)),
        MV::Byte(x) => MV::Byte(x.wrapping_add(1)),
        MV::Word(x) => MV::Word(x.wrapping_add(1)),
        MV::DWord(x) => MV::DWord(x.wrapping_add(1)),
        MV::LWord(x) => MV::LWord(x.wrapping_add(1)),
        MV::Time(x) => MV::Time(x.wrapping_add(1)),
        MV::LTime(x) => MV::LTime(x.wrapping_add(1)),
        MV::Date(x) => MV::Date(x.wrapping_add(1)),
        MV::LDate(x) => MV::LDate(x.wrapping_add(1)),
        MV::Tod(x) => MV::Tod(x.wrapping_add(1)),
        MV::LTod(x) => MV::LTod(x.wrapping_add(1)),
        MV::Dt(x) => MV::Dt(x.wrapping_add(1)),
        MV::Ldt(x) => MV::Ldt(x.wrapping_add(1)),
        MV::Char(x) => MV::Char(x.wrapping_add(1)),
        MV::WChar(x) => MV::WChar(x.wrapping_add(1)),
        other => other.clone(),
    }
}

/// One snapshot containing every tag (and the special floats), used as a fixed first case.
pub fn golden() -> MSnap {
    let scalars = vec![
        MV::Bool(true),
        MV::SInt(i8::MIN),
        MV::Int(i16::MIN),
        MV::DInt(i32::MIN),
        MV::LInt(i64::MIN),
        MV::USInt(u8::MAX),
        MV::UInt(u16::MAX),
        MV::UDInt(u32::MAX),
        MV::ULInt(u64::MAX),
        MV::Real(0x7F80_0001),
        MV::LReal(0xFFF8_1234_5678_9ABC),
        MV::Byte(0xA5),
        MV::Word(0xA55A),
        MV::DWord(0xDEAD_BEEF),
        MV::LWord(0x0123_4567_89AB_CDEF),
        MV::Time(-1),
        MV::LTime(i64::MAX),
        MV::Date(19_000),
        MV::LDate(i64::MIN),
        MV::Tod(86_399_999),
        MV::LTod(1),
        MV::Dt(1_700_000_000_000),
        MV::Ldt(-2),
        MV::Str("r\u{e4}tain '$' \u{0}".into()),
        MV::WStr("\u{4e2d}\u{6587}\u{1F600}".into()),
        MV::Char(0xFF),
        MV::WChar(0xD800),
        MV::Enum {
            ty: "E_State".into(),
            variant: "Running".into(),
            num: -7,
        },
        MV::Null,
        MV::Real(0x8000_0000),
        MV::LReal(0x8000_0000_0000_0000),
    ];
    let mut entries: Vec<(String, MV)> = scalars
        .iter()
        .enumerate()
        .map(|(i, v)| (format!("s{i}"), v.clone()))
        .collect();
    entries.push((
        "arr".into(),
        MV::Array {
            dims: vec![(-1, 0), (5, 6)],
            elems: vec![
                MV::Struct {
                    ty: "T_Point".into(),
                    fields: vec![
                        ("x".into(), MV::Real(0x7FC0_0001)),
                        (
                            "tags".into(),
                            MV::Array {
                                dims: vec![(0, 1)],
                                elems: vec![MV::Str(String::new()), MV::Str("b".repeat(24))],
                            },
                        ),
                    ],
                };
                4
            ],
        },
    ));
    entries.push((
        "empty_struct".into(),
        MV::Struct {
            ty: "T_Empty".into(),
            fields: vec![],
        },
    ));
    MSnap { entries }
}

// ---------------------------------------------------------------------------------------
// Independent STRN v1 encoder with a field table
// ---------------------------------------------------------------------------------------

#[derive(Clone, Copy, Debug, PartialEq, Eq)]
pub enum FieldKind {
    Magic,
    Version,
    Count,
    StrLen,
    Tag,
    ArrLen,
    ArrDims,
    FieldCount,
}

#[derive(Clone, Copy, Debug)]
pub struct Field {
    pub off: usize,
    pub kind: FieldKind,
}

pub struct Image {
    pub bytes: Vec<u8>,
    pub fields: Vec<Field>,
}

impl Image {
    fn mark(&mut self, kind: FieldKind) {
        self.fields.push(Field {
            off: self.bytes.len(),
            kind,
        });
    }
    fn u32(&mut self, kind: FieldKind, v: u32) {
        self.mark(kind);
        self.bytes.extend_from_slice(&v.to_le_bytes());
    }
    fn string(&mut self, s: &str) {
        self.u32(FieldKind::StrLen, s.len() as u32);
        self.bytes.extend_from_slice(s.as_bytes());
    }
    fn value(&mut self, v: &MV) {
        self.mark(FieldKind::Tag);
        self.bytes.push(v.tag());
        match v {
            MV::Bool(b) => self.bytes.push(u8::from(*b)),
            MV::SInt(x) => self.bytes.extend_from_slice(&x.to_le_bytes()),
            MV::Int(x) => self.bytes.extend_from_slice(&x.to_le_bytes()),
            MV::DInt(x) => self.bytes.extend_from_slice(&x.to_le_bytes()),
            MV::LInt(x) => self.bytes.extend_from_slice(&x.to_le_bytes()),
            MV::USInt(x) | MV::Byte(x) | MV::Char(x) => self.bytes.push(*x),
            MV::UInt(x) | MV::Word(x) | MV::WChar(x) => {
                self.bytes.extend_from_slice(&x.to_le_bytes())
            }
            MV::UDInt(x) | MV::DWord(x) | MV::Real(x) => {
                self.bytes.extend_from_slice(&x.to_le_bytes())
            }
            MV::ULInt(x) | MV::LWord(x) | MV::LReal(x) => {
                self.bytes.extend_from_slice(&x.to_le_bytes())
            }
            MV::Time(x)
            | MV::LTime(x)
            | MV::Date(x)
            | MV::LDate(x)
            | MV::Tod(x)
            | MV::LTod(x)
            | MV::Dt(x)
            | MV::Ldt(x) => self.bytes.extend_from_slice(&x.to_le_bytes()),
            MV::Str(s) | MV::WStr(s) => self.string(s),
            MV::Array { dims, elems } => {
                self.u32(FieldKind::ArrLen, elems.len() as u32);
                self.u32(FieldKind::ArrDims, dims.len() as u32);
                for (lo, hi) in dims {
                    self.bytes.extend_from_slice(&lo.to_le_bytes());
                    self.bytes.extend_from_slice(&hi.to_le_bytes());
                }
                for e in elems {
                    self.value(e);
                }
            }
            MV::Struct { ty, fields } => {
                self.string(ty);
                self.u32(FieldKind::FieldCount, fields.len() as u32);
                for (n, f) in fields {
                    self.string(n);
                    self.value(f);
                }
            }
            MV::Enum { ty, variant, num } => {
                self.string(ty);
                self.string(variant);
                self.bytes.extend_from_slice(&num.to_le_bytes());
            }
            MV::Null => {}
        }
    }
}

pub fn encode(s: &MSnap) -> Image {
    let mut img = Image {
        bytes: Vec::new(),
        fields: Vec::new(),
    };
    img.mark(FieldKind::Magic);
    img.bytes.extend_from_slice(b"STRN");
    img.mark(FieldKind::Version);
    img.bytes.extend_from_slice(&1u16.to_le_bytes());
    img.u32(FieldKind::Count, s.entries.len() as u32);
    for (n, v) in &s.entries {
        img.string(n);
        img.value(v);
    }
    img
}
