//! C10 - retain file: lossless codec and crash-atomic save.
//!
//! (a) `roundtrip`: sequences of generated snapshots over every retainable `Value` shape are
//!     stored and loaded through `FileRetainStore` in a scratch directory; the loaded
//!     snapshot must equal the stored one bitwise (floats compared as bit patterns, entry
//!     and field order included).
//! (b) `crash`: a child process (`tpv c10-writer`) stores `s_old`, arms the LD_PRELOAD shim
//!     (`shim/crashshim.c`) and stores `s_new`; the shim terminates it before / after /
//!     in the middle of file-changing libc call number K. K is enumerated from 1 until the
//!     child completes normally. After every kill the parent loads the file: the result must
//!     be `Ok(s_old)` or `Ok(s_new)`, and a following store + load must work.
//! (c) `bytes`: valid images produced by an independent STRN encoder are corrupted
//!     structure-aware (every tag/length/count field patched to boundary values, deep
//!     nesting, truncation, splicing, raw bytes) and loaded under RLIMIT_AS on an 8 MiB
//!     stack: `Ok` or `Err`, never a panic, an abort or an allocation that is not backed by
//!     the file's size; `Ok` results must survive a store + load unchanged.

use std::cell::RefCell;
use std::path::{Path, PathBuf};
use std::time::{Duration, Instant};

use proptest::prelude::*;
use serde::{Deserialize, Serialize};
use serde_json::json;
use trust_runtime::retain::{FileRetainStore, RetainStore};

use crate::engine::tape::{tape_strategy, Tape};
use crate::engine::{catch, digest64, verif_root, Probe, PropertyInfo, RunCtx};

mod model;
use model::{clip, diff, encode, FieldKind, Gen, GenCfg, MSnap, MV, TAG_COUNT};

pub fn info() -> PropertyInfo {
    PropertyInfo {
        id: "C10",
        level: "fault_enumeration",
        rule: "three searches. roundtrip: sequences of 1-3 generated snapshots (all 31 value tags, nesting <= 4 in quick / <= 6 in thorough, NaN payloads, -0.0, extremes, empty to 70 kB strings) stored+loaded through FileRetainStore; non-trivial = a snapshot with an aggregate nested in an aggregate. crash: pairs (s_old, s_new) (same-layout updates, unrelated snapshots, first-ever save); for each pair the file-changing libc calls of store(s_new) are numbered by an LD_PRELOAD shim and the writer process is terminated before call K, after call K and - for write-type calls - after a prefix of {0,1,len/2,len-1} bytes, for every K from 1 until the writer completes (exhaustive over the call sequence of that store); non-trivial = a pair with at least one kill strictly between the first and the last call (label kill=* counts single kills). bytes: valid images from an independent STRN v1 encoder, corrupted structure-aware (tag/length/count fields patched to boundary values, nesting to 400 000 levels, truncate/delete/duplicate/insert/flip, raw bytes); non-trivial = corrupted image that still passes the magic/version gate. Distinct by SHA-256 of the case.",
        assumptions: &[
            "process death, not power loss: the page cache survives the writer, so a missing fsync is not flagged",
            "the shim sees libc calls only (Rust std reaches the kernel through libc on this target; each pair first runs an un-killed writer and requires the shim's log to show the armed call sequence)",
            "crash points are libc-call boundaries plus write prefixes {0,1,len/2,len-1}; a single writer process, no concurrent second writer",
            "equality is bitwise on floats and includes entry / struct-field order (the order the IndexMaps iterate in)",
            "generated arrays are consistent (element count = product of the dimension extents); nesting depth of generated snapshots <= 4 (quick) / <= 6 (thorough)",
            "unbounded allocation = abort under RLIMIT_AS 1 GiB, or the address-space peak growing by more than 192 MiB + 256 x file size during one load",
            "stack overflow is judged against an 8 MiB stack (worker thread size = Linux main-thread default)",
        ],
        workers_quick: 8,
        workers_thorough: 16,
        address_space_limit: 1 << 30,
        watchdog_quick_s: 900,
        watchdog_thorough_s: 7200,
        run,
    }
}

// ---------------------------------------------------------------------------------------
// helper subcommand: the writer that gets killed
// ---------------------------------------------------------------------------------------

const ARM_PATH: &str = "/.crashshim/arm";
const DISARM_PATH: &str = "/.crashshim/disarm";

#[derive(Clone, Debug, Serialize, Deserialize)]
struct WriterJob {
    /// None = first-ever save (nothing stored before arming)
    old: Option<MSnap>,
    new: MSnap,
}

/// `tpv c10-writer <job.json> <retain-file>`: store old (if any) completely, arm the shim,
/// store new, disarm. Exit 0 = completed, 3 = store(old) failed, 4 = store(new) failed,
/// 5 = bad arguments. The shim ends the process with 137.
pub fn helper(args: &[String]) -> Option<i32> {
    if args.first().map(|s| s.as_str()) != Some("c10-writer") {
        return None;
    }
    let (Some(job_path), Some(store_path)) = (args.get(1), args.get(2)) else {
        eprintln!("usage: tpv c10-writer <job.json> <retain-file>");
        return Some(5);
    };
    let job: WriterJob = match std::fs::read_to_string(job_path)
        .map_err(|e| e.to_string())
        .and_then(|t| serde_json::from_str(&t).map_err(|e| e.to_string()))
    {
        Ok(j) => j,
        Err(e) => {
            eprintln!("c10-writer: cannot read job {job_path}: {e}");
            return Some(5);
        }
    };
    let store = FileRetainStore::new(store_path);
    let new = job.new.to_snapshot();
    if let Some(old) = &job.old {
        if let Err(e) = store.store(&old.to_snapshot()) {
            eprintln!("c10-writer: store(old) failed: {e}");
            return Some(3);
        }
    }
    let _ = std::fs::File::open(ARM_PATH);
    let res = store.store(&new);
    let _ = std::fs::File::open(DISARM_PATH);
    if let Err(e) = res {
        eprintln!("c10-writer: store(new) failed: {e}");
        return Some(4);
    }
    Some(0)
}

// ---------------------------------------------------------------------------------------
// shared plumbing
// ---------------------------------------------------------------------------------------

struct Env {
    scratch: PathBuf,
    shim: Option<PathBuf>,
    exe: Option<PathBuf>,
    /// infrastructure trouble observed inside a case (reported as inconclusive, never as a violation)
    infra: RefCell<Vec<String>>,
    /// distinct call sequences of store(s_new) seen by the shim
    sequences: RefCell<std::collections::BTreeSet<String>>,
    max_calls: usize,
    /// the harness's own STRN encoder produces the same bytes as `store` (checked at start);
    /// when false, unmutated images carry no expectation (the format has moved on)
    encoder_agrees: std::cell::Cell<bool>,
    /// samples offered so far per search (the evidence keeps the first few per worker;
    /// rationing them keeps all three searches visible)
    samples: RefCell<std::collections::BTreeMap<&'static str, u32>>,
}

impl Env {
    fn infra(&self, msg: String) {
        let mut v = self.infra.borrow_mut();
        if v.len() < 8 && !v.contains(&msg) {
            v.push(msg);
        }
    }

    fn may_sample(&self, search: &'static str, limit: u32) -> bool {
        let mut m = self.samples.borrow_mut();
        let n = m.entry(search).or_insert(0);
        *n += 1;
        *n <= limit
    }

    fn fresh_dir(&self, name: &str) -> Result<PathBuf, String> {
        let dir = self.scratch.join(name);
        let _ = std::fs::remove_dir_all(&dir);
        std::fs::create_dir_all(&dir)
            .map_err(|e| format!("cannot create {}: {e}", dir.display()))?;
        Ok(dir)
    }
}

fn load_model(store: &FileRetainStore) -> Result<Result<MSnap, String>, String> {
    // outer Err = panic, inner Err = load returned Err(_)
    let res = catch(|| store.load())?;
    Ok(match res {
        Ok(s) => match MSnap::from_snapshot(&s) {
            Ok(m) => Ok(m),
            Err(what) => return Err(format!("load returned a snapshot containing {what}")),
        },
        Err(e) => Err(e.to_string()),
    })
}

/// Can a plain file of `len` bytes be written next to `path`? Used to tell a refusing
/// codec from a full disk.
fn fs_is_healthy(path: &Path, len: usize) -> bool {
    let probe = path.with_extension("fsprobe");
    let ok = std::fs::write(&probe, vec![0u8; len.max(1)]).is_ok();
    let _ = std::fs::remove_file(&probe);
    ok
}

fn vm_peak_kb() -> Option<u64> {
    let text = std::fs::read_to_string("/proc/self/status").ok()?;
    for line in text.lines() {
        if let Some(rest) = line.strip_prefix("VmPeak:") {
            return rest.trim().trim_end_matches("kB").trim().parse().ok();
        }
    }
    None
}

// ---------------------------------------------------------------------------------------
// (a) round trip
// ---------------------------------------------------------------------------------------

#[derive(Clone, Debug, Serialize, Deserialize)]
pub struct RoundTripCase {
    pub snaps: Vec<MSnap>,
}

fn roundtrip_from_tape(t: &Tape, thorough: bool) -> RoundTripCase {
    let cfg = GenCfg::roundtrip(thorough);
    let mut g = Gen::new(t, &cfg);
    let n = 1 + g.r.weighted(&[5, 2, 1]);
    let mut snaps = Vec::new();
    for _ in 0..n {
        snaps.push(g.snapshot(&cfg));
    }
    RoundTripCase { snaps }
}

fn label_snapshot(s: &MSnap, probe: &mut Probe) {
    let mut seen = [false; TAG_COUNT + 1];
    for (_, v) in &s.entries {
        v.tags_into(&mut seen);
    }
    for (t, on) in seen.iter().enumerate() {
        if *on {
            probe.label(format!("rt_tag={t:02}"));
        }
    }
    probe.label(format!("rt_depth={}", s.depth()));
    if s.entries.is_empty() {
        probe.label("rt_empty_snapshot");
    }
    if s.entries.iter().any(|(_, v)| v.has_special_float()) {
        probe.label("rt_nan_or_negzero");
    }
    let longest = s
        .entries
        .iter()
        .map(|(_, v)| v.max_string_len())
        .max()
        .unwrap_or(0);
    if longest >= 4096 {
        probe.label("rt_long_string");
    }
}

fn check_roundtrip(env: &Env, case: &RoundTripCase, probe: &mut Probe) -> Result<(), String> {
    let dir = match env.fresh_dir("rt") {
        Ok(d) => d,
        Err(e) => {
            env.infra(e);
            return Ok(());
        }
    };
    let path = dir.join("retain.bin");
    let store = FileRetainStore::new(&path);
    for (i, snap) in case.snaps.iter().enumerate() {
        label_snapshot(snap, probe);
        let rs = snap.to_snapshot();
        match catch(|| store.store(&rs)) {
            Err(p) => return Err(format!("store of snapshot {i} panicked: {p}")),
            Ok(Err(e)) => {
                if !fs_is_healthy(&path, encode(snap).bytes.len()) {
                    env.infra(format!("scratch directory not writable: {e}"));
                    return Ok(());
                }
                return Err(format!(
                    "store refused retainable snapshot {i} ({} entries, depth {}): {e}",
                    snap.entries.len(),
                    snap.depth()
                ));
            }
            Ok(Ok(())) => {}
        }
        match load_model(&store) {
            Err(p) => return Err(format!("load after store of snapshot {i}: {p}")),
            Ok(Err(e)) => {
                return Err(format!(
                    "load after store of snapshot {i} returned Err: {e}"
                ))
            }
            Ok(Ok(got)) => {
                if got != *snap {
                    return Err(format!(
                        "snapshot {i} read back changed: {}",
                        diff(snap, &got)
                    ));
                }
            }
        }
    }
    probe.label(format!("rt_stores={}", case.snaps.len()));
    if case.snaps.iter().any(|s| s.has_nested_aggregate()) {
        probe.nontrivial(&serde_json::to_vec(case).unwrap_or_default());
        if env.may_sample("roundtrip", 1) {
            probe.sample(json!({
                "search": "roundtrip",
                "snapshots": case.snaps.iter().map(|s| s.summary()).collect::<Vec<_>>(),
            }));
        }
    }
    let _ = std::fs::remove_dir_all(&dir);
    Ok(())
}

// ---------------------------------------------------------------------------------------
// (b) crash points
// ---------------------------------------------------------------------------------------

#[derive(Clone, Debug, Serialize, Deserialize)]
pub struct CrashCase {
    /// None = first-ever save: the directory is empty when store(new) starts
    pub old: Option<MSnap>,
    pub new: MSnap,
    /// true: the scratch directory is wiped after every kill; false: leftovers of earlier
    /// kills stay in place for the following ones
    pub wipe: bool,
}

fn crash_from_tape(t: &Tape) -> CrashCase {
    let cfg = GenCfg::crash();
    let mut g = Gen::new(t, &cfg);
    let relation = g.r.weighted(&[5, 4, 2]);
    let wipe = g.r.chance(1, 2);
    let mut old = g.snapshot(&cfg);
    if old.entries.is_empty() {
        old.entries.push(("x".into(), MV::Int(1)));
    }
    match relation {
        0 => {
            // same layout, new contents: what a running PLC saves cycle after cycle
            let mut new = MSnap {
                entries: old
                    .entries
                    .iter()
                    .map(|(n, v)| (n.clone(), g.perturb(v)))
                    .collect(),
            };
            if new == old {
                new.entries.push(("changed".into(), MV::Bool(true)));
            }
            CrashCase {
                old: Some(old),
                new,
                wipe,
            }
        }
        1 => {
            let mut new = g.snapshot(&cfg);
            if new.entries.is_empty() || new == old {
                new.entries.push(("changed".into(), MV::Bool(true)));
            }
            CrashCase {
                old: Some(old),
                new,
                wipe,
            }
        }
        _ => CrashCase {
            old: None,
            new: old,
            wipe,
        },
    }
}

#[derive(Debug)]
enum ChildEnd {
    Completed,
    Killed,
    Other(String),
}

#[derive(Clone, Debug)]
struct Call {
    name: String,
    len: usize,
}

struct ShimLog {
    armed: bool,
    done: Option<usize>,
    calls: Vec<Call>,
}

fn read_shim_log(path: &Path) -> ShimLog {
    let text = std::fs::read_to_string(path).unwrap_or_default();
    let mut log = ShimLog {
        armed: false,
        done: None,
        calls: Vec::new(),
    };
    for line in text.lines() {
        let mut it = line.split(' ');
        match it.next() {
            Some("ARMED") => log.armed = true,
            Some("DONE") => log.done = it.next().and_then(|n| n.parse().ok()),
            Some("KILL") => {}
            Some(n) if n.parse::<usize>().is_ok() => {
                let name = it.next().unwrap_or("?").to_string();
                let _fd = it.next();
                let len = it
                    .next()
                    .and_then(|l| l.parse::<i64>().ok())
                    .unwrap_or(0)
                    .max(0) as usize;
                log.calls.push(Call { name, len });
            }
            _ => {}
        }
    }
    log
}

fn is_write_type(name: &str) -> bool {
    matches!(name, "write" | "pwrite" | "writev" | "pwritev")
}

#[allow(clippy::too_many_arguments)]
fn run_writer(
    env: &Env,
    job: &Path,
    file: &Path,
    log: &Path,
    k: usize,
    mode: &str,
    p: usize,
) -> Result<ChildEnd, String> {
    let (Some(exe), Some(shim)) = (&env.exe, &env.shim) else {
        return Err("no executable / shim".into());
    };
    let _ = std::fs::remove_file(log);
    let mut child = std::process::Command::new(exe)
        .arg("c10-writer")
        .arg(job)
        .arg(file)
        .env("LD_PRELOAD", shim)
        .env("CRASHSHIM_K", k.to_string())
        .env("CRASHSHIM_MODE", mode)
        .env("CRASHSHIM_P", p.to_string())
        .env("CRASHSHIM_LOG", log)
        .stdin(std::process::Stdio::null())
        .stdout(std::process::Stdio::null())
        .stderr(std::process::Stdio::piped())
        .spawn()
        .map_err(|e| format!("cannot spawn the writer: {e}"))?;
    let started = Instant::now();
    let status = loop {
        match child.try_wait() {
            Ok(Some(s)) => break s,
            Ok(None) => {
                if started.elapsed() > Duration::from_secs(60) {
                    let _ = child.kill();
                    let _ = child.wait();
                    return Err("writer process did not finish within 60 s (killed)".into());
                }
                std::thread::sleep(Duration::from_micros(300));
            }
            Err(e) => {
                let _ = child.kill();
                let _ = child.wait();
                return Err(format!("waiting for the writer failed: {e}"));
            }
        }
    };
    let mut stderr = String::new();
    if let Some(mut e) = child.stderr.take() {
        use std::io::Read;
        let _ = e.read_to_string(&mut stderr);
    }
    use std::os::unix::process::ExitStatusExt;
    Ok(match (status.code(), status.signal()) {
        (Some(0), _) => ChildEnd::Completed,
        (Some(137), _) => ChildEnd::Killed,
        (Some(c), _) => ChildEnd::Other(format!("exit code {c}: {}", clip(stderr.trim(), 300))),
        (None, Some(s)) => ChildEnd::Other(format!("signal {s}: {}", clip(stderr.trim(), 300))),
        (None, None) => ChildEnd::Other("unknown exit".into()),
    })
}

fn list_dir(dir: &Path) -> Vec<String> {
    let mut v: Vec<String> = std::fs::read_dir(dir)
        .map(|rd| {
            rd.flatten()
                .map(|e| {
                    let len = e.metadata().map(|m| m.len()).unwrap_or(0);
                    format!("{}({len}B)", e.file_name().to_string_lossy())
                })
                .collect()
        })
        .unwrap_or_default();
    v.sort();
    v
}

/// The oracle after one kill. `calls` = the shim's log of the killed run.
fn judge_after_kill(
    env: &Env,
    case: &CrashCase,
    dir: &Path,
    file: &Path,
    what: &str,
    calls: &[Call],
    probe: &mut Probe,
) -> Result<(), String> {
    let store = FileRetainStore::new(file);
    let seq = || {
        calls
            .iter()
            .map(|c| c.name.as_str())
            .collect::<Vec<_>>()
            .join(",")
    };
    let ctx = |msg: String| {
        format!(
            "writer killed {what}: {msg}; calls of store(new) so far: [{}]; directory: {:?}",
            seq(),
            list_dir(dir)
        )
    };
    let empty = MSnap::default();
    let old = case.old.as_ref().unwrap_or(&empty);
    let leftovers = std::fs::read_dir(dir)
        .map(|rd| rd.flatten().filter(|e| e.path() != file).count())
        .unwrap_or(0);
    if leftovers > 0 {
        probe.label("after_kill_other_files_in_dir");
    }
    match load_model(&store) {
        Err(p) => return Err(ctx(format!("next load: {p}"))),
        Ok(Err(e)) => {
            return Err(ctx(format!(
                "next load returned an error ({e}) instead of the old or the new snapshot"
            )))
        }
        Ok(Ok(got)) => {
            if got == *old {
                probe.label("after_kill=old");
            } else if got == case.new {
                probe.label("after_kill=new");
            } else if got.entries.is_empty() {
                return Err(ctx(
                    "next load returned an empty snapshot (neither the old nor the new one)".into(),
                ));
            } else {
                return Err(ctx(format!(
                    "next load returned neither the old nor the new snapshot (vs old: {}; vs new: {})",
                    diff(old, &got),
                    diff(&case.new, &got)
                )));
            }
        }
    }
    // a following save must work on whatever the kill left behind
    match catch(|| store.store(&case.new.to_snapshot())) {
        Err(p) => return Err(ctx(format!("following store panicked: {p}"))),
        Ok(Err(e)) => {
            if !fs_is_healthy(file, 64) {
                env.infra(format!("scratch directory not writable: {e}"));
                return Ok(());
            }
            return Err(ctx(format!("following store failed: {e}")));
        }
        Ok(Ok(())) => {}
    }
    match load_model(&store) {
        Err(p) => Err(ctx(format!("load after the following store: {p}"))),
        Ok(Err(e)) => Err(ctx(format!(
            "load after the following store returned an error: {e}"
        ))),
        Ok(Ok(got)) if got != case.new => Err(ctx(format!(
            "load after the following store differs from what was stored: {}",
            diff(&case.new, &got)
        ))),
        Ok(Ok(_)) => Ok(()),
    }
}

fn check_crash(env: &Env, case: &CrashCase, probe: &mut Probe) -> Result<(), String> {
    if env.shim.is_none() || env.exe.is_none() {
        env.infra("crashshim.so not built (expected at $TPV_ROOT/out/crashshim.so; ./check builds it from shim/crashshim.c) - crash enumeration skipped".into());
        return Ok(());
    }
    let infra = |e: String| {
        env.infra(e);
        Ok(())
    };
    let dir = match env.fresh_dir("crash") {
        Ok(d) => d,
        Err(e) => return infra(e),
    };
    let work = match env.fresh_dir("crash-job") {
        Ok(d) => d,
        Err(e) => return infra(e),
    };
    let file = dir.join("retain.bin");
    let job = work.join("job.json");
    let log = work.join("shim.log");
    let job_text = serde_json::to_vec(&WriterJob {
        old: case.old.clone(),
        new: case.new.clone(),
    })
    .unwrap_or_default();
    if let Err(e) = std::fs::write(&job, job_text) {
        return infra(format!("cannot write the writer job: {e}"));
    }
    probe.label(match (&case.old, case.wipe) {
        (None, _) => "crash_pair=first_save",
        (Some(o), _) if encode(o).bytes.len() == encode(&case.new).bytes.len() => {
            "crash_pair=same_size"
        }
        (Some(o), _) if encode(o).bytes.len() > encode(&case.new).bytes.len() => {
            "crash_pair=shrinking"
        }
        _ => "crash_pair=growing",
    });
    probe.label(if case.wipe || case.old.is_none() {
        "crash_dir=wiped_per_kill"
    } else {
        "crash_dir=leftovers_kept"
    });

    // 0. un-killed run: the writer must complete, the shim must have seen the calls,
    //    and the new snapshot must be what a load returns.
    match run_writer(env, &job, &file, &log, 0, "before", 0) {
        Err(e) => return infra(e),
        Ok(ChildEnd::Completed) => {}
        Ok(ChildEnd::Killed) => {
            return infra("shim killed the writer although no kill was requested".into())
        }
        Ok(ChildEnd::Other(how)) => {
            if !fs_is_healthy(&file, 64) {
                return infra(format!(
                    "writer failed and the scratch directory is not writable: {how}"
                ));
            }
            return Err(format!("un-killed writer process failed: {how}"));
        }
    }
    let base = read_shim_log(&log);
    let total = match (base.armed, base.done) {
        (true, Some(n)) if n >= 1 && n == base.calls.len() => n,
        _ => {
            return infra(format!(
                "shim did not observe the writer (armed={}, done={:?}, calls={}); LD_PRELOAD not effective?",
                base.armed,
                base.done,
                base.calls.len()
            ))
        }
    };
    let sequence = base
        .calls
        .iter()
        .map(|c| c.name.as_str())
        .collect::<Vec<_>>()
        .join(",");
    env.sequences.borrow_mut().insert(sequence.clone());
    match load_model(&FileRetainStore::new(&file)) {
        Ok(Ok(got)) if got == case.new => {}
        Ok(Ok(got)) => {
            return Err(format!(
                "after an un-killed store the load differs: {}",
                diff(&case.new, &got)
            ))
        }
        Ok(Err(e)) => {
            return Err(format!(
                "after an un-killed store the load returned an error: {e}"
            ))
        }
        Err(p) => return Err(format!("after an un-killed store: {p}")),
    }

    // 1. enumerate K = 1, 2, ... until the writer completes
    let wipe = case.wipe || case.old.is_none();
    let mut kills = 0usize;
    let mut interior = false;
    let mut k = 1usize;
    loop {
        if k > env.max_calls {
            env.infra(format!(
                "store(new) makes more than {} file-changing calls; enumeration truncated",
                env.max_calls
            ));
            break;
        }
        let mut variants: Vec<(&str, usize)> = vec![("before", 0), ("after", 0)];
        let mut vi = 0;
        let mut completed = false;
        while vi < variants.len() {
            let (mode, p) = variants[vi];
            if wipe || kills == 0 {
                let _ = std::fs::remove_dir_all(&dir);
                if let Err(e) = std::fs::create_dir_all(&dir) {
                    return infra(format!("cannot recreate scratch directory: {e}"));
                }
            }
            let end = match run_writer(env, &job, &file, &log, k, mode, p) {
                Ok(e) => e,
                Err(e) => return infra(e),
            };
            let killed_log = read_shim_log(&log);
            match end {
                ChildEnd::Completed => {
                    if vi == 0 {
                        completed = true;
                        break;
                    }
                    probe.label("crash_nondeterministic_call_count");
                }
                ChildEnd::Other(how) => {
                    if !fs_is_healthy(&file, 64) {
                        return infra(format!(
                            "writer failed and the scratch directory is not writable: {how}"
                        ));
                    }
                    return Err(format!(
                        "writer process failed on its own while storing (kill point {mode} call {k}): {how}; directory: {:?}",
                        list_dir(&dir)
                    ));
                }
                ChildEnd::Killed => {
                    let call = killed_log.calls.get(k - 1).cloned().unwrap_or(Call {
                        name: "?".into(),
                        len: 0,
                    });
                    if vi == 0 && is_write_type(&call.name) && call.len > 0 {
                        let mut ps = vec![0usize, 1, call.len / 2, call.len - 1];
                        ps.retain(|p| *p < call.len);
                        ps.dedup();
                        for p in ps {
                            variants.push(("partial", p));
                        }
                    }
                    kills += 1;
                    probe.label(format!("kill={mode}:{}", call.name));
                    // strictly between the first and the last call of this store
                    let is_interior = match mode {
                        "before" => k > 1,
                        "after" => k < total,
                        _ => true,
                    };
                    interior |= is_interior;
                    let what = match mode {
                        "partial" => format!(
                            "after {p} of {} bytes of call {k} ({}) of store(new)",
                            call.len, call.name
                        ),
                        m => format!("{m} call {k} ({}) of store(new)", call.name),
                    };
                    judge_after_kill(env, case, &dir, &file, &what, &killed_log.calls, probe)?;
                }
            }
            vi += 1;
        }
        if completed {
            break;
        }
        k += 1;
    }
    probe.label(format!("crash_calls_per_store={:02}", total));
    if k.saturating_sub(1) != total {
        probe.label("crash_call_count_differs_from_unkilled_run");
    }
    if interior {
        probe.nontrivial(&serde_json::to_vec(case).unwrap_or_default());
        probe.sample(json!({
            "search": "crash",
            "old": case.old.as_ref().map(|s| s.summary()),
            "new": case.new.summary(),
            "leftovers_kept": !case.wipe,
            "calls_of_store_new": sequence,
            "kills": kills,
        }));
    }
    let _ = std::fs::remove_dir_all(&dir);
    let _ = std::fs::remove_dir_all(&work);
    Ok(())
}

// ---------------------------------------------------------------------------------------
// (c) arbitrary bytes
// ---------------------------------------------------------------------------------------

#[derive(Clone, Debug, Serialize, Deserialize)]
pub enum Mutn {
    /// overwrite one tag / length / count / header field with a boundary value
    Patch {
        field: u32,
        how: u8,
    },
    /// wrap a value in `DEPTHS[depth]` one-element arrays (kind 0) or one-field structs (kind 1)
    Nest {
        at: u32,
        kind: u8,
        depth: u8,
    },
    Truncate {
        at: u32,
    },
    Delete {
        at: u32,
        len: u16,
    },
    Dup {
        from: u32,
        len: u16,
        at: u32,
    },
    SetByte {
        at: u32,
        val: u8,
    },
    Flip {
        at: u32,
        bit: u8,
    },
    Insert {
        at: u32,
        bytes: Vec<u8>,
    },
    /// replace everything after the 6-byte header (keep_header) or the whole image
    Raw {
        bytes: Vec<u8>,
        keep_header: bool,
    },
}

const DEPTHS: &[usize] = &[
    1, 2, 16, 100, 127, 128, 129, 1_000, 10_000, 100_000, 400_000,
];

#[derive(Clone, Debug, Serialize, Deserialize)]
pub struct BytesCase {
    pub snap: MSnap,
    pub muts: Vec<Mutn>,
}

fn scale(sel: u32, n: usize) -> usize {
    if n == 0 {
        return 0;
    }
    ((sel as u64 * n as u64) >> 32) as usize
}

pub fn build_image(case: &BytesCase) -> Vec<u8> {
    let img = encode(&case.snap);
    let mut bytes = img.bytes.clone();
    // 1. in-place patches on the original field table
    for m in &case.muts {
        if let Mutn::Patch { field, how } = m {
            let f = img.fields[scale(*field, img.fields.len())];
            match f.kind {
                FieldKind::Magic => {
                    let i = f.off + (*how as usize % 4);
                    bytes[i] ^= 0x20;
                }
                FieldKind::Version => {
                    let v: u16 = [0, 2, 0xFFFF, 0x0100, 1][*how as usize % 5];
                    bytes[f.off..f.off + 2].copy_from_slice(&v.to_le_bytes());
                }
                FieldKind::Tag => {
                    let v: u8 = match *how % 8 {
                        0 => 0,
                        1 => 32,
                        2 => 255,
                        3 => 28,
                        4 => 29,
                        _ => 1 + (*how / 8) % 31,
                    };
                    bytes[f.off] = v;
                }
                _ => {
                    let orig = u32::from_le_bytes(bytes[f.off..f.off + 4].try_into().unwrap());
                    let rem = (img.bytes.len() - f.off - 4) as u32;
                    let v: u32 = match *how % 14 {
                        0 => 0,
                        1 => 1,
                        2 => orig.wrapping_sub(1),
                        3 => orig.wrapping_add(1),
                        4 => 0x7FFF_FFFF,
                        5 => 0xFFFF_FFFF,
                        6 => 0x0040_0000,
                        7 => 0x0100_0000,
                        8 => rem,
                        9 => rem.wrapping_add(1),
                        10 => orig.wrapping_mul(2),
                        11 => 0x8000_0000,
                        12 => 0x0001_0000,
                        _ => rem / 2,
                    };
                    bytes[f.off..f.off + 4].copy_from_slice(&v.to_le_bytes());
                }
            }
        }
    }
    // 2. at most one nesting wrapper, inserted in front of a value tag
    if let Some(Mutn::Nest { at, kind, depth }) =
        case.muts.iter().find(|m| matches!(m, Mutn::Nest { .. }))
    {
        let tags: Vec<usize> = img
            .fields
            .iter()
            .filter(|f| f.kind == FieldKind::Tag)
            .map(|f| f.off)
            .collect();
        let levels = DEPTHS[*depth as usize % DEPTHS.len()];
        let unit: &[u8] = if kind % 2 == 0 {
            // Array, 1 element, 0 dimensions
            &[28, 1, 0, 0, 0, 0, 0, 0, 0]
        } else {
            // Struct, type name "", 1 field named ""
            &[29, 0, 0, 0, 0, 1, 0, 0, 0, 0, 0, 0, 0]
        };
        let mut wrapper = Vec::with_capacity(unit.len() * levels);
        for _ in 0..levels {
            wrapper.extend_from_slice(unit);
        }
        if tags.is_empty() {
            // empty snapshot: make it one entry named "" holding the wrapper around Null
            bytes.truncate(6);
            bytes.extend_from_slice(&1u32.to_le_bytes());
            bytes.extend_from_slice(&0u32.to_le_bytes());
            bytes.extend_from_slice(&wrapper);
            bytes.push(31);
        } else {
            let off = tags[scale(*at, tags.len())];
            bytes.splice(off..off, wrapper);
        }
    }
    // 3. byte-level edits, in order
    for m in &case.muts {
        match m {
            Mutn::Patch { .. } | Mutn::Nest { .. } => {}
            Mutn::Truncate { at } => {
                let n = scale(*at, bytes.len() + 1);
                bytes.truncate(n);
            }
            Mutn::Delete { at, len } => {
                let s = scale(*at, bytes.len() + 1);
                let e = (s + *len as usize).min(bytes.len());
                bytes.drain(s..e);
            }
            Mutn::Dup { from, len, at } => {
                let s = scale(*from, bytes.len() + 1);
                let e = (s + *len as usize).min(bytes.len());
                let chunk = bytes[s..e].to_vec();
                let a = scale(*at, bytes.len() + 1);
                bytes.splice(a..a, chunk);
            }
            Mutn::SetByte { at, val } => {
                if !bytes.is_empty() {
                    let i = scale(*at, bytes.len());
                    bytes[i] = *val;
                }
            }
            Mutn::Flip { at, bit } => {
                if !bytes.is_empty() {
                    let i = scale(*at, bytes.len());
                    bytes[i] ^= 1 << (bit % 8);
                }
            }
            Mutn::Insert { at, bytes: ins } => {
                let a = scale(*at, bytes.len() + 1);
                bytes.splice(a..a, ins.iter().copied());
            }
            Mutn::Raw {
                bytes: raw,
                keep_header,
            } => {
                if *keep_header {
                    bytes.truncate(6);
                    bytes.extend_from_slice(raw);
                } else {
                    bytes = raw.clone();
                }
            }
        }
    }
    bytes
}

fn mutn_strategy() -> impl Strategy<Value = Mutn> {
    let small_bytes = proptest::collection::vec(any::<u8>(), 0..24);
    // raw tails biased towards plausible structure: small tags, small little-endian lengths
    let plausible = proptest::collection::vec(
        prop_oneof![
            4 => 0u8..34,
            3 => Just(0u8),
            1 => any::<u8>(),
            1 => Just(0xFFu8),
        ],
        0..64,
    );
    prop_oneof![
        10 => (any::<u32>(), any::<u8>()).prop_map(|(field, how)| Mutn::Patch { field, how }),
        2 => (any::<u32>(), any::<u8>(), 0u8..(DEPTHS.len() as u8)).prop_map(|(at, kind, depth)| Mutn::Nest { at, kind, depth }),
        3 => any::<u32>().prop_map(|at| Mutn::Truncate { at }),
        2 => (any::<u32>(), 1u16..40).prop_map(|(at, len)| Mutn::Delete { at, len }),
        2 => (any::<u32>(), 1u16..80, any::<u32>()).prop_map(|(from, len, at)| Mutn::Dup { from, len, at }),
        2 => (any::<u32>(), prop_oneof![any::<u8>(), 0u8..34, Just(0xFFu8)]).prop_map(|(at, val)| Mutn::SetByte { at, val }),
        2 => (any::<u32>(), 0u8..8).prop_map(|(at, bit)| Mutn::Flip { at, bit }),
        1 => (any::<u32>(), small_bytes).prop_map(|(at, bytes)| Mutn::Insert { at, bytes }),
        2 => (plausible, prop_oneof![4 => Just(true), 1 => Just(false)]).prop_map(|(bytes, keep_header)| Mutn::Raw { bytes, keep_header }),
    ]
}

fn bytes_strategy() -> impl Strategy<Value = BytesCase> {
    (
        tape_strategy(90).prop_map(|t| {
            let cfg = GenCfg::bytes();
            let mut g = Gen::new(&t, &cfg);
            // prefer snapshots that contain arrays/structs: those carry the counts
            g.snapshot(&cfg)
        }),
        prop_oneof![
            1 => Just(Vec::new()),
            19 => proptest::collection::vec(mutn_strategy(), 1..5),
        ],
    )
        .prop_map(|(snap, muts)| BytesCase { snap, muts })
}

fn err_class(msg: &str) -> String {
    let m: String = msg
        .chars()
        .map(|c| if c.is_ascii_digit() { '#' } else { c })
        .collect();
    let m = m.replace("retain store error ", "");
    clip(&m, 48)
}

fn check_bytes(env: &Env, case: &BytesCase, probe: &mut Probe) -> Result<(), String> {
    let dir = match env.fresh_dir("bytes") {
        Ok(d) => d,
        Err(e) => {
            env.infra(e);
            return Ok(());
        }
    };
    let path = dir.join("retain.bin");
    let image = build_image(case);
    if let Err(e) = std::fs::write(&path, &image) {
        env.infra(format!("cannot write the scratch image: {e}"));
        return Ok(());
    }
    for m in &case.muts {
        probe.label(match m {
            Mutn::Patch { .. } => "mut=patch_field",
            Mutn::Nest { .. } => "mut=nest",
            Mutn::Truncate { .. } => "mut=truncate",
            Mutn::Delete { .. } => "mut=delete",
            Mutn::Dup { .. } => "mut=duplicate",
            Mutn::SetByte { .. } => "mut=set_byte",
            Mutn::Flip { .. } => "mut=flip_bit",
            Mutn::Insert { .. } => "mut=insert",
            Mutn::Raw { .. } => "mut=raw",
        });
    }
    if case.muts.is_empty() {
        probe.label("mut=none");
    }
    let gate = image.len() >= 6 && &image[..4] == b"STRN" && image[4..6] == [1, 0];
    probe.label(if gate { "gate=passed" } else { "gate=rejected" });
    let store = FileRetainStore::new(&path);
    let peak_before = vm_peak_kb();
    let first = load_model(&store);
    let peak_after = vm_peak_kb();
    let describe = || {
        format!(
            "image of {} bytes (hex prefix {})",
            image.len(),
            image
                .iter()
                .take(48)
                .map(|b| format!("{b:02x}"))
                .collect::<String>()
        )
    };
    let first = match first {
        Err(p) => {
            return Err(format!(
                "load of arbitrary bytes did not return: {p}; {}",
                describe()
            ))
        }
        Ok(r) => r,
    };
    if let (Some(b), Some(a)) = (peak_before, peak_after) {
        let grown_kb = a.saturating_sub(b);
        let allowed_kb = 192 * 1024 + (image.len() as u64 * 256) / 1024;
        if grown_kb > allowed_kb {
            return Err(format!(
                "load grew the address-space peak by {} MiB for an {}",
                grown_kb / 1024,
                describe()
            ));
        }
    }
    let load_summary = match &first {
        Err(e) => format!("Err({e})"),
        Ok(m) => format!("Ok({} entries)", m.entries.len()),
    };
    match first {
        Err(e) => {
            probe.label(format!("load=err:{}", err_class(&e)));
            if case.muts.is_empty() && env.encoder_agrees.get() {
                return Err(format!("a valid image was rejected: {e}; {}", describe()));
            }
        }
        Ok(m1) => {
            probe.label("load=ok");
            if case.muts.is_empty() && env.encoder_agrees.get() && m1 != case.snap {
                return Err(format!(
                    "valid image decoded to a different snapshot: {}",
                    diff(&case.snap, &m1)
                ));
            }
            // Ok => storing what was loaded and loading again is stable
            let rs = m1.to_snapshot();
            match catch(|| store.store(&rs)) {
                Err(p) => {
                    return Err(format!(
                        "re-store of a loaded snapshot panicked: {p}; {}",
                        describe()
                    ))
                }
                Ok(Err(e)) => {
                    if !fs_is_healthy(&path, 64) {
                        env.infra(format!("scratch directory not writable: {e}"));
                        return Ok(());
                    }
                    return Err(format!(
                        "load accepted the file but the loaded snapshot cannot be stored again: {e}; {}",
                        describe()
                    ));
                }
                Ok(Ok(())) => {}
            }
            match load_model(&store) {
                Err(p) => return Err(format!("re-load: {p}; {}", describe())),
                Ok(Err(e)) => {
                    return Err(format!(
                        "re-load of a re-stored snapshot returned an error: {e}; {}",
                        describe()
                    ))
                }
                Ok(Ok(m2)) => {
                    if m2 != m1 {
                        return Err(format!(
                            "re-store/re-load is not stable: {}; {}",
                            diff(&m1, &m2),
                            describe()
                        ));
                    }
                }
            }
        }
    }
    if gate && !case.muts.is_empty() {
        probe.nontrivial(&image);
        if env.may_sample("bytes", 1) {
            probe.sample(json!({
                "search": "bytes",
                "mutations": case.muts.iter().map(|m| clip(&format!("{m:?}"), 80)).collect::<Vec<_>>(),
                "image_bytes": image.len(),
                "image_hex_prefix": image.iter().take(40).map(|b| format!("{b:02x}")).collect::<String>(),
                "load": load_summary,
            }));
        }
    }
    let _ = std::fs::remove_dir_all(&dir);
    Ok(())
}

// ---------------------------------------------------------------------------------------

fn run(ctx: &mut RunCtx) {
    let tier = ctx.tier;
    let thorough = tier == crate::engine::Tier::Thorough;
    let scratch = ctx
        .out_dir
        .join(format!("scratch-w{}-{}", ctx.worker, std::process::id()));
    let shim = verif_root().join("out").join("crashshim.so");
    let env = Env {
        scratch: scratch.clone(),
        shim: if shim.is_file() { Some(shim) } else { None },
        exe: std::env::current_exe().ok(),
        infra: RefCell::new(Vec::new()),
        sequences: RefCell::new(Default::default()),
        max_calls: 400,
        encoder_agrees: std::cell::Cell::new(true),
        samples: RefCell::new(Default::default()),
    };
    if let Err(e) = std::fs::create_dir_all(&scratch) {
        ctx.inconclusive(format!(
            "cannot create scratch directory {}: {e}",
            scratch.display()
        ));
        return;
    }

    // sanity of the independent encoder against the real one (a note, never a verdict)
    {
        let g = model::golden();
        if let Ok(dir) = env.fresh_dir("sanity") {
            let p = dir.join("retain.bin");
            if FileRetainStore::new(&p).store(&g.to_snapshot()).is_ok() {
                let same = std::fs::read(&p)
                    .map(|b| b == encode(&g).bytes)
                    .unwrap_or(false);
                if !same {
                    env.encoder_agrees.set(false);
                    ctx.note("the harness's own STRN v1 encoder no longer produces the same bytes as FileRetainStore::store: the corrupted images of search `bytes` are less structure-aware than intended");
                }
            }
            let _ = std::fs::remove_dir_all(&dir);
        }
    }

    // (a) round trip
    if ctx.worker == 0 && ctx.only_replay.is_none() {
        let case = RoundTripCase {
            snaps: vec![model::golden(), MSnap::default(), model::golden()],
        };
        let j = serde_json::to_value(&case).unwrap();
        ctx.enumerated("roundtrip", &j, |p| check_roundtrip(&env, &case, p));
    }
    ctx.search(
        "roundtrip",
        tape_strategy(if thorough { 1500 } else { 700 })
            .prop_map(move |t| roundtrip_from_tape(&t, thorough)),
        tier.pick(8_000, 200_000),
        |c: &RoundTripCase, p| check_roundtrip(&env, c, p),
    );

    // (c) arbitrary bytes (before the crash enumeration: cheap, and a dying worker is
    // attributed to the journalled case)
    ctx.search(
        "bytes",
        bytes_strategy(),
        tier.pick(32_000, 2_000_000),
        |c: &BytesCase, p| check_bytes(&env, c, p),
    );

    // (b) crash points
    ctx.search(
        "crash",
        tape_strategy(160).prop_map(|t| crash_from_tape(&t)),
        tier.pick(160, 3_000),
        |c: &CrashCase, p| check_crash(&env, c, p),
    );

    for s in env.sequences.borrow().iter() {
        ctx.note(format!(
            "file-changing libc calls of one store(new), as numbered by the shim: {s}"
        ));
    }
    let infra: Vec<String> = env.infra.borrow().clone();
    for msg in infra {
        if ctx.only_replay.is_some() {
            eprintln!("INCONCLUSIVE: {msg}");
        }
        ctx.inconclusive(msg);
    }
    let _ = std::fs::remove_dir_all(&scratch);
    let _ = digest64;
}
