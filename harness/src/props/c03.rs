//! C03 - a variable always holds a value of its declared type.
//!
//! Cases = `stgen` program (strict dial in the "clean" search, implicit dial in the "implicit"
//! search) + the extension unit of `c03/ext.rs` + a history of direct input-image writes,
//! debugger writes (with the value the control request handlers `set` / `var.force` /
//! `io.write` construct), cycles and warm/cold restarts. Oracle: after compilation, after
//! EVERY cycle and after every restart the whole storage is walked (`c03/decl.rs`) against the
//! declared types known to the GENERATOR: value variant, subrange bounds, enum variants, string
//! lengths, array dimensions, struct shapes, FB instance types.
//!
//! Open finding F8 (a write stores the value with the tag of the expression) is classified,
//! never waved through: a foreign tag is only accepted at a location where the F8 model
//! (`c03/taint.rs`, exact signatures in `c03/ext.rs`) predicts exactly that tag through a named
//! write path, only after a cycle (never after compilation or a restart, where every value
//! comes from the initialiser path), and is reported with `probe.known`.

use std::collections::{BTreeMap, BTreeSet};
use std::sync::atomic::{AtomicU64, Ordering};
use std::sync::Mutex;

use proptest::prelude::*;
use proptest::strategy::ValueTree;
use serde::{Deserialize, Serialize};
use serde_json::json;

use trust_runtime::io::IoAddress;
use trust_runtime::memory::InstanceId;
use trust_runtime::value::Value;
use trust_runtime::RestartMode;

use crate::engine::tape::{tape_strategy, Reader, Tape};
use crate::engine::{catch, Probe, PropertyInfo, RunCtx};
use crate::stgen::ast::*;
use crate::stgen::print::{print_program, PrintOpts};
use crate::stgen::rt::Real;
use crate::stgen::{generate, GenConfig};

#[path = "c03/decl.rs"]
mod decl;
#[path = "c03/ext.rs"]
mod ext;
#[path = "c03/handmade.rs"]
mod handmade;
#[path = "c03/taint.rs"]
mod taint;

use decl::{DTy, Layout, LocKey, VarSpec, What};
use ext::{Allowed, Open};

pub fn info() -> PropertyInfo {
    PropertyInfo {
        id: "C03",
        level: "exploration",
        rule: "cases = stgen program (search 'clean': strict dial; search 'implicit': implicit dial with untyped literals, widening assignments, mixed-width operands) + generated extension PROGRAM XExt (AT-bound %I/%Q/%M variables of every I/O-capable type incl. subrange/alias/array/struct/FB-member/global bindings, untyped-literal initialisers of every elementary type, FOR loops over every integer type and over subrange/alias control variables with bounds of other types, FUNCTION/FB calls with VAR_INPUT/VAR_OUTPUT/VAR_IN_OUT of ten numeric types, subrange/alias/enum/STRING[n]/struct/array variables, RETAIN variables) x history of 1-6 steps (direct input-image writes with boundary bit patterns, debugger set/force/unforce with the value the control handlers construct, cycle, warm/cold restart); the storage-wide invariant is checked after compilation, after every cycle and after every restart; non-trivial = compiled, >= 1 cycle completed without fault, >= 10 storage leaves walked and >= 2 different write-path kinds exercised (initialiser, I/O latch of a written image value, FOR control, parameter binding, derived-type assignment, retain, restart, debugger write, implicit conversion); distinct by SHA-256 of (source, events)",
        assumptions: &[
            "declared types come from the generator (stgen AST / extension unit), never from the runtime's metadata; aliases are resolved by the generator",
            "FOR control variables are walked like every other variable: the type tag and the range of the type are asserted after every cycle (also when the only write was the initial assignment: zero-trip loop, EXIT/RETURN in the first iteration); only the VALUE left after the loop is implementer-specific and not compared",
            "VAR_IN_OUT parameters, VAR_TEMP and FUNCTION locals have no storage at a cycle boundary and are not walked; REAL/LREAL values latched from the input image may be any bit pattern (NaN/inf are not range violations)",
            "debugger writes replicate control.rs parse_value (TRUE/FALSE -> BOOL, integer text -> LINT) and go through DebugControl::enqueue_global_write / force_global / force_instance / enqueue_io_write exactly as handle_set / handle_var_force / handle_io_write do",
            "while finding F8 is open a foreign tag is accepted only at a location, with the tag and through the write path that the F8 model predicts for the generated program (static closure, superset: context-insensitive per POU type, array elements collapsed), only after a cycle; after compilation and after a restart (non-RETAIN) nothing is accepted",
        ],
        workers_quick: 8,
        workers_thorough: 16,
        address_space_limit: 0,
        watchdog_quick_s: 2400,
        watchdog_thorough_s: 14400,
        run,
    }
}

#[derive(Clone, Debug, PartialEq, Serialize, Deserialize)]
pub enum Event {
    /// Write into the input image (`TestHarness::set_direct_input`), or queue it through the
    /// debugger (`io.write`, BOOL addresses only: the handler cannot build other values).
    Io {
        addr: String,
        size: char,
        raw: u64,
        via_debug: bool,
    },
    /// Debugger write as a user issues it: op = set | force | unforce, `text` = typed value.
    Dbg {
        op: String,
        path: Vec<String>,
        var: String,
        text: String,
    },
    Cycle {
        writes: Vec<InputWrite>,
        dt_ns: i64,
    },
    Restart {
        warm: bool,
    },
}

#[derive(Clone, Debug, Serialize, Deserialize)]
pub struct Case {
    #[serde(default)]
    pub prog_tape: Option<Tape>,
    #[serde(default)]
    pub trace_tape: Option<Tape>,
    #[serde(default)]
    pub ext_tape: Option<Tape>,
    #[serde(default)]
    pub ev_tape: Option<Tape>,
    #[serde(default)]
    pub std_tape: Option<Tape>,
    #[serde(default)]
    pub print_bits: u8,
    /// "clean" | "implicit" | "handmade"
    pub mode: String,
    pub source: String,
    pub layout: Layout,
    #[serde(default)]
    pub allowed: Vec<Allowed>,
    pub events: Vec<Event>,
    /// The stgen part (needed to apply enum-typed input writes).
    #[serde(default)]
    pub program: Option<Program>,
    #[serde(default)]
    pub excluded: Vec<String>,
    #[serde(default)]
    pub labels: Vec<String>,
}

static OPEN: Mutex<Option<Open>> = Mutex::new(None);

fn open_now() -> Open {
    OPEN.lock().unwrap().unwrap_or(Open {
        f8_assign: true,
        f8_arg: true,
        f8_out: true,
        f8_dbg: true,
        derived_init: true,
        enum_at: true,
        str_len: true,
        f25: true,
    })
}

fn opts_of(bits: u8) -> PrintOpts {
    PrintOpts {
        full_parens: bits & 1 != 0,
        ampersand: bits & 2 != 0,
    }
}

fn finding_of_kind(kind: &str) -> &'static str {
    match kind {
        "fb-input-binding" | "argument-binding" | "parameter-default" | "in-out-binding" => {
            ext::K_ARG
        }
        "output-binding" => ext::K_OUT,
        "debugger-write" => ext::K_DBG,
        _ => ext::K_ASSIGN,
    }
}

fn raw_value(r: &mut Reader, size: char, range: Option<(i64, i64)>, picks: &[i64]) -> u64 {
    let bits = match size {
        'X' => 1,
        'B' => 8,
        'W' => 16,
        'D' => 32,
        _ => 64,
    };
    let mask = if bits == 64 {
        u64::MAX
    } else {
        (1u64 << bits) - 1
    };
    if !picks.is_empty() {
        return (picks[r.pick(picks.len())] as u64) & mask;
    }
    if let Some((lo, hi)) = range {
        let v = r.range_i64(lo, hi);
        return (v as u64) & mask;
    }
    let sign = 1u64 << (bits - 1);
    match r.weighted(&[2, 2, 2, 2, 1, 4]) {
        0 => 0,
        1 => 1,
        2 => mask,
        3 => sign & mask,
        4 => sign.wrapping_sub(1) & mask,
        _ => r.u64() & mask,
    }
}

/// Build a complete case from the tapes.
pub fn materialize(
    prog_tape: Tape,
    trace_tape: Tape,
    ext_tape: Tape,
    ev_tape: Tape,
    std_tape: Tape,
    print_bits: u8,
    mode: &str,
) -> Case {
    let implicit = mode == "implicit";
    let open = open_now();
    let cfg = if implicit {
        // Untyped literals as arguments of standard functions (`USINT_TO_INT(253)`,
        // `SEL(FALSE, 0, 1)` assigned to an unsigned variable, `ABS(0.46)` to a REAL) are
        // rejected by the checker (E203/E205: the literal is typed without context), so the
        // implicit dial runs without conversions and SEL/MIN/MAX/ABS.
        let mut c = GenConfig::implicit_core();
        c.features.conversions = false;
        c.features.std_functions = false;
        c
    } else {
        GenConfig::strict_core()
    };
    let g = generate(&prog_tape, &trace_tape, &cfg);
    let printed = print_program(&g.program, opts_of(print_bits)).source;
    let mut r = Reader::new(&ext_tape);
    let has_conf = g.program.uses_configuration();
    let own_globals = has_conf || r.chance(1, 2);
    let mut rs = Reader::new(&std_tape);
    let x = ext::generate(&mut r, &mut rs, implicit, open, own_globals);

    // ---- source text
    let mut source = String::new();
    source.push_str(&x.types);
    source.push('\n');
    let gblock = if x.globals_text.is_empty() {
        String::new()
    } else {
        let mut s = String::from("  VAR_GLOBAL\n");
        for l in &x.globals_text {
            s.push_str(&format!("    {l}\n"));
        }
        s.push_str("  END_VAR\n");
        s
    };
    let cblock = if x.config_text.is_empty() {
        String::new()
    } else {
        let mut s = String::from("  VAR_CONFIG\n");
        for l in &x.config_text {
            s.push_str(&format!("    {l}\n"));
        }
        s.push_str("  END_VAR\n");
        s
    };
    if has_conf {
        let marker = "CONFIGURATION Conf\n";
        let at = printed.find(marker).unwrap_or(printed.len());
        let (head, tail) = printed.split_at(at);
        source.push_str(head);
        source.push_str(&x.pous);
        source.push('\n');
        let tail = tail.replacen(marker, &format!("{marker}{gblock}"), 1);
        let tail = tail.replacen(
            "END_CONFIGURATION",
            &format!("  PROGRAM XExt : XExt;\n{cblock}END_CONFIGURATION"),
            1,
        );
        source.push_str(&tail);
    } else {
        source.push_str(&printed);
        source.push_str(&x.pous);
        source.push('\n');
        if own_globals {
            source.push_str("CONFIGURATION XConf\n");
            source.push_str(&gblock);
            source.push_str("  PROGRAM Main : Main;\n  PROGRAM XExt : XExt;\n");
            source.push_str(&cblock);
            source.push_str("END_CONFIGURATION\n");
        }
    }

    // ---- layout
    let mut layout = decl::layout_of(&g.program);
    layout.globals.extend(x.globals.iter().cloned());
    layout.instances.push(("XExt".into(), "XExt".into()));
    for (n, v) in &x.pou_vars {
        layout.pous.insert(n.clone(), v.clone());
    }

    // ---- debugger targets
    let mut targets = x.dbg.clone();
    if let Some(m) = g.program.pou("Main") {
        for v in &m.vars {
            if v.kind == VarKind::Local && v.role == Role::Data && !v.constant {
                if let Ty::Elem(e) = &v.ty {
                    if e.is_num() || *e == Elem::Bool {
                        targets.push(ext::DbgTarget {
                            path: vec!["Main".into()],
                            var: v.name.clone(),
                            key: ("Main".into(), v.name.clone(), String::new()),
                            ty: DTy::Elem(*e),
                            sink: false,
                        });
                    }
                }
            }
        }
    }
    for gv in &g.program.globals {
        if let Ty::Elem(e) = &gv.ty {
            if e.is_num() || *e == Elem::Bool {
                targets.push(ext::DbgTarget {
                    path: vec![],
                    var: gv.name.clone(),
                    key: (String::new(), gv.name.clone(), String::new()),
                    ty: DTy::Elem(*e),
                    sink: false,
                });
            }
        }
    }
    let clean_target = |t: &ext::DbgTarget| {
        matches!(t.ty, DTy::Elem(Elem::LInt) | DTy::Elem(Elem::Bool))
    };
    let mut excluded = x.excluded.clone();
    for (what, n) in &g.excluded {
        for _ in 0..(*n).min(2) {
            excluded.push(what.clone());
        }
    }
    if !(implicit && open.f8_dbg) {
        targets.retain(|t| clean_target(t));
        if open.f8_dbg {
            excluded.push(format!(
                "{} (clean mode: debugger writes only to LINT and BOOL variables)",
                ext::K_DBG
            ));
        }
    }

    // ---- events (own tape: the history does not depend on how much the unit consumed)
    let mut r = Reader::new(&ev_tape);
    let mut events = Vec::new();
    let mut allowed = x.allowed.clone();
    let mut seeds: Vec<(LocKey, String)> = Vec::new();
    let mut forced: Vec<(Vec<String>, String)> = Vec::new();
    let n_steps = 1 + r.pick(6);
    for k in 0..n_steps {
        if !x.inputs.is_empty() {
            for _ in 0..r.weighted(&[2, 3, 2, 1]) {
                let i = &x.inputs[r.pick(x.inputs.len())];
                let raw = raw_value(&mut r, i.size, i.range, &i.picks);
                let via_debug = i.size == 'X' && r.chance(1, 4);
                events.push(Event::Io {
                    addr: i.addr.clone(),
                    size: i.size,
                    raw,
                    via_debug,
                });
            }
        }
        if !targets.is_empty() {
            let op = r.weighted(&[6, 2, 3, 1]);
            if op == 3 {
                if !forced.is_empty() {
                    let (p, v) = forced.remove(r.pick(forced.len()));
                    events.push(Event::Dbg {
                        op: "unforce".into(),
                        path: p,
                        var: v,
                        text: String::new(),
                    });
                }
            } else if op > 0 {
                let cands: Vec<&ext::DbgTarget> = if op == 1 {
                    // the `set` request only takes global:<name>
                    targets.iter().filter(|t| t.path.is_empty()).collect()
                } else {
                    targets.iter().collect()
                };
                if !cands.is_empty() {
                    let t = cands[r.pick(cands.len())].clone();
                    let text = if matches!(t.ty, DTy::Elem(Elem::Bool)) {
                        if r.flag() { "TRUE" } else { "FALSE" }.to_string()
                    } else {
                        const NUMS: [i64; 12] = [
                            0,
                            1,
                            5,
                            -1,
                            100,
                            127,
                            255,
                            300,
                            70000,
                            -32768,
                            1 << 40,
                            i64::MAX,
                        ];
                        NUMS[r.pick(NUMS.len())].to_string()
                    };
                    if !clean_target(&t) {
                        if t.sink {
                            allowed.push(Allowed {
                                key: t.key.clone(),
                                tag: "LINT".into(),
                                finding: ext::K_DBG.into(),
                                retain: false,
                            });
                        } else {
                            seeds.push((t.key.clone(), "LINT".into()));
                        }
                    }
                    if op == 2 {
                        forced.push((t.path.clone(), t.var.clone()));
                    }
                    events.push(Event::Dbg {
                        op: if op == 1 { "set" } else { "force" }.into(),
                        path: t.path.clone(),
                        var: t.var.clone(),
                        text,
                    });
                }
            }
        }
        let (writes, dt_ns) = match g.trace.get(k) {
            Some(c) => (c.writes.clone(), c.dt_ns),
            None => (vec![], 1_000_000),
        };
        events.push(Event::Cycle { writes, dt_ns });
        match r.weighted(&[7, 2, 2]) {
            1 => events.push(Event::Restart { warm: true }),
            2 => events.push(Event::Restart { warm: false }),
            _ => {}
        }
    }

    // ---- F8 closure of the stgen part (implicit dial and/or seeded by debugger writes)
    if implicit || !seeds.is_empty() {
        let extras = taint::closure(&g.program, &seeds);
        for (key, m) in extras {
            for (tag, kind) in m {
                let finding = finding_of_kind(&kind);
                let is_open = match finding {
                    ext::K_ARG => open.f8_arg,
                    ext::K_OUT => open.f8_out,
                    ext::K_DBG => open.f8_dbg,
                    _ => open.f8_assign,
                };
                if is_open {
                    allowed.push(Allowed {
                        key: key.clone(),
                        tag,
                        finding: finding.into(),
                        retain: false,
                    });
                }
            }
        }
    }

    let mut labels = x.labels.clone();
    labels.push(format!("conf={}", if has_conf { "stgen" } else if own_globals { "own" } else { "none" }));
    Case {
        prog_tape: Some(prog_tape),
        trace_tape: Some(trace_tape),
        ext_tape: Some(ext_tape),
        ev_tape: Some(ev_tape),
        std_tape: Some(std_tape),
        print_bits,
        mode: mode.to_string(),
        source,
        layout,
        allowed,
        events,
        program: Some(g.program),
        excluded,
        labels,
    }
}

static REJECTED: AtomicU64 = AtomicU64::new(0);
static RAN: AtomicU64 = AtomicU64::new(0);
static PANICS: Mutex<Vec<String>> = Mutex::new(Vec::new());
static REJECT_SAMPLES: Mutex<Vec<String>> = Mutex::new(Vec::new());

/// The value `control.rs::parse_value` builds from the text a user typed.
fn parse_value_like_control(text: &str) -> Option<Value> {
    let upper = text.trim().to_ascii_uppercase();
    if upper == "TRUE" {
        return Some(Value::Bool(true));
    }
    if upper == "FALSE" {
        return Some(Value::Bool(false));
    }
    upper.parse::<i64>().ok().map(Value::LInt)
}

fn resolve_instance(real: &Real, path: &[String]) -> Option<InstanceId> {
    let storage = real.harness.runtime().storage();
    let mut it = path.iter();
    let first = it.next()?;
    let Some(Value::Instance(mut id)) = storage.get_global(first.as_str()).cloned() else {
        return None;
    };
    for seg in it {
        match storage.get_instance_var(id, seg.as_str()) {
            Some(Value::Instance(n)) => id = *n,
            _ => return None,
        }
    }
    Some(id)
}

fn events_text(events: &[Event]) -> String {
    let mut s = String::new();
    for (i, e) in events.iter().enumerate() {
        let line = match e {
            Event::Io {
                addr,
                raw,
                via_debug,
                ..
            } => format!(
                "input image {addr} := {raw:#x}{}",
                if *via_debug { " (io.write)" } else { "" }
            ),
            Event::Dbg {
                op,
                path,
                var,
                text,
            } => format!(
                "debugger {op} {}{var} {text}",
                if path.is_empty() {
                    "global:".to_string()
                } else {
                    format!("{}.", path.join("."))
                }
            ),
            Event::Cycle { writes, dt_ns } => format!(
                "cycle (dt {dt_ns} ns, {} variable write(s): {})",
                writes.len(),
                writes
                    .iter()
                    .map(|w| format!("{}.{}:={}", w.instance, w.var, w.value.show()))
                    .collect::<Vec<_>>()
                    .join(", ")
            ),
            Event::Restart { warm } => {
                format!("restart {}", if *warm { "warm" } else { "cold" })
            }
        };
        s.push_str(&format!("  [{i}] {line}\n"));
    }
    s
}

#[derive(Clone, Copy, PartialEq)]
enum Phase {
    /// After compilation / after a cold restart: every value comes from an initialiser.
    Strict,
    /// After a warm restart: only RETAIN locations may still carry what they had.
    Warm,
    /// After a cycle.
    Cycle,
}

struct Outcome {
    leaves: usize,
    known: BTreeSet<String>,
    labels: Vec<String>,
}

fn check_storage(
    real: &Real,
    case: &Case,
    allowed: &BTreeMap<(LocKey, String), (String, bool)>,
    phase: Phase,
    at: &str,
    out: &mut Outcome,
) -> Result<(), String> {
    let (mism, leaves) = decl::walk(real.harness.runtime().storage(), &case.layout);
    out.leaves = out.leaves.max(leaves);
    let mut bad = Vec::new();
    for m in mism {
        if m.what == What::Tag {
            if let Some((finding, retain)) = allowed.get(&(m.key.clone(), m.stored.clone())) {
                let ok = match phase {
                    Phase::Cycle => true,
                    Phase::Warm => *retain,
                    Phase::Strict => false,
                };
                if ok {
                    out.known.insert(finding.clone());
                    out.labels
                        .push(format!("known:{}:{}<-{}", finding, m.want, m.stored));
                    continue;
                }
            }
        }
        bad.push(m);
    }
    if bad.is_empty() {
        return Ok(());
    }
    let n = bad.len();
    let lines: Vec<String> = bad.iter().take(8).map(|m| m.show()).collect();
    Err(format!(
        "{at}: {n} storage location(s) violate the declared type\n  {}\n--- events\n{}--- source\n{}",
        lines.join("\n  "),
        events_text(&case.events),
        case.source
    ))
}

fn check_case(case: &Case, probe: &mut Probe) -> Result<(), String> {
    for e in &case.excluded {
        probe.excluded(e.clone());
    }
    probe.label(format!("mode={}", case.mode));
    let mut real = match catch(|| Real::compile(&case.source)) {
        Ok(Ok(r)) => r,
        Ok(Err(e)) => {
            REJECTED.fetch_add(1, Ordering::Relaxed);
            let first: String = e
                .lines()
                .next()
                .unwrap_or("")
                .split(" (at ")
                .next()
                .unwrap_or("")
                .chars()
                .take(80)
                .collect();
            probe.label(format!("rejected:{first}"));
            let mut s = REJECT_SAMPLES.lock().unwrap();
            if s.len() < 3 {
                s.push(format!("{e}\n{}", case.source));
            }
            if let Ok(dir) = std::env::var("C03_DEBUG_DIR") {
                let name = format!(
                    "{dir}/rej-{:016x}.st",
                    crate::engine::digest64(case.source.as_bytes())
                );
                let _ = std::fs::write(name, format!("(* {e} *)\n{}", case.source));
            }
            return Ok(());
        }
        Err(p) => {
            PANICS.lock().unwrap().push(format!("compiler: {p}"));
            probe.label("compiler_panic");
            return Ok(());
        }
    };
    RAN.fetch_add(1, Ordering::Relaxed);
    let mut allowed: BTreeMap<(LocKey, String), (String, bool)> = BTreeMap::new();
    for a in &case.allowed {
        allowed
            .entry((a.key.clone(), a.tag.clone()))
            .or_insert((a.finding.clone(), a.retain));
    }
    let empty_prog = Program {
        types: vec![],
        pous: vec![],
        globals: vec![],
        instances: vec![],
    };
    let prog = case.program.as_ref().unwrap_or(&empty_prog);
    let mut out = Outcome {
        leaves: 0,
        known: BTreeSet::new(),
        labels: Vec::new(),
    };
    let mut kinds: BTreeSet<&'static str> = BTreeSet::new();
    for l in &case.labels {
        probe.label(l.clone());
        if l.starts_with("init:") {
            kinds.insert("initialiser");
        } else if l.starts_with("for-first-write:") {
            kinds.insert("for-first-write");
        } else if l.starts_with("std-functions") {
            kinds.insert("std-function");
        } else if l.starts_with("decl-sites") {
            kinds.insert("declaration-sites");
        } else if l.starts_with("for:") {
            kinds.insert("for");
        } else if l.starts_with("params:") {
            kinds.insert("parameter");
        } else if l.starts_with("derived") {
            kinds.insert("derived");
        } else if l.starts_with("retain") {
            kinds.insert("retain");
        } else if l.starts_with("f8:") {
            kinds.insert("implicit");
        }
    }
    if case.mode == "implicit" {
        kinds.insert("implicit");
    }
    let debug = real.harness.runtime_mut().enable_debug();
    check_storage(
        &real,
        case,
        &allowed,
        Phase::Strict,
        "after compilation (before the first cycle)",
        &mut out,
    )?;
    let mut good_cycles = 0u32;
    let mut cycles = 0u32;
    let mut io_written = false;
    for (i, ev) in case.events.iter().enumerate() {
        match ev {
            Event::Io {
                addr,
                size,
                raw,
                via_debug,
            } => {
                let value = match size {
                    'X' => Value::Bool(*raw & 1 == 1),
                    'B' => Value::Byte(*raw as u8),
                    'W' => Value::Word(*raw as u16),
                    'D' => Value::DWord(*raw as u32),
                    _ => Value::LWord(*raw),
                };
                if *via_debug {
                    if let Ok(a) = IoAddress::parse(addr) {
                        debug.enqueue_io_write(a, value);
                    }
                } else {
                    real.harness
                        .set_direct_input(addr, value)
                        .map_err(|e| format!("infrastructure: cannot write {addr}: {e:?}"))?;
                }
                io_written = true;
            }
            Event::Dbg {
                op,
                path,
                var,
                text,
            } => {
                kinds.insert("debugger");
                probe.label(format!("dbg:{op}"));
                if op == "unforce" {
                    if path.is_empty() {
                        debug.release_global(var);
                    } else if let Some(id) = resolve_instance(&real, path) {
                        debug.release_instance(id, var);
                    }
                    continue;
                }
                let Some(value) = parse_value_like_control(text) else {
                    continue;
                };
                match (op.as_str(), path.is_empty()) {
                    ("set", true) => debug.enqueue_global_write(var.as_str(), value),
                    ("force", true) => debug.force_global(var.as_str(), value),
                    ("force", false) => {
                        if let Some(id) = resolve_instance(&real, path) {
                            debug.force_instance(id, var.as_str(), value);
                        }
                    }
                    _ => {}
                }
            }
            Event::Cycle { writes, dt_ns } => {
                let input = CycleInput {
                    writes: writes.clone(),
                    dt_ns: *dt_ns,
                };
                real.apply(prog, &input)
                    .map_err(|e| format!("infrastructure: cannot apply inputs: {e}"))?;
                cycles += 1;
                match catch(|| real.cycle(5_000)) {
                    Ok(None) => {
                        good_cycles += 1;
                        if io_written {
                            kinds.insert("io-latch");
                        }
                    }
                    Ok(Some(f)) => {
                        let name = match f {
                            crate::stgen::rt::RealFault::Kind(k) => k.name().to_string(),
                            crate::stgen::rt::RealFault::Other(o) => {
                                o.chars().take(40).collect::<String>()
                            }
                        };
                        probe.label(format!("fault={name}"));
                    }
                    Err(p) => {
                        PANICS.lock().unwrap().push(format!("cycle: {p}"));
                        probe.label("runtime_panic");
                    }
                }
                check_storage(
                    &real,
                    case,
                    &allowed,
                    Phase::Cycle,
                    &format!("after event [{i}] (cycle {cycles})"),
                    &mut out,
                )?;
            }
            Event::Restart { warm } => {
                kinds.insert("restart");
                probe.label(if *warm { "restart:warm" } else { "restart:cold" });
                let mode = if *warm {
                    RestartMode::Warm
                } else {
                    RestartMode::Cold
                };
                match catch(|| real.harness.restart(mode)) {
                    Ok(Ok(())) => {}
                    Ok(Err(e)) => {
                        probe.label(format!("restart_error:{e:?}"));
                    }
                    Err(p) => {
                        PANICS.lock().unwrap().push(format!("restart: {p}"));
                        probe.label("runtime_panic");
                    }
                }
                check_storage(
                    &real,
                    case,
                    &allowed,
                    if *warm { Phase::Warm } else { Phase::Strict },
                    &format!(
                        "after event [{i}] (restart {})",
                        if *warm { "warm" } else { "cold" }
                    ),
                    &mut out,
                )?;
            }
        }
    }
    for l in &out.labels {
        probe.label(l.clone());
    }
    for k in &out.known {
        probe.known(k.clone());
    }
    probe.label(format!("cycles={cycles}"));
    probe.label(format!("leaves={}", (out.leaves / 25) * 25));
    for k in &kinds {
        probe.label(format!("path:{k}"));
    }
    if good_cycles >= 1 && out.leaves >= 10 && kinds.len() >= 2 {
        let mut key = case.source.as_bytes().to_vec();
        key.extend_from_slice(
            serde_json::to_string(&case.events)
                .unwrap_or_default()
                .as_bytes(),
        );
        probe.nontrivial(&key);
        if out.leaves > 40 {
            probe.sample(json!({
                "mode": case.mode,
                "source": case.source,
                "events": events_text(&case.events),
                "leaves_walked": out.leaves,
                "known_findings_observed": out.known,
            }));
        }
    }
    Ok(())
}

pub fn case_strategy(mode: &'static str) -> impl Strategy<Value = Case> {
    (
        tape_strategy(700),
        tape_strategy(60),
        tape_strategy(300),
        tape_strategy(90),
        tape_strategy(640),
        0u8..8,
    )
        .prop_map(move |(p, t, x, ev, sd, bits)| {
            let print_bits = match bits {
                0 => 1,
                1 => 2,
                2 => 3,
                _ => 0,
            };
            materialize(p, t, x, ev, sd, print_bits, mode)
        })
}

/// Helper subcommands (child processes of this check); None = not mine.
pub fn helper(args: &[String]) -> Option<i32> {
    match args.first().map(|s| s.as_str()) {
        Some("c03-probe") => {
            // tpv c03-probe <file.st> [cycles] [addr=raw ...]: run a source, dump storage tags
            let path = args.get(1)?;
            let cycles: usize = args.get(2).and_then(|s| s.parse().ok()).unwrap_or(1);
            let src = std::fs::read_to_string(path).ok()?;
            match Real::compile(&src) {
                Err(e) => {
                    println!("COMPILE ERROR: {e}");
                    Some(1)
                }
                Ok(mut real) => {
                    for w in args.iter().skip(3) {
                        if let Some((a, v)) = w.split_once('=') {
                            let raw: u64 = v.parse().unwrap_or(0);
                            let val = match a.as_bytes().get(2) {
                                Some(b'X') => Value::Bool(raw & 1 == 1),
                                Some(b'B') => Value::Byte(raw as u8),
                                Some(b'W') => Value::Word(raw as u16),
                                Some(b'D') => Value::DWord(raw as u32),
                                _ => Value::LWord(raw),
                            };
                            println!("write {a} {val:?}: {:?}", real.harness.set_direct_input(a, val.clone()));
                        }
                    }
                    let dump = |real: &Real| {
                        let st = real.harness.runtime().storage();
                        for (n, v) in st.globals() {
                            match v {
                                Value::Instance(id) => {
                                    if let Some(inst) = st.get_instance(*id) {
                                        for (vn, vv) in &inst.variables {
                                            println!("   {n}.{vn} = {vv:?}");
                                        }
                                    }
                                }
                                other => println!("   G.{n} = {other:?}"),
                            }
                        }
                    };
                    println!("t0:");
                    dump(&real);
                    for c in 0..cycles {
                        let f = catch(|| real.cycle(2000));
                        println!("cycle {c}: fault={f:?}");
                        dump(&real);
                    }
                    Some(0)
                }
            }
        }
        Some("c03-gen") => {
            // tpv c03-gen <seed> [n] [clean|implicit]
            let seed: u64 = args.get(1).and_then(|s| s.parse().ok()).unwrap_or(1);
            let n: usize = args.get(2).and_then(|s| s.parse().ok()).unwrap_or(1);
            let mode: &'static str = if args.get(3).map(|s| s.as_str()) == Some("implicit") {
                "implicit"
            } else {
                "clean"
            };
            let quiet = args.get(4).map(|s| s.as_str()) == Some("quiet");
            let mut runner = proptest::test_runner::TestRunner::new_with_rng(
                proptest::test_runner::Config::default(),
                proptest::test_runner::TestRng::from_seed(
                    proptest::test_runner::RngAlgorithm::ChaCha,
                    &{
                        let mut s = [0u8; 32];
                        s[..8].copy_from_slice(&seed.to_le_bytes());
                        s
                    },
                ),
            );
            let strat = case_strategy(mode);
            let mut fails = 0;
            for _ in 0..n {
                let c = strat.new_tree(&mut runner).ok()?.current();
                let mut probe = Probe::default();
                let res = check_case(&c, &mut probe);
                if !quiet {
                    println!("{}", c.source);
                    println!("(* events\n{}*)", events_text(&c.events));
                    println!("(* allowed {:?} *)", c.allowed);
                }
                match res {
                    Ok(()) => {
                        if !quiet {
                            println!("(* verdict: ok; labels {:?} *)", probe.labels)
                        } else if probe.labels.iter().any(|l| l.starts_with("rejected")) {
                            println!("REJECTED {:?}", probe.labels.iter().find(|l| l.starts_with("rejected")));
                        }
                    }
                    Err(e) => {
                        fails += 1;
                        println!(
                            "(* verdict: FAIL {} *)",
                            e.lines().take(12).collect::<Vec<_>>().join("\n")
                        )
                    }
                }
            }
            for s in REJECT_SAMPLES.lock().unwrap().iter() {
                println!("(* REJECT SAMPLE: {} *)", s.lines().take(200).collect::<Vec<_>>().join("\n"));
            }
            println!("(* {fails} failing of {n}; rejected {} *)", REJECTED.load(Ordering::Relaxed));
            Some(0)
        }
        Some("c03-mkreplays") => Some(handmade::write_replays(args.get(1).map(|s| s.as_str()))),
        _ => None,
    }
}

fn run(ctx: &mut RunCtx) {
    let open = Open {
        f8_assign: ctx.is_open(ext::K_ASSIGN),
        f8_arg: ctx.is_open(ext::K_ARG),
        f8_out: ctx.is_open(ext::K_OUT),
        f8_dbg: ctx.is_open(ext::K_DBG),
        derived_init: ctx.is_open(ext::K_DINIT),
        enum_at: ctx.is_open(ext::K_ENUM_AT),
        str_len: ctx.is_open(ext::K_STRLEN),
        f25: ctx.is_open(ext::K_F25_ASSIGN) || ctx.is_open(ext::K_F25_IO),
    };
    *OPEN.lock().unwrap() = Some(open);
    let tier = ctx.tier;
    // handmade reproducers and regression inputs
    ctx.search("handmade", case_strategy("clean"), 0, check_case);
    ctx.search(
        "clean",
        case_strategy("clean"),
        tier.pick(3_600, 120_000),
        check_case,
    );
    ctx.search(
        "implicit",
        case_strategy("implicit"),
        tier.pick(2_400, 80_000),
        check_case,
    );
    let ran = RAN.load(Ordering::Relaxed);
    let rejected = REJECTED.load(Ordering::Relaxed);
    if ctx.only_replay.is_none() && rejected * 50 > (ran + rejected).max(1) {
        let sample = REJECT_SAMPLES
            .lock()
            .unwrap()
            .first()
            .map(|s| s.lines().take(2).collect::<Vec<_>>().join(" | "))
            .unwrap_or_default();
        ctx.inconclusive(format!(
            "{rejected} of {} generated programs were rejected by the compiler (> 2 %): the generator no longer matches the accepted language; first: {sample}",
            ran + rejected
        ));
    }
    let panics = PANICS.lock().unwrap().clone();
    if !panics.is_empty() {
        ctx.note(format!(
            "{} panic(s) inside compiler/cycle/restart were observed and not judged by this property (C01's subject); first: {}",
            panics.len(),
            panics[0]
        ));
    }
    let _ = VarSpec {
        name: String::new(),
        ty: DTy::Bits(8),
        retain: false,
    };
}
