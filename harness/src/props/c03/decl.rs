//! Declared types as the GENERATOR knows them, and the storage-wide invariant walker.
//!
//! Nothing in here consults the runtime's own metadata (`VarDef.type_id`, the registry):
//! the layout is built from the generated AST / the extension unit, and the walker only
//! reads `Runtime::storage()`.

use std::collections::BTreeMap;

use serde::{Deserialize, Serialize};
use trust_runtime::memory::VariableStorage;
use trust_runtime::value::Value;

use crate::stgen::ast::{Elem, Program, Role, Ty, TypeDecl, VarKind};

/// Declared type after alias resolution (aliases are resolved by the generator when it
/// builds the layout; the alias name is kept for messages only).
#[derive(Clone, Debug, PartialEq, Serialize, Deserialize)]
pub enum DTy {
    Elem(Elem),
    /// BYTE / WORD / DWORD / LWORD by width.
    Bits(u8),
    /// Subrange of an integer type: tag of the base type, value inside lo..=hi.
    Sub {
        name: String,
        base: Elem,
        lo: i64,
        hi: i64,
    },
    Enum {
        name: String,
        variants: Vec<String>,
    },
    /// STRING[max]
    Str {
        max: u32,
    },
    Array {
        dims: Vec<(i64, i64)>,
        elem: Box<DTy>,
    },
    Struct {
        name: String,
        fields: Vec<(String, DTy)>,
    },
    /// Function block instance; its variables are `Layout::pous[name]`.
    Fb(String),
    /// WSTRING[max]
    WStr {
        max: u32,
    },
    /// Any other elementary type, by the tag its values carry (CHAR, WCHAR, LTIME, DATE, TOD,
    /// DT, ...).
    Tagged(String),
}

impl DTy {
    pub fn text(&self) -> String {
        match self {
            DTy::Elem(e) => e.name().to_string(),
            DTy::Bits(8) => "BYTE".into(),
            DTy::Bits(16) => "WORD".into(),
            DTy::Bits(32) => "DWORD".into(),
            DTy::Bits(_) => "LWORD".into(),
            DTy::Sub { name, base, lo, hi } => format!("{name}={}({lo}..{hi})", base.name()),
            DTy::Enum { name, .. } => format!("ENUM {name}"),
            DTy::Str { max } => format!("STRING[{max}]"),
            DTy::Array { dims, elem } => format!("ARRAY{dims:?} OF {}", elem.text()),
            DTy::Struct { name, .. } => format!("STRUCT {name}"),
            DTy::Fb(n) => format!("FB {n}"),
            DTy::WStr { max } => format!("WSTRING[{max}]"),
            DTy::Tagged(t) => t.clone(),
        }
    }
    /// The tag a well-typed value of this declared type carries.
    pub fn tag(&self) -> String {
        match self {
            DTy::Elem(e) => e.name().to_string(),
            DTy::Bits(_) => self.text(),
            DTy::Sub { base, .. } => base.name().to_string(),
            DTy::Enum { .. } => "ENUM".into(),
            DTy::Str { .. } => "STRING".into(),
            DTy::Array { .. } => "ARRAY".into(),
            DTy::Struct { .. } => "STRUCT".into(),
            DTy::Fb(_) => "INSTANCE".into(),
            DTy::WStr { .. } => "WSTRING".into(),
            DTy::Tagged(t) => t.clone(),
        }
    }
}

#[derive(Clone, Debug, PartialEq, Serialize, Deserialize)]
pub struct VarSpec {
    pub name: String,
    pub ty: DTy,
    /// RETAIN / PERSISTENT: keeps its value over a warm restart.
    #[serde(default)]
    pub retain: bool,
}

/// Everything the oracle walks.
#[derive(Clone, Debug, Default, PartialEq, Serialize, Deserialize)]
pub struct Layout {
    /// VAR_GLOBAL variables (not the program instances).
    pub globals: Vec<VarSpec>,
    /// (instance name, POU name)
    pub instances: Vec<(String, String)>,
    /// Observable variables of every PROGRAM and FUNCTION_BLOCK type.
    pub pous: BTreeMap<String, Vec<VarSpec>>,
}

/// Key of a storage location class: (owner POU | "" for globals, variable, sub-path with
/// array subscripts collapsed to "[]").
pub type LocKey = (String, String, String);

#[derive(Clone, Debug, PartialEq, Eq, PartialOrd, Ord)]
pub enum What {
    /// Value variant differs from the declared type.
    Tag,
    /// Integer outside the subrange bounds.
    Range,
    /// Enum value that is not a declared variant (or wrong type name / numeric value).
    EnumVariant,
    /// String longer than the declared length.
    StrLen,
    /// Array dimensions / element count differ from the declaration.
    Dims,
    /// Struct type name or field set differs.
    Shape,
    /// Variable / instance missing from the storage.
    Missing,
}

#[derive(Clone, Debug)]
pub struct Mismatch {
    pub path: String,
    pub key: LocKey,
    pub declared: String,
    /// Tag of the declared type.
    pub want: String,
    /// Tag of the stored value.
    pub stored: String,
    pub what: What,
    pub detail: String,
}

impl Mismatch {
    pub fn show(&self) -> String {
        format!(
            "{}: declared {} but storage holds {} [{:?}{}]",
            self.path,
            self.declared,
            self.detail,
            self.what,
            if self.what == What::Tag {
                format!(": {} stored in {}", self.stored, self.want)
            } else {
                String::new()
            }
        )
    }
}

pub fn tag_of(v: &Value) -> &'static str {
    match v {
        Value::Bool(_) => "BOOL",
        Value::SInt(_) => "SINT",
        Value::Int(_) => "INT",
        Value::DInt(_) => "DINT",
        Value::LInt(_) => "LINT",
        Value::USInt(_) => "USINT",
        Value::UInt(_) => "UINT",
        Value::UDInt(_) => "UDINT",
        Value::ULInt(_) => "ULINT",
        Value::Real(_) => "REAL",
        Value::LReal(_) => "LREAL",
        Value::Byte(_) => "BYTE",
        Value::Word(_) => "WORD",
        Value::DWord(_) => "DWORD",
        Value::LWord(_) => "LWORD",
        Value::Time(_) => "TIME",
        Value::LTime(_) => "LTIME",
        Value::Date(_) => "DATE",
        Value::LDate(_) => "LDATE",
        Value::Tod(_) => "TOD",
        Value::LTod(_) => "LTOD",
        Value::Dt(_) => "DT",
        Value::Ldt(_) => "LDT",
        Value::String(_) => "STRING",
        Value::WString(_) => "WSTRING",
        Value::Char(_) => "CHAR",
        Value::WChar(_) => "WCHAR",
        Value::Array(_) => "ARRAY",
        Value::Struct(_) => "STRUCT",
        Value::Enum(_) => "ENUM",
        Value::Reference(_) => "REFERENCE",
        Value::Instance(_) => "INSTANCE",
        Value::Null => "NULL",
    }
}

fn short(v: &Value) -> String {
    let s = format!("{v:?}");
    if s.len() > 90 {
        format!("{}...", &s[..90])
    } else {
        s
    }
}

fn int_of(v: &Value) -> Option<i128> {
    Some(match v {
        Value::SInt(x) => *x as i128,
        Value::Int(x) => *x as i128,
        Value::DInt(x) => *x as i128,
        Value::LInt(x) => *x as i128,
        Value::USInt(x) => *x as i128,
        Value::UInt(x) => *x as i128,
        Value::UDInt(x) => *x as i128,
        Value::ULInt(x) => *x as i128,
        _ => return None,
    })
}

struct Walker<'a> {
    storage: &'a VariableStorage,
    layout: &'a Layout,
    out: Vec<Mismatch>,
    leaves: usize,
}

impl<'a> Walker<'a> {
    fn push(&mut self, path: &str, key: &LocKey, ty: &DTy, v: Option<&Value>, what: What) {
        self.out.push(Mismatch {
            path: path.to_string(),
            key: key.clone(),
            declared: ty.text(),
            want: ty.tag(),
            stored: v.map(tag_of).unwrap_or("<missing>").to_string(),
            what,
            detail: v.map(short).unwrap_or_else(|| "<missing>".into()),
        });
    }

    fn check(&mut self, path: &str, key: &LocKey, ty: &DTy, v: &Value, depth: u32) {
        if depth > 12 {
            return;
        }
        match ty {
            DTy::WStr { max } => {
                self.leaves += 1;
                match v {
                    Value::WString(s) => {
                        if s.chars().count() > *max as usize {
                            self.push(path, key, ty, Some(v), What::StrLen);
                        }
                    }
                    _ => self.push(path, key, ty, Some(v), What::Tag),
                }
            }
            DTy::Elem(_) | DTy::Bits(_) | DTy::Tagged(_) => {
                self.leaves += 1;
                if tag_of(v) != ty.tag() {
                    self.push(path, key, ty, Some(v), What::Tag);
                }
            }
            DTy::Sub { lo, hi, .. } => {
                self.leaves += 1;
                if tag_of(v) != ty.tag() {
                    self.push(path, key, ty, Some(v), What::Tag);
                } else if let Some(n) = int_of(v) {
                    if n < *lo as i128 || n > *hi as i128 {
                        self.push(path, key, ty, Some(v), What::Range);
                    }
                }
            }
            DTy::Enum { name, variants } => {
                self.leaves += 1;
                match v {
                    Value::Enum(e) => {
                        let idx = variants
                            .iter()
                            .position(|x| x.eq_ignore_ascii_case(&e.variant_name));
                        let ok = e.type_name.eq_ignore_ascii_case(name)
                            && idx.map(|i| i as i64 == e.numeric_value).unwrap_or(false);
                        if !ok {
                            self.push(path, key, ty, Some(v), What::EnumVariant);
                        }
                    }
                    _ => self.push(path, key, ty, Some(v), What::Tag),
                }
            }
            DTy::Str { max } => {
                self.leaves += 1;
                match v {
                    Value::String(s) => {
                        if s.chars().count() > *max as usize {
                            self.push(path, key, ty, Some(v), What::StrLen);
                        }
                    }
                    _ => self.push(path, key, ty, Some(v), What::Tag),
                }
            }
            DTy::Array { dims, elem } => match v {
                Value::Array(a) => {
                    let n: i128 = dims.iter().map(|(l, h)| (*h - *l + 1) as i128).product();
                    if &a.dimensions != dims || a.elements.len() as i128 != n {
                        self.push(path, key, ty, Some(v), What::Dims);
                        return;
                    }
                    let ekey = (key.0.clone(), key.1.clone(), format!("{}[]", key.2));
                    let mut idx: Vec<i64> = dims.iter().map(|d| d.0).collect();
                    for e in &a.elements {
                        let parts: Vec<String> = idx.iter().map(|i| i.to_string()).collect();
                        let p = format!("{path}[{}]", parts.join(","));
                        self.check(&p, &ekey, elem, e, depth + 1);
                        for d in (0..dims.len()).rev() {
                            idx[d] += 1;
                            if idx[d] <= dims[d].1 {
                                break;
                            }
                            idx[d] = dims[d].0;
                        }
                    }
                }
                _ => self.push(path, key, ty, Some(v), What::Tag),
            },
            DTy::Struct { name, fields } => match v {
                Value::Struct(s) => {
                    if !s.type_name.eq_ignore_ascii_case(name) || s.fields.len() != fields.len() {
                        self.push(path, key, ty, Some(v), What::Shape);
                        return;
                    }
                    for (f, fty) in fields {
                        let fkey = (key.0.clone(), key.1.clone(), format!("{}.{f}", key.2));
                        let p = format!("{path}.{f}");
                        match s
                            .fields
                            .iter()
                            .find(|(n, _)| n.eq_ignore_ascii_case(f))
                            .map(|(_, v)| v)
                        {
                            Some(fv) => self.check(&p, &fkey, fty, fv, depth + 1),
                            None => self.push(&p, &fkey, fty, None, What::Missing),
                        }
                    }
                }
                _ => self.push(path, key, ty, Some(v), What::Tag),
            },
            DTy::Fb(fb) => match v {
                Value::Instance(id) => {
                    let Some(inst) = self.storage.get_instance(*id) else {
                        self.push(path, key, ty, Some(v), What::Missing);
                        return;
                    };
                    if !inst.type_name.eq_ignore_ascii_case(fb) {
                        self.push(path, key, ty, Some(v), What::Shape);
                        return;
                    }
                    let layout = self.layout;
                    let Some(vars) = layout.pous.get(fb) else {
                        return;
                    };
                    for spec in vars {
                        let vkey = (fb.clone(), spec.name.clone(), String::new());
                        let p = format!("{path}.{}", spec.name);
                        match inst
                            .variables
                            .iter()
                            .find(|(n, _)| n.eq_ignore_ascii_case(&spec.name))
                            .map(|(_, v)| v)
                        {
                            Some(x) => self.check(&p, &vkey, &spec.ty, x, depth + 1),
                            None => self.push(&p, &vkey, &spec.ty, None, What::Missing),
                        }
                    }
                }
                _ => self.push(path, key, ty, Some(v), What::Tag),
            },
        }
    }
}

/// Walk the whole storage against the layout. Returns (mismatches, number of leaves seen).
pub fn walk(storage: &VariableStorage, layout: &Layout) -> (Vec<Mismatch>, usize) {
    let mut w = Walker {
        storage,
        layout,
        out: Vec::new(),
        leaves: 0,
    };
    for g in &layout.globals {
        let key = (String::new(), g.name.clone(), String::new());
        let path = format!("G.{}", g.name);
        match storage.get_global(g.name.as_str()) {
            Some(v) => w.check(&path, &key, &g.ty, v, 0),
            None => w.push(&path, &key, &g.ty, None, What::Missing),
        }
    }
    for (inst, pou) in &layout.instances {
        let Some(vars) = layout.pous.get(pou) else {
            continue;
        };
        let id = match storage.get_global(inst.as_str()) {
            Some(Value::Instance(id)) => *id,
            other => {
                let key = (String::new(), inst.clone(), String::new());
                w.push(inst, &key, &DTy::Fb(pou.clone()), other, What::Missing);
                continue;
            }
        };
        for spec in vars {
            let key = (pou.clone(), spec.name.clone(), String::new());
            let path = format!("{inst}.{}", spec.name);
            match storage.get_instance_var(id, spec.name.as_str()) {
                Some(v) => w.check(&path, &key, &spec.ty, v, 0),
                None => w.push(&path, &key, &spec.ty, None, What::Missing),
            }
        }
    }
    (w.out, w.leaves)
}

// ---------------------------------------------------------------- layout of an stgen program

pub fn dty_of(prog: &Program, ty: &Ty) -> DTy {
    match ty {
        Ty::Elem(e) => DTy::Elem(*e),
        Ty::Array { dims, elem } => DTy::Array {
            dims: dims.clone(),
            elem: Box::new(dty_of(prog, elem)),
        },
        Ty::Struct(n) => match prog.type_decl(n) {
            Some(TypeDecl::Struct { name, fields }) => DTy::Struct {
                name: name.clone(),
                fields: fields
                    .iter()
                    .map(|(f, t)| (f.clone(), dty_of(prog, t)))
                    .collect(),
            },
            _ => DTy::Struct {
                name: n.clone(),
                fields: vec![],
            },
        },
        Ty::Enum(n) => match prog.type_decl(n) {
            Some(TypeDecl::Enum { name, variants }) => DTy::Enum {
                name: name.clone(),
                variants: variants.clone(),
            },
            _ => DTy::Enum {
                name: n.clone(),
                variants: vec![],
            },
        },
        Ty::Fb(n) => DTy::Fb(n.clone()),
    }
}

/// Layout of a generated `stgen` program: globals, the program instances and every
/// PROGRAM / FUNCTION_BLOCK type with the variables that have storage of their own
/// (VAR, VAR_INPUT, VAR_OUTPUT; not VAR_IN_OUT references, VAR_TEMP or VAR_EXTERNAL).
pub fn layout_of(prog: &Program) -> Layout {
    let mut l = Layout::default();
    for g in &prog.globals {
        l.globals.push(VarSpec {
            name: g.name.clone(),
            ty: dty_of(prog, &g.ty),
            retain: false,
        });
    }
    l.instances = prog.instances.clone();
    for pou in &prog.pous {
        if pou.kind == crate::stgen::ast::PouKind::Function {
            continue;
        }
        let mut vars = Vec::new();
        for v in &pou.vars {
            if !matches!(v.kind, VarKind::Local | VarKind::Input | VarKind::Output) {
                continue;
            }
            let _ = Role::Data;
            vars.push(VarSpec {
                name: v.name.clone(),
                ty: dty_of(prog, &v.ty),
                retain: false,
            });
        }
        l.pous.insert(pou.name.clone(), vars);
    }
    l
}
