//! Standard-function block of the extension unit (both searches; exact-type assignments only,
//! so nothing here falls under F8): every type that has a same-type-returning standard
//! function gets variables assigned from those functions, each result in a variable (struct
//! field / array element) of its own so that the tag every single call returned is still in the
//! storage at the cycle boundary. Arguments are driven by the input image (lengths, positions,
//! selector / shift count with boundary picks -1, 0, 1, len-1, len, len+1, huge), by a counter
//! that counts down over the cycles (2, 1, 0, -1, ...) and by boundary literals.
//!
//! * strings: LEFT RIGHT MID CONCAT INSERT DELETE REPLACE, SEL MUX MOVE MIN MAX for STRING and
//!   WSTRING (incl. empty operands), STRING<->WSTRING, CHAR<->STRING, WCHAR<->WSTRING,
//!   CHAR<->WCHAR, STRING_TO_CHAR / WSTRING_TO_WCHAR of a one-character cut;
//! * numeric: ABS MIN MAX LIMIT SEL MUX MOVE for the 8 integer types, REAL, LREAL, and MIN MAX
//!   LIMIT SEL MUX MOVE SHL SHR ROL ROR for BYTE..LWORD, operands latched from the input image;
//! * time: ADD_/SUB_/MUL_/DIV_TIME, the LTIME variants, ADD_/SUB_TOD_TIME, SUB_TOD_TOD,
//!   ADD_/SUB_DT_TIME, SUB_DT_DT, SUB_DATE_DATE, CONCAT_DATE_TOD, DT_TO_DATE, DT_TO_TOD,
//!   TIME<->LTIME, SEL MUX MOVE MIN MAX LIMIT on TIME / DATE / TOD / DT;
//! * conversions: 4-9 of the 180 accepted numeric / bit-string `X_TO_Y` pairs (acceptance probed
//!   pair by pair), source latched from the input image (type extremes), result in a Y variable.
//!
//! * generic / overloaded forms with MIXED operand types (`generic`): 6-14 calls per case drawn
//!   from the 1 834 operand-type combinations of ADD SUB MUL DIV EXPT MOVE MIN MAX LIMIT SEL MUX
//!   GT GE EQ LE LT NE ABS SQRT LN LOG EXP SIN COS TAN ASIN ACOS ATAN ATAN2 TRUNC that the compiler
//!   accepts over SINT..ULINT, REAL, LREAL, TIME, LTIME, BYTE..LWORD (`combos.rs`, probed
//!   combination by combination, every operand ORDER: mixed integer widths, mixed signedness,
//!   integer with real, REAL with LREAL, duration x number and number x duration, mixed
//!   bit-string widths), the result assigned to a variable of exactly the result type the
//!   checker infers; operands are either latched from the input image (type extremes, IN of
//!   LIMIT far outside [MN, MX]) or small constants;
//!
//! Statements that can fault for some argument values (ABS of the minimum, MUX selector out of
//! range, narrowing conversions, time arithmetic overflow) are emitted LAST in XExt, in a
//! tape-chosen order, so a fault does not hide the calls before it. Excluded exactly: negative
//! shift counts (C01 F34: the count is a USINT), non-ASCII strings (C01 F35), BCD conversions
//! (C01 F38), STRING_TO_CHAR of a string whose length is not 1 (C01 F39).

#[path = "combos.rs"]
mod combos;

use super::{Ext, IoIn, B};
use crate::engine::tape::Reader;
use crate::props::c03::decl::{DTy, VarSpec};
use crate::stgen::ast::Elem;

fn tagged(t: &str) -> DTy {
    DTy::Tagged(t.to_string())
}

struct NumTy {
    text: &'static str,
    dty: DTy,
    size: char,
    /// ABS applies (integers and reals).
    arith: bool,
    bits: bool,
    /// A literal of the type (third LIMIT / MUX operand).
    lit: &'static str,
}

fn num_types() -> Vec<NumTy> {
    let n = |text, e, size, lit| NumTy {
        text,
        dty: DTy::Elem(e),
        size,
        arith: true,
        bits: false,
        lit,
    };
    let b = |text, w, size, lit| NumTy {
        text,
        dty: DTy::Bits(w),
        size,
        arith: false,
        bits: true,
        lit,
    };
    vec![
        n("SINT", Elem::SInt, 'B', "SINT#100"),
        n("INT", Elem::Int, 'W', "INT#-7"),
        n("DINT", Elem::DInt, 'D', "DINT#70000"),
        n("LINT", Elem::LInt, 'L', "LINT#-5"),
        n("USINT", Elem::USInt, 'B', "USINT#200"),
        n("UINT", Elem::UInt, 'W', "UINT#65000"),
        n("UDINT", Elem::UDInt, 'D', "UDINT#4000000000"),
        n("ULINT", Elem::ULInt, 'L', "ULINT#9"),
        n("REAL", Elem::Real, 'D', "REAL#1.0E30"),
        n("LREAL", Elem::LReal, 'L', "LREAL#-2.5"),
        b("BYTE", 8, 'B', "BYTE#16#F0"),
        b("WORD", 16, 'W', "WORD#16#FF00"),
        b("DWORD", 32, 'D', "DWORD#16#80000000"),
        b("LWORD", 64, 'L', "LWORD#16#1"),
    ]
}

/// (source type, destination type): the accepted `X_TO_Y` pairs among the numeric and
/// bit-string types (probed pair by pair against the compiler).
fn conv_pairs() -> Vec<(usize, usize)> {
    // indices into CONV_TYPES
    let ints = [0usize, 1, 2, 3, 4, 5, 6, 7];
    let mut out = Vec::new();
    // BOOL -> ints
    for &d in &ints {
        out.push((14, d));
    }
    // ints -> every other int, REAL, LREAL, BYTE..LWORD
    for &s in &ints {
        for d in 0..14 {
            if d != s {
                out.push((s, d));
            }
        }
    }
    // REAL (8) -> ints, LREAL, DWORD ; LREAL (9) -> ints, REAL, LWORD
    for &d in &ints {
        out.push((8, d));
        out.push((9, d));
    }
    out.push((8, 9));
    out.push((8, 12));
    out.push((9, 8));
    out.push((9, 13));
    // bit strings (10..13) -> ints and the other bit strings; DWORD -> REAL, LWORD -> LREAL
    for s in 10..14usize {
        for &d in &ints {
            out.push((s, d));
        }
        for d in 10..14usize {
            if d != s {
                out.push((s, d));
            }
        }
    }
    out.push((12, 8));
    out.push((13, 9));
    out
}

const CONV_TYPES: [(&str, char); 15] = [
    ("SINT", 'B'),
    ("INT", 'W'),
    ("DINT", 'D'),
    ("LINT", 'L'),
    ("USINT", 'B'),
    ("UINT", 'W'),
    ("UDINT", 'D'),
    ("ULINT", 'L'),
    ("REAL", 'D'),
    ("LREAL", 'L'),
    ("BYTE", 'B'),
    ("WORD", 'W'),
    ("DWORD", 'D'),
    ("LWORD", 'L'),
    ("BOOL", 'X'),
];

fn conv_dty(i: usize) -> DTy {
    match i {
        0 => DTy::Elem(Elem::SInt),
        1 => DTy::Elem(Elem::Int),
        2 => DTy::Elem(Elem::DInt),
        3 => DTy::Elem(Elem::LInt),
        4 => DTy::Elem(Elem::USInt),
        5 => DTy::Elem(Elem::UInt),
        6 => DTy::Elem(Elem::UDInt),
        7 => DTy::Elem(Elem::ULInt),
        8 => DTy::Elem(Elem::Real),
        9 => DTy::Elem(Elem::LReal),
        10 => DTy::Bits(8),
        11 => DTy::Bits(16),
        12 => DTy::Bits(32),
        13 => DTy::Bits(64),
        _ => DTy::Elem(Elem::Bool),
    }
}

struct S<'a, 'b> {
    r: &'a mut Reader<'b>,
    b: &'a mut B,
    x: &'a mut Ext,
    n: usize,
    risky: Vec<String>,
}

impl<'a, 'b> S<'a, 'b> {
    /// A fresh result variable; returns its name.
    fn res(&mut self, text: &str, ty: DTy) -> String {
        self.n += 1;
        let name = format!("xq{}", self.n);
        self.b.var(&name, text, ty, None);
        name
    }
    fn len_arg(&mut self) -> String {
        match self.r.weighted(&[4, 2, 3]) {
            0 => "xsl".into(),
            1 => "xcd".into(),
            _ => format!(
                "INT#{}",
                [-1, 0, 1, 4, 5, 6, 32767, -32768][self.r.pick(8)]
            ),
        }
    }
    fn pos_arg(&mut self) -> String {
        match self.r.weighted(&[4, 1, 3]) {
            0 => "xsp".into(),
            1 => "xcd".into(),
            _ => format!("INT#{}", [-1, 0, 1, 2, 5, 6, 7, 32767][self.r.pick(8)]),
        }
    }
}

pub(super) fn generate(r: &mut Reader, b: &mut B, x: &mut Ext) {
    if !r.chance(4, 5) {
        return;
    }
    let mut s = S {
        r,
        b,
        x,
        n: 0,
        risky: Vec::new(),
    };
    // ---- arguments driven by the input image / counting down over the cycles
    s.b.at("xsl", "%IW400", "INT", DTy::Elem(Elem::Int));
    s.b.at("xsp", "%IW402", "INT", DTy::Elem(Elem::Int));
    s.b.at("xsk", "%IB404", "USINT", DTy::Elem(Elem::USInt));
    s.b.at("xsg", "%IX405.0", "BOOL", DTy::Elem(Elem::Bool));
    s.b.at("xsn", "%IW406", "INT", DTy::Elem(Elem::Int));
    s.b.var("xcd", "INT", DTy::Elem(Elem::Int), Some("2"));
    for a in ["%IW400", "%IW402"] {
        s.x.inputs.push(IoIn {
            addr: a.into(),
            size: 'W',
            range: None,
            picks: vec![-1, 0, 1, 2, 4, 5, 6, 7, 40, 32767, -32768, 0, 1],
        });
    }
    s.x.inputs.push(IoIn {
        addr: "%IB404".into(),
        size: 'B',
        range: None,
        picks: vec![0, 1, 2, 3, 7, 8, 15, 16, 31, 32, 63, 64, 65, 255, 0, 1],
    });
    s.x.inputs.push(IoIn {
        addr: "%IX405.0".into(),
        size: 'X',
        range: None,
        picks: vec![],
    });
    s.x.inputs.push(IoIn {
        addr: "%IW406".into(),
        size: 'W',
        range: None,
        picks: vec![],
    });
    s.x.labels.push("std-functions".into());
    s.x.excluded.push("C01 F34 negative shift count / F35 non-ASCII string cut / F38 BCD / F39 STRING_TO_CHAR length <> 1 (standard-function block)".into());

    // ------------------------------------------------------------------ numeric / bit strings
    if s.r.chance(4, 5) {
        let nts = num_types();
        let n_types = 1 + s.r.pick(3);
        let mut seen: Vec<usize> = Vec::new();
        for _ in 0..n_types {
            let j = s.r.pick(nts.len());
            if seen.contains(&j) {
                continue;
            }
            seen.push(j);
            let t = &nts[j];
            let off = 600 + 16 * j;
            let (a, bb) = (format!("xna{j}"), format!("xnb{j}"));
            s.b.at(&a, &format!("%I{}{off}", t.size), t.text, t.dty.clone());
            s.b.at(&bb, &format!("%I{}{}", t.size, off + 8), t.text, t.dty.clone());
            for o in [off, off + 8] {
                s.x.inputs.push(IoIn {
                    addr: format!("%I{}{o}", t.size),
                    size: t.size,
                    range: None,
                    picks: vec![],
                });
            }
            let mut calls: Vec<(String, &str, bool)> = vec![
                (format!("MIN({a}, {bb})"), "MIN", false),
                (format!("MAX({a}, {bb})"), "MAX", false),
                (format!("MAX({a}, {bb}, {})", t.lit), "MAX", false),
                (format!("LIMIT({a}, {bb}, {})", t.lit), "LIMIT", false),
                (format!("LIMIT({}, {a}, {bb})", t.lit), "LIMIT", false),
                (format!("SEL(xsg, {a}, {bb})"), "SEL", false),
                (format!("MOVE({a})"), "MOVE", false),
                (format!("MUX(xsk, {a}, {bb}, {})", t.lit), "MUX", true),
            ];
            if t.arith {
                calls.push((format!("ABS({a})"), "ABS", true));
            }
            if t.bits {
                calls.push((format!("SHL({a}, xsk)"), "SHL", false));
                calls.push((format!("SHR({a}, xsk)"), "SHR", false));
                calls.push((format!("ROL({a}, xsk)"), "ROL", false));
                calls.push((format!("ROR({bb}, xsk)"), "ROR", false));
            }
            for (call, fname, risky) in calls {
                if !s.r.chance(2, 3) {
                    continue;
                }
                // occasionally a struct field of the same type is the target
                let target = if t.text == "WORD" && s.r.chance(1, 4) && s.b.has("xsf") {
                    "xsf.b".to_string()
                } else if t.text == "SINT" && s.r.chance(1, 4) && s.b.has("xsf") {
                    "xsf.i".to_string()
                } else {
                    s.res(t.text, t.dty.clone())
                };
                let st = format!("{target} := {call};");
                if risky {
                    s.risky.push(st);
                } else {
                    s.b.s(st);
                }
                s.x.labels.push(format!("std:num:{fname}"));
            }
            s.x.labels.push(format!("std:numtype:{}", t.text));
        }
    }

    // ------------------------------------------------------------------ time and date
    if s.r.chance(3, 5) {
        s.b.var("xt1", "TIME", DTy::Elem(Elem::Time), Some("T#5s"));
        s.b.var("xt2", "TIME", DTy::Elem(Elem::Time), Some("T#1s500ms"));
        s.b.var("xlt1", "LTIME", tagged("LTIME"), Some("LTIME#5s"));
        s.b.var("xlt2", "LTIME", tagged("LTIME"), Some("LTIME#1s"));
        s.b.var("xd1", "DATE", tagged("DATE"), Some("D#2024-01-15"));
        s.b.var("xd2", "DATE", tagged("DATE"), Some("D#2024-01-10"));
        s.b.var("xtd1", "TOD", tagged("TOD"), Some("TOD#10:00:00"));
        s.b.var("xtd2", "TOD", tagged("TOD"), Some("TOD#08:30:00"));
        s.b.var("xdt1", "DT", tagged("DT"), Some("DT#2024-01-15-10:00:00"));
        s.b.var("xdt2", "DT", tagged("DT"), Some("DT#2024-01-10-08:00:00"));
        let time = DTy::Elem(Elem::Time);
        let calls: Vec<(&str, &str, DTy, &str, bool)> = vec![
            ("TIME", "ADD_TIME(xt1, xt2)", time.clone(), "ADD_TIME", true),
            ("TIME", "SUB_TIME(xt2, xt1)", time.clone(), "SUB_TIME", true),
            ("TIME", "MUL_TIME(xt1, xsn)", time.clone(), "MUL_TIME", true),
            ("TIME", "MUL_TIME(xt2, xcd)", time.clone(), "MUL_TIME", false),
            ("TIME", "DIV_TIME(xt1, INT#3)", time.clone(), "DIV_TIME", false),
            ("TIME", "SEL(xsg, xt1, xt2)", time.clone(), "SEL", false),
            ("TIME", "MAX(xt1, xt2)", time.clone(), "MAX", false),
            ("TIME", "MIN(xt1, xt2)", time.clone(), "MIN", false),
            ("TIME", "LIMIT(xt2, xt1, T#10s)", time.clone(), "LIMIT", false),
            ("TIME", "MOVE(xt1)", time.clone(), "MOVE", false),
            ("TIME", "MUX(xsk, xt1, xt2)", time.clone(), "MUX", true),
            ("TIME", "SUB_TOD_TOD(xtd1, xtd2)", time.clone(), "SUB_TOD_TOD", false),
            ("TIME", "SUB_DT_DT(xdt1, xdt2)", time.clone(), "SUB_DT_DT", false),
            ("TIME", "SUB_DATE_DATE(xd1, xd2)", time.clone(), "SUB_DATE_DATE", false),
            ("TIME", "LTIME_TO_TIME(xlt1)", time.clone(), "LTIME_TO_TIME", false),
            ("LTIME", "ADD_LTIME(xlt1, xlt2)", tagged("LTIME"), "ADD_LTIME", true),
            ("LTIME", "SUB_LTIME(xlt1, xlt2)", tagged("LTIME"), "SUB_LTIME", true),
            ("LTIME", "MUL_LTIME(xlt1, xcd)", tagged("LTIME"), "MUL_LTIME", false),
            ("LTIME", "TIME_TO_LTIME(xt1)", tagged("LTIME"), "TIME_TO_LTIME", false),
            ("LTIME", "SEL(xsg, xlt1, xlt2)", tagged("LTIME"), "SEL", false),
            ("TOD", "ADD_TOD_TIME(xtd1, xt2)", tagged("TOD"), "ADD_TOD_TIME", true),
            ("TOD", "SUB_TOD_TIME(xtd1, xt2)", tagged("TOD"), "SUB_TOD_TIME", true),
            ("TOD", "MAX(xtd1, xtd2)", tagged("TOD"), "MAX", false),
            ("TOD", "DT_TO_TOD(xdt1)", tagged("TOD"), "DT_TO_TOD", false),
            ("DT", "ADD_DT_TIME(xdt1, xt2)", tagged("DT"), "ADD_DT_TIME", true),
            ("DT", "SUB_DT_TIME(xdt1, xt2)", tagged("DT"), "SUB_DT_TIME", true),
            ("DT", "CONCAT_DATE_TOD(xd1, xtd1)", tagged("DT"), "CONCAT_DATE_TOD", false),
            ("DT", "MOVE(xdt1)", tagged("DT"), "MOVE", false),
            ("DATE", "SEL(xsg, xd1, xd2)", tagged("DATE"), "SEL", false),
            ("DATE", "DT_TO_DATE(xdt1)", tagged("DATE"), "DT_TO_DATE", false),
            ("DATE", "MIN(xd1, xd2)", tagged("DATE"), "MIN", false),
        ];
        for (text, call, dty, fname, risky) in calls {
            if !s.r.chance(1, 2) {
                continue;
            }
            let target = if text == "TIME" && s.r.chance(1, 5) && s.b.has("xsf") {
                "xsf.t".to_string()
            } else {
                s.res(text, dty)
            };
            let st = format!("{target} := {call};");
            if risky {
                s.risky.push(st);
            } else {
                s.b.s(st);
            }
            s.x.labels.push(format!("std:time:{fname}"));
        }
        // state that moves over the cycles (can overflow after many cycles: late)
        s.risky.push("xt1 := ADD_TIME(xt1, xt2);".into());
    }

    // ------------------------------------------------------------------ X_TO_Y conversions
    if s.r.chance(4, 5) {
        let pairs = conv_pairs();
        let n_conv = 4 + s.r.pick(6);
        let mut srcs: Vec<usize> = Vec::new();
        for _ in 0..n_conv {
            let (si, di) = pairs[s.r.pick(pairs.len())];
            let (stext, ssize) = CONV_TYPES[si];
            let (dtext, _) = CONV_TYPES[di];
            let src = format!("xva{si}");
            if !srcs.contains(&si) {
                srcs.push(si);
                let off = 900 + 8 * si;
                let addr = if ssize == 'X' {
                    format!("%IX{off}.0")
                } else {
                    format!("%I{ssize}{off}")
                };
                s.b.at(&src, &addr, stext, conv_dty(si));
                s.x.inputs.push(IoIn {
                    addr,
                    size: ssize,
                    range: None,
                    picks: vec![],
                });
            }
            let q = s.res(dtext, conv_dty(di));
            // every narrowing / sign-changing / real -> integer conversion can fault Overflow
            s.risky.push(format!("{q} := {stext}_TO_{dtext}({src});"));
            s.x.labels.push(format!("std:conv:to-{dtext}"));
        }
    }

    // ------------------------------------------------------------------ strings
    if s.r.chance(4, 5) {
        s.b.var("xtx1", "STRING[40]", DTy::Str { max: 40 }, Some("'hello'"));
        s.b.var("xtx2", "STRING[40]", DTy::Str { max: 40 }, Some("'ab'"));
        s.b.var("xtx0", "STRING[40]", DTy::Str { max: 40 }, None);
        s.b.var("xwx1", "WSTRING[40]", DTy::WStr { max: 40 }, Some("\"world\""));
        s.b.var("xwx2", "WSTRING[40]", DTy::WStr { max: 40 }, Some("\"xy\""));
        s.b.var("xwx0", "WSTRING[40]", DTy::WStr { max: 40 }, None);
        s.b.var(
            "xsf",
            "XSf",
            DTy::Struct {
                name: "XSf".into(),
                fields: vec![
                    ("w".into(), DTy::WStr { max: 40 }),
                    ("s".into(), DTy::Str { max: 40 }),
                    ("b".into(), DTy::Bits(16)),
                    ("t".into(), DTy::Elem(Elem::Time)),
                    ("i".into(), DTy::Elem(Elem::SInt)),
                ],
            },
            None,
        );
        s.b.var(
            "xwa",
            "ARRAY[0..2] OF WSTRING[40]",
            DTy::Array {
                dims: vec![(0, 2)],
                elem: Box::new(DTy::WStr { max: 40 }),
            },
            None,
        );
        s.b.var(
            "xsa",
            "ARRAY[0..2] OF STRING[40]",
            DTy::Array {
                dims: vec![(0, 2)],
                elem: Box::new(DTy::Str { max: 40 }),
            },
            None,
        );
        let n_stmt = 4 + s.r.pick(9);
        for _ in 0..n_stmt {
            let wide = s.r.flag();
            let (v1, v2, v0, text, dty) = if wide {
                ("xwx1", "xwx2", "xwx0", "WSTRING[80]", DTy::WStr { max: 80 })
            } else {
                ("xtx1", "xtx2", "xtx0", "STRING[80]", DTy::Str { max: 80 })
            };
            let ops = [v1, v2, v0];
            let a = ops[s.r.weighted(&[5, 2, 2])];
            let c = ops[s.r.weighted(&[2, 5, 2])];
            let f = s.r.pick(12);
            let call = match f {
                0 => format!("LEFT({a}, {})", s.len_arg()),
                1 => format!("RIGHT({a}, {})", s.len_arg()),
                2 | 3 => {
                    let l = s.len_arg();
                    let p = s.pos_arg();
                    format!("MID({a}, {l}, {p})")
                }
                4 => format!("CONCAT({a}, {c})"),
                5 => format!("INSERT({a}, {c}, {})", s.pos_arg()),
                6 => {
                    let l = s.len_arg();
                    let p = s.pos_arg();
                    format!("DELETE({a}, {l}, {p})")
                }
                7 => {
                    let l = s.len_arg();
                    let p = s.pos_arg();
                    format!("REPLACE({a}, {c}, {l}, {p})")
                }
                8 => format!("SEL(xsg, {a}, {c})"),
                9 => format!("MOVE({a})"),
                10 => format!("MAX({a}, {c})"),
                _ => format!("MIN({a}, {c})"),
            };
            let fname = [
                "LEFT", "RIGHT", "MID", "MID", "CONCAT", "INSERT", "DELETE", "REPLACE", "SEL",
                "MOVE", "MAX", "MIN",
            ][f];
            // target: own variable, struct field or array element
            let target = match s.r.weighted(&[6, 1, 1]) {
                0 => s.res(text, dty),
                1 => if wide { "xsf.w" } else { "xsf.s" }.to_string(),
                _ => format!("{}[{}]", if wide { "xwa" } else { "xsa" }, s.r.pick(3)),
            };
            s.b.s(format!("{target} := {call};"));
            s.x.labels
                .push(format!("std:str:{fname}:{}", if wide { "W" } else { "S" }));
        }
        // conversions between the character / string types
        if s.r.chance(2, 3) {
            s.b.var("xch", "CHAR", tagged("CHAR"), None);
            s.b.var("xwch", "WCHAR", tagged("WCHAR"), None);
            let q = s.res("WSTRING[80]", DTy::WStr { max: 80 });
            s.b.s(format!("{q} := STRING_TO_WSTRING(xtx1);"));
            let q = s.res("STRING[80]", DTy::Str { max: 80 });
            s.b.s(format!("{q} := WSTRING_TO_STRING(xwx1);"));
            s.b.s("xch := STRING_TO_CHAR(LEFT(xtx1, INT#1));");
            s.b.s("xwch := WSTRING_TO_WCHAR(RIGHT(xwx1, INT#1));");
            let q = s.res("STRING[80]", DTy::Str { max: 80 });
            s.b.s(format!("{q} := CHAR_TO_STRING(xch);"));
            let q = s.res("WSTRING[80]", DTy::WStr { max: 80 });
            s.b.s(format!("{q} := WCHAR_TO_WSTRING(xwch);"));
            let q = s.res("WCHAR", tagged("WCHAR"));
            s.b.s(format!("{q} := CHAR_TO_WCHAR(xch);"));
            let q = s.res("CHAR", tagged("CHAR"));
            s.b.s(format!("{q} := WCHAR_TO_CHAR(xwch);"));
            let q = s.res("WCHAR", tagged("WCHAR"));
            s.b.s(format!("{q} := MOVE(xwch);"));
            s.x.labels.push("std:str:char-conversions".into());
        }
        // MUX with a selector that may be out of range: can fault
        let q = s.res("WSTRING[80]", DTy::WStr { max: 80 });
        s.risky.push(format!("{q} := MUX(xsk, xwx1, xwx2, xwx0);"));
    }

    // ------------------------------------------------------------------ generic overloads
    if s.r.chance(5, 6) {
        generic(&mut s);
    }

    // ---- counting down over the cycles: 2, 1, 0, -1, ...
    s.b.s("xcd := xcd - INT#1;");

    // ---- statements that can fault go last, in a tape-chosen order (at most 10 of them)
    let mut risky = std::mem::take(&mut s.risky);
    let mut order = Vec::new();
    while !risky.is_empty() && order.len() < 14 {
        let i = s.r.pick(risky.len());
        order.push(risky.remove(i));
    }
    s.b.late.extend(order);
    let _ = VarSpec {
        name: String::new(),
        ty: DTy::Bits(8),
        retain: false,
    };
}

// ---------------------------------------------------------------------- generic overloads

const GTYPES: [(&str, char); 16] = [
    ("SINT", 'B'),
    ("INT", 'W'),
    ("DINT", 'D'),
    ("LINT", 'L'),
    ("USINT", 'B'),
    ("UINT", 'W'),
    ("UDINT", 'D'),
    ("ULINT", 'L'),
    ("REAL", 'D'),
    ("LREAL", 'L'),
    ("TIME", '-'),
    ("LTIME", '-'),
    ("BYTE", 'B'),
    ("WORD", 'W'),
    ("DWORD", 'D'),
    ("LWORD", 'L'),
];

fn gidx(t: &str) -> usize {
    GTYPES.iter().position(|(n, _)| *n == t).unwrap_or(0)
}

fn gdty(t: &str) -> DTy {
    match t {
        "BOOL" => DTy::Elem(Elem::Bool),
        "SINT" => DTy::Elem(Elem::SInt),
        "INT" => DTy::Elem(Elem::Int),
        "DINT" => DTy::Elem(Elem::DInt),
        "LINT" => DTy::Elem(Elem::LInt),
        "USINT" => DTy::Elem(Elem::USInt),
        "UINT" => DTy::Elem(Elem::UInt),
        "UDINT" => DTy::Elem(Elem::UDInt),
        "ULINT" => DTy::Elem(Elem::ULInt),
        "REAL" => DTy::Elem(Elem::Real),
        "LREAL" => DTy::Elem(Elem::LReal),
        "TIME" => DTy::Elem(Elem::Time),
        "BYTE" => DTy::Bits(8),
        "WORD" => DTy::Bits(16),
        "DWORD" => DTy::Bits(32),
        "LWORD" => DTy::Bits(64),
        other => tagged(other),
    }
}

fn glit(t: &str, v: u32) -> String {
    match t {
        "REAL" | "LREAL" => format!("{t}#{v}.0"),
        "TIME" => format!("T#{v}s"),
        "LTIME" => format!("LTIME#{v}s"),
        _ => format!("{t}#{v}"),
    }
}

fn is_signed(t: &str) -> bool {
    matches!(t, "SINT" | "INT" | "DINT" | "LINT")
}
fn is_unsigned(t: &str) -> bool {
    matches!(t, "USINT" | "UINT" | "UDINT" | "ULINT")
}

/// Operand variable of type `t`: slot 0/1 = the two operands of a call; `extreme` = latched
/// from the input image (TIME / LTIME: a large constant), else a small constant (3 / 2).
fn goperand(s: &mut S, t: &str, slot: usize, extreme: bool) -> String {
    let i = gidx(t);
    let (_, size) = GTYPES[i];
    if extreme {
        let name = format!("xge{i}_{slot}");
        if !s.b.has(&name) {
            if size == '-' {
                let init = if t == "TIME" {
                    ["T#50000d", "T#-40000d"][slot]
                } else {
                    ["LTIME#50000d", "LTIME#-40000d"][slot]
                };
                s.b.var(&name, t, gdty(t), Some(init));
            } else {
                let addr = format!("%I{size}{}", 1100 + 16 * i + 8 * slot);
                s.b.at(&name, &addr, t, gdty(t));
                s.x.inputs.push(IoIn {
                    addr,
                    size,
                    range: None,
                    picks: vec![],
                });
            }
        }
        name
    } else {
        let name = format!("xgt{i}_{slot}");
        if !s.b.has(&name) {
            let init = glit(t, [3, 2][slot]);
            s.b.var(&name, t, gdty(t), Some(&init));
        }
        name
    }
}

fn generic(s: &mut S) {
    let table = combos::COMBOS;
    // function groups with weights (duration arithmetic and LIMIT are the thin spots)
    const FUNS: [(&str, u32); 16] = [
        ("MUL", 5),
        ("DIV", 4),
        ("ADD", 3),
        ("SUB", 3),
        ("LIMIT", 5),
        ("MIN", 3),
        ("MAX", 3),
        ("SEL", 3),
        ("MUX", 3),
        ("EXPT", 1),
        ("MOVE", 1),
        ("ABS", 1),
        ("cmp", 2),
        ("real1", 1),
        ("ATAN2", 1),
        ("TRUNC", 1),
    ];
    if !s.b.has("xgk") {
        s.b.at("xgk", "%IB408", "USINT", DTy::Elem(Elem::USInt));
        s.x.inputs.push(IoIn {
            addr: "%IB408".into(),
            size: 'B',
            range: None,
            picks: vec![0, 1],
        });
    }
    let weights: Vec<u32> = FUNS.iter().map(|(_, w)| *w).collect();
    let n_calls = 6 + s.r.pick(9);
    for _ in 0..n_calls {
        let group = FUNS[s.r.weighted(&weights)].0;
        let duration_only = s.r.chance(1, 5);
        let cands: Vec<&(&str, &[&str], &str)> = table
            .iter()
            .filter(|(f, ts, _)| {
                let in_group = match group {
                    "cmp" => matches!(*f, "GT" | "GE" | "EQ" | "LE" | "LT" | "NE"),
                    "real1" => matches!(
                        *f,
                        "SQRT" | "LN" | "LOG" | "EXP" | "SIN" | "COS" | "TAN" | "ASIN" | "ACOS" | "ATAN"
                    ),
                    g => *f == g,
                };
                in_group
                    && (!duration_only || ts.iter().any(|t| matches!(*t, "TIME" | "LTIME")))
            })
            .collect();
        let cands = if cands.is_empty() {
            table.iter().filter(|(f, _, _)| *f == "MUL").collect()
        } else {
            cands
        };
        let (f, ts, rt) = *cands[s.r.pick(cands.len())];
        let mixed_sign = ts.iter().any(|t| is_signed(t)) && ts.iter().any(|t| is_unsigned(t));
        let mut any_extreme = false;
        let mut op = |s: &mut S, t: &str, slot: usize, allow_extreme: bool| -> String {
            let extreme = allow_extreme && s.r.chance(3, 5);
            any_extreme |= extreme;
            goperand(s, t, slot, extreme)
        };
        let call = match (f, ts.len()) {
            ("LIMIT", _) => {
                // MN = 2, MX = 3 (constants of the first type), IN of the second type, mostly
                // far outside [MN, MX]
                let mn = op(s, ts[0], 1, false);
                let mx = op(s, ts[0], 0, false);
                let inp = op(s, ts[1], 0, true);
                format!("LIMIT({mn}, {inp}, {mx})")
            }
            ("SEL", _) => {
                let a = op(s, ts[0], 0, true);
                let b = op(s, ts[1], 1, true);
                format!("SEL(xsg, {a}, {b})")
            }
            ("MUX", _) => {
                let a = op(s, ts[0], 0, true);
                let b = op(s, ts[1], 1, true);
                format!("MUX(xgk, {a}, {b})")
            }
            (_, 1) => {
                let a = op(s, ts[0], 0, true);
                format!("{f}({a})")
            }
            _ => {
                let a = op(s, ts[0], 0, true);
                // the divisor is a small constant: the input image starts at zero, and a
                // DivisionByZero in every first cycle would teach nothing
                let b = op(s, ts[1], 1, f != "DIV");
                format!("{f}({a}, {b})")
            }
        };
        let q = s.res(rt, gdty(rt));
        let arithmetic = matches!(f, "ADD" | "SUB" | "MUL" | "DIV" | "EXPT" | "ABS" | "TRUNC")
            || matches!(
                f,
                "SQRT" | "LN" | "LOG" | "EXP" | "SIN" | "COS" | "TAN" | "ASIN" | "ACOS" | "ATAN"
            );
        let st = format!("{q} := {call};");
        // a fault is possible with extreme operands: arithmetic (Overflow, DivisionByZero) and
        // mixed signedness with a negative operand (C01 F5, TypeMismatch)
        if any_extreme && (arithmetic || mixed_sign) {
            s.risky.push(st);
        } else {
            s.b.s(st);
        }
        let mixed = ts.len() > 1 && ts[0] != ts[1];
        s.x.labels.push(format!(
            "std:gen:{}:{}",
            if matches!(group, "cmp" | "real1") { group } else { f },
            if ts.iter().any(|t| matches!(*t, "TIME" | "LTIME")) {
                "duration"
            } else if mixed {
                "mixed"
            } else {
                "same"
            }
        ));
    }
}
