//! Static closure of finding F8 over a generated `stgen` program.
//!
//! F8 (open): an assignment / parameter binding / write-back stores the value with the type
//! tag of the *expression*. For every storage location class this module computes the set of
//! foreign tags that F8 alone can put there in THIS program, together with the write path that
//! introduces it: a model of the runtime's expression typing (untyped integer literal = DINT,
//! untyped real literal = LREAL, arithmetic result = operand of higher rank in the order
//! SINT<INT<DINT<LINT<USINT<UINT<UDINT<ULINT<REAL<LREAL, FOR control coerced to the tag the
//! control variable already holds) iterated to a fixed point. A stored tag outside this set
//! is not explained by F8 and stays a VIOLATION. The analysis is context-insensitive per POU
//! type and collapses array elements, i.e. it is a superset of what can happen (limit).

use std::collections::{BTreeMap, BTreeSet};

use super::decl::LocKey;
use crate::stgen::ast::*;

pub type Extras = BTreeMap<LocKey, BTreeMap<String, String>>;

fn rank(e: Elem) -> u8 {
    match e {
        Elem::SInt => 0,
        Elem::Int => 1,
        Elem::DInt => 2,
        Elem::LInt => 3,
        Elem::USInt => 4,
        Elem::UInt => 5,
        Elem::UDInt => 6,
        Elem::ULInt => 7,
        Elem::Real => 8,
        Elem::LReal => 9,
        _ => 255,
    }
}

fn wider(a: Elem, b: Elem) -> Elem {
    if rank(a) >= rank(b) {
        a
    } else {
        b
    }
}

fn elem_by_name(n: &str) -> Option<Elem> {
    INT_TYPES
        .iter()
        .copied()
        .chain([Elem::Real, Elem::LReal, Elem::Bool, Elem::Time])
        .find(|e| e.name() == n)
}

pub struct Analysis<'a> {
    prog: &'a Program,
    pub extras: Extras,
    changed: bool,
}

type Tags = BTreeSet<Elem>;

impl<'a> Analysis<'a> {
    pub fn new(prog: &'a Program) -> Analysis<'a> {
        Analysis {
            prog,
            extras: BTreeMap::new(),
            changed: false,
        }
    }

    /// Seed: a foreign tag put into a location from outside the program (debugger write).
    pub fn seed(&mut self, key: LocKey, tag: &str, kind: &str) {
        self.extras
            .entry(key)
            .or_default()
            .entry(tag.to_string())
            .or_insert_with(|| kind.to_string());
    }

    fn tags_of(&self, key: &LocKey, declared: Elem) -> Tags {
        let mut t = Tags::new();
        t.insert(declared);
        if let Some(m) = self.extras.get(key) {
            for k in m.keys() {
                if let Some(e) = elem_by_name(k) {
                    t.insert(e);
                }
            }
        }
        t
    }

    fn add(&mut self, key: &LocKey, declared: Elem, tags: &Tags, kind: &str) {
        if !declared.is_num() {
            return;
        }
        for t in tags {
            if *t == declared || !t.is_num() {
                continue;
            }
            let m = self.extras.entry(key.clone()).or_default();
            if !m.contains_key(t.name()) {
                m.insert(t.name().to_string(), kind.to_string());
                self.changed = true;
            }
        }
    }

    /// Copy every foreign tag below `src` (composite value) to the same sub-path below `dst`.
    fn copy_composite(&mut self, src: &LocKey, dst: &LocKey, kind: &str) {
        let found: Vec<(String, BTreeMap<String, String>)> = self
            .extras
            .iter()
            .filter(|(k, _)| k.0 == src.0 && k.1 == src.1 && k.2.starts_with(src.2.as_str()))
            .map(|(k, m)| (k.2[src.2.len()..].to_string(), m.clone()))
            .collect();
        for (rest, m) in found {
            let key = (dst.0.clone(), dst.1.clone(), format!("{}{}", dst.2, rest));
            let e = self.extras.entry(key).or_default();
            for (t, _) in m {
                if !e.contains_key(&t) {
                    e.insert(t, kind.to_string());
                    self.changed = true;
                }
            }
        }
    }

    fn var_decl(&self, pou: &Pou, name: &str) -> Option<(String, Ty)> {
        if pou.kind == PouKind::Function && name == pou.name {
            return pou.ret.clone().map(|t| (pou.name.clone(), t));
        }
        let v = pou.var(name)?;
        if v.kind == VarKind::External {
            let g = self.prog.globals.iter().find(|g| g.name == name)?;
            return Some((String::new(), g.ty.clone()));
        }
        Some((pou.name.clone(), v.ty.clone()))
    }

    fn resolve(&mut self, pou: &Pou, place: &Place) -> Option<(LocKey, Ty)> {
        let (owner, mut ty) = self.var_decl(pou, &place.base)?;
        let mut key: LocKey = (owner, place.base.clone(), String::new());
        for sel in &place.path {
            match sel {
                Sel::Index(ix) => {
                    for e in ix {
                        let _ = self.eval(pou, e);
                    }
                    let Ty::Array { elem, .. } = ty.clone() else {
                        return None;
                    };
                    key.2.push_str("[]");
                    ty = *elem;
                }
                Sel::Field(f) => match ty.clone() {
                    Ty::Struct(n) => {
                        let Some(TypeDecl::Struct { fields, .. }) = self.prog.type_decl(&n) else {
                            return None;
                        };
                        let (_, fty) = fields.iter().find(|(x, _)| x == f)?;
                        key.2.push_str(&format!(".{f}"));
                        ty = fty.clone();
                    }
                    Ty::Fb(n) => {
                        let p = self.prog.pou(&n)?;
                        let v = p.var(f)?;
                        key = (n.clone(), f.clone(), String::new());
                        ty = v.ty.clone();
                    }
                    _ => return None,
                },
            }
        }
        Some((key, ty))
    }

    fn static_elem(v: &Val) -> Option<Elem> {
        v.elem_ty()
    }

    fn eval(&mut self, pou: &Pou, e: &Expr) -> Tags {
        let mut out = Tags::new();
        match e {
            Expr::Lit(v) => {
                if let Some(t) = Self::static_elem(v) {
                    out.insert(t);
                }
            }
            Expr::Untyped(v) => match v {
                Val::Int(..) => {
                    out.insert(Elem::DInt);
                }
                Val::Real(_) | Val::LReal(_) => {
                    out.insert(Elem::LReal);
                }
                other => {
                    if let Some(t) = Self::static_elem(other) {
                        out.insert(t);
                    }
                }
            },
            Expr::Read(p) => {
                if let Some((key, Ty::Elem(d))) = self.resolve(pou, p) {
                    out = self.tags_of(&key, d);
                }
            }
            Expr::Un(UnOp::Neg, x) => out = self.eval(pou, x),
            Expr::Un(UnOp::Not, x) => {
                let _ = self.eval(pou, x);
                out.insert(Elem::Bool);
            }
            Expr::Bin(op, a, b) => {
                let ta = self.eval(pou, a);
                let tb = self.eval(pou, b);
                if op.is_arith() {
                    for x in &ta {
                        for y in &tb {
                            if x.is_num() && y.is_num() {
                                out.insert(wider(*x, *y));
                            }
                        }
                    }
                } else {
                    out.insert(Elem::Bool);
                }
            }
            Expr::Call { func, args, .. } => {
                out = self.call(pou, func, args);
            }
            Expr::Std(f, args) => {
                let ts: Vec<Tags> = args.iter().map(|a| self.eval(pou, a)).collect();
                match f {
                    StdFn::Conv(_, dst) => {
                        out.insert(*dst);
                    }
                    StdFn::Abs => {
                        if let Some(t) = ts.first() {
                            out = t.clone();
                        }
                    }
                    StdFn::Sel => {
                        for t in ts.iter().skip(1) {
                            out.extend(t.iter().copied());
                        }
                    }
                    StdFn::Min | StdFn::Max | StdFn::Limit => {
                        let mut all = Tags::new();
                        for t in &ts {
                            all.extend(t.iter().copied());
                        }
                        for x in &all {
                            for y in &all {
                                if x.is_num() && y.is_num() {
                                    out.insert(wider(*x, *y));
                                }
                            }
                        }
                        out.extend(all);
                    }
                }
            }
        }
        out
    }

    fn bind_args(&mut self, caller: &Pou, callee_name: &str, args: &[Arg], is_fb: bool) {
        let prog = self.prog;
        let Some(callee) = prog.pou(callee_name) else {
            return;
        };
        let kin = if is_fb {
            "fb-input-binding"
        } else {
            "argument-binding"
        };
        for a in args {
            let Some(p) = callee.var(&a.param) else {
                continue;
            };
            let pkey: LocKey = (callee.name.clone(), p.name.clone(), String::new());
            match &a.val {
                ArgVal::In(e) => {
                    let t = self.eval(caller, e);
                    match &p.ty {
                        Ty::Elem(d) => self.add(&pkey, *d, &t, kin),
                        _ => {
                            if let Expr::Read(src) = e {
                                if let Some((skey, _)) = self.resolve(caller, src) {
                                    self.copy_composite(&skey, &pkey, kin);
                                }
                            }
                        }
                    }
                }
                ArgVal::Out(place) => {
                    if let Some((tkey, tty)) = self.resolve(caller, place) {
                        match (&p.ty, &tty) {
                            (Ty::Elem(pd), Ty::Elem(td)) => {
                                let t = self.tags_of(&pkey, *pd);
                                self.add(&tkey, *td, &t, "output-binding");
                            }
                            _ => self.copy_composite(&pkey, &tkey, "output-binding"),
                        }
                    }
                }
                ArgVal::InOut(place) => {
                    if let Some((tkey, tty)) = self.resolve(caller, place) {
                        match (&p.ty, &tty) {
                            (Ty::Elem(pd), Ty::Elem(td)) => {
                                let t = self.tags_of(&tkey, *td);
                                self.add(&pkey, *pd, &t, "in-out-binding");
                                let t = self.tags_of(&pkey, *pd);
                                self.add(&tkey, *td, &t, "in-out-binding");
                            }
                            _ => {
                                self.copy_composite(&tkey, &pkey, "in-out-binding");
                                self.copy_composite(&pkey, &tkey, "in-out-binding");
                            }
                        }
                    }
                }
            }
        }
        // FUNCTION inputs that are left out take their declared initial value, which is
        // evaluated without coercion on every call.
        if !is_fb {
            for p in callee.vars.iter().filter(|v| v.kind == VarKind::Input) {
                if args.iter().any(|a| a.param == p.name) {
                    continue;
                }
                if let (Some(init), Ty::Elem(d)) = (&p.init, &p.ty) {
                    let t = self.eval(callee, init);
                    let pkey: LocKey = (callee.name.clone(), p.name.clone(), String::new());
                    self.add(&pkey, *d, &t, "parameter-default");
                }
            }
        }
    }

    fn call(&mut self, caller: &Pou, func: &str, args: &[Arg]) -> Tags {
        self.bind_args(caller, func, args, false);
        let prog = self.prog;
        let Some(callee) = prog.pou(func) else {
            return Tags::new();
        };
        match &callee.ret {
            Some(Ty::Elem(d)) => {
                self.tags_of(&(callee.name.clone(), callee.name.clone(), String::new()), *d)
            }
            _ => Tags::new(),
        }
    }

    fn block(&mut self, pou: &Pou, stmts: &[Stmt]) {
        for s in stmts {
            self.stmt(pou, s);
        }
    }

    fn stmt(&mut self, pou: &Pou, s: &Stmt) {
        match &s.kind {
            StmtKind::Assign { target, value } => {
                let t = self.eval(pou, value);
                if let Some((key, ty)) = self.resolve(pou, target) {
                    match ty {
                        Ty::Elem(d) => {
                            let kind = if pou.kind == PouKind::Function && target.base == pou.name
                            {
                                "function-result"
                            } else {
                                "assignment"
                            };
                            self.add(&key, d, &t, kind)
                        }
                        _ => {
                            if let Expr::Read(src) = value {
                                if let Some((skey, _)) = self.resolve(pou, src) {
                                    self.copy_composite(&skey, &key, "assignment");
                                }
                            }
                        }
                    }
                }
            }
            StmtKind::If {
                cond,
                then_,
                elsifs,
                else_,
            } => {
                let _ = self.eval(pou, cond);
                self.block(pou, then_);
                for (c, b) in elsifs {
                    let _ = self.eval(pou, c);
                    self.block(pou, b);
                }
                if let Some(b) = else_ {
                    self.block(pou, b);
                }
            }
            StmtKind::Case {
                sel, arms, else_, ..
            } => {
                let _ = self.eval(pou, sel);
                for (_, b) in arms {
                    self.block(pou, b);
                }
                if let Some(b) = else_ {
                    self.block(pou, b);
                }
            }
            StmtKind::For {
                from, to, by, body, ..
            } => {
                // the control variable is coerced to the tag it already holds: no new tag
                let _ = self.eval(pou, from);
                let _ = self.eval(pou, to);
                if let Some(b) = by {
                    let _ = self.eval(pou, b);
                }
                self.block(pou, body);
            }
            StmtKind::While { cond, body } => {
                let _ = self.eval(pou, cond);
                self.block(pou, body);
            }
            StmtKind::Repeat { body, until } => {
                self.block(pou, body);
                let _ = self.eval(pou, until);
            }
            StmtKind::Return(Some(e)) => {
                let t = self.eval(pou, e);
                if let (PouKind::Function, Some(Ty::Elem(d))) = (pou.kind, &pou.ret) {
                    let key = (pou.name.clone(), pou.name.clone(), String::new());
                    self.add(&key, *d, &t, "function-result");
                }
            }
            StmtKind::FbCall { fb, args, .. } => {
                self.bind_args(pou, fb, args, true);
            }
            StmtKind::CallStmt(e) => {
                let _ = self.eval(pou, e);
            }
            StmtKind::Return(None) | StmtKind::Exit | StmtKind::Continue | StmtKind::Empty => {}
        }
    }

    /// Iterate to the fixed point.
    pub fn run(&mut self) {
        let prog = self.prog;
        for _ in 0..40 {
            self.changed = false;
            for pou in &prog.pous {
                // initialisers that are evaluated at call time without coercion: FUNCTION
                // locals and VAR_TEMP of any POU
                for v in &pou.vars {
                    let uncoerced = v.kind == VarKind::Temp
                        || (pou.kind == PouKind::Function && v.kind == VarKind::Local);
                    if uncoerced {
                        if let (Some(init), Ty::Elem(d)) = (&v.init, &v.ty) {
                            let t = self.eval(pou, init);
                            let key = (pou.name.clone(), v.name.clone(), String::new());
                            self.add(&key, *d, &t, "local-initialiser");
                        }
                    }
                }
                self.block(pou, &pou.body);
            }
            if !self.changed {
                break;
            }
        }
    }
}

/// F8 closure of a program, seeded with debugger writes `(key, tag)`.
pub fn closure(prog: &Program, seeds: &[(LocKey, String)]) -> Extras {
    let mut a = Analysis::new(prog);
    for (k, t) in seeds {
        a.seed(k.clone(), t, "debugger-write");
    }
    a.run();
    a.extras
}
