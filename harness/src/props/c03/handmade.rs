//! Hand-built minimal reproducers (`tpv c03-mkreplays [dir]` writes them as replay files).
//! They carry no allowances: each one fails for exactly the reason its finding describes.

use std::collections::BTreeMap;

use serde_json::json;

use super::decl::{DTy, Layout, VarSpec};
use super::{ext, Case, Event};
use crate::stgen::ast::Elem;

fn v(name: &str, ty: DTy) -> VarSpec {
    VarSpec {
        name: name.into(),
        ty,
        retain: false,
    }
}

fn e(el: Elem) -> DTy {
    DTy::Elem(el)
}

fn layout(globals: Vec<VarSpec>, pous: Vec<(&str, Vec<VarSpec>)>, instances: Vec<(&str, &str)>) -> Layout {
    let mut m = BTreeMap::new();
    for (n, vs) in pous {
        m.insert(n.to_string(), vs);
    }
    Layout {
        globals,
        instances: instances
            .into_iter()
            .map(|(a, b)| (a.to_string(), b.to_string()))
            .collect(),
        pous: m,
    }
}

fn case(source: &str, layout: Layout, events: Vec<Event>) -> Case {
    Case {
        prog_tape: None,
        trace_tape: None,
        ext_tape: None,
        ev_tape: None,
        std_tape: None,
        print_bits: 0,
        mode: "handmade".into(),
        source: source.to_string(),
        layout,
        allowed: vec![],
        events,
        program: None,
        excluded: vec![],
        labels: vec![],
    }
}

fn cycle() -> Event {
    Event::Cycle {
        writes: vec![],
        dt_ns: 1_000_000,
    }
}

fn pct() -> DTy {
    DTy::Sub {
        name: "Pct".into(),
        base: Elem::Int,
        lo: 0,
        hi: 100,
    }
}

pub fn all() -> Vec<(&'static str, String, &'static str, Case)> {
    let mut out: Vec<(&'static str, String, &'static str, Case)> = Vec::new();
    // ---- F8, assignment
    out.push((
        "F8-assignment-keeps-expression-type",
        format!("known:{}", ext::K_ASSIGN),
        "x : INT; x := x + 1 stores DINT; r : REAL; r := i stores INT; s : SINT; s := 5 stores DINT",
        case(
            "PROGRAM Main
VAR
  x : INT;
  r : REAL;
  i : INT := 7;
  s : SINT;
END_VAR
  x := x + 1;
  r := i;
  s := 5;
END_PROGRAM
",
            layout(
                vec![],
                vec![(
                    "Main",
                    vec![
                        v("x", e(Elem::Int)),
                        v("r", e(Elem::Real)),
                        v("i", e(Elem::Int)),
                        v("s", e(Elem::SInt)),
                    ],
                )],
                vec![("Main", "Main")],
            ),
            vec![cycle()],
        ),
    ));
    // ---- F8, FB input binding
    out.push((
        "F8-fb-input-binding-keeps-argument-type",
        format!("known:{}", ext::K_ARG),
        "fb(i := 5) binds DINT to the SINT input i; fb(w := n) with n : INT binds INT to the LINT input w",
        case(
            "FUNCTION_BLOCK Fb
VAR_INPUT
  i : SINT;
  w : LINT;
END_VAR
END_FUNCTION_BLOCK

PROGRAM Main
VAR
  fb : Fb;
  n : INT := 3;
END_VAR
  fb(i := 5, w := n);
END_PROGRAM
",
            layout(
                vec![],
                vec![
                    ("Fb", vec![v("i", e(Elem::SInt)), v("w", e(Elem::LInt))]),
                    ("Main", vec![v("fb", DTy::Fb("Fb".into())), v("n", e(Elem::Int))]),
                ],
                vec![("Main", "Main")],
            ),
            vec![cycle()],
        ),
    ));
    // ---- F8, FUNCTION argument binding (visible through the result)
    out.push((
        "F8-function-argument-binding-keeps-argument-type",
        format!("known:{}", ext::K_ARG),
        "y := F(5) with F(a : SINT) : SINT, F := a: the SINT input holds DINT, so the SINT variable y receives DINT",
        case(
            "FUNCTION F : SINT
VAR_INPUT
  a : SINT;
END_VAR
  F := a;
END_FUNCTION

PROGRAM Main
VAR
  y : SINT;
END_VAR
  y := F(5);
END_PROGRAM
",
            layout(
                vec![],
                vec![("Main", vec![v("y", e(Elem::SInt))])],
                vec![("Main", "Main")],
            ),
            vec![cycle()],
        ),
    ));
    // ---- F8, output binding
    out.push((
        "F8-output-binding-keeps-parameter-type",
        format!("known:{}", ext::K_OUT),
        "fb(q => d) with q : INT and d : DINT stores INT in d",
        case(
            "FUNCTION_BLOCK Fb
VAR_OUTPUT
  q : INT;
END_VAR
  q := INT#11;
END_FUNCTION_BLOCK

PROGRAM Main
VAR
  fb : Fb;
  d : DINT;
END_VAR
  fb(q => d);
END_PROGRAM
",
            layout(
                vec![],
                vec![
                    ("Fb", vec![v("q", e(Elem::Int))]),
                    ("Main", vec![v("fb", DTy::Fb("Fb".into())), v("d", e(Elem::DInt))]),
                ],
                vec![("Main", "Main")],
            ),
            vec![cycle()],
        ),
    ));
    // ---- F8, debugger write
    out.push((
        "F8-debugger-set-stores-lint",
        format!("known:{}", ext::K_DBG),
        "control request set global:g 5 stores LINT in g : INT; var.force instance:<id>:r 2 stores LINT in r : REAL",
        case(
            "PROGRAM Main
VAR
  r : REAL;
END_VAR
END_PROGRAM

CONFIGURATION Conf
  VAR_GLOBAL
    g : INT;
  END_VAR
  PROGRAM Main : Main;
END_CONFIGURATION
",
            layout(
                vec![v("g", e(Elem::Int))],
                vec![("Main", vec![v("r", e(Elem::Real))])],
                vec![("Main", "Main")],
            ),
            vec![
                Event::Dbg {
                    op: "set".into(),
                    path: vec![],
                    var: "g".into(),
                    text: "5".into(),
                },
                Event::Dbg {
                    op: "force".into(),
                    path: vec!["Main".into()],
                    var: "r".into(),
                    text: "2".into(),
                },
                cycle(),
            ],
        ),
    ));
    // ---- debugger write, clean (regression: LINT and BOOL targets keep their type)
    out.push((
        "debugger-write-to-lint-and-bool",
        "pass".to_string(),
        "set/force of LINT and BOOL variables keeps the declared types",
        case(
            "PROGRAM Main
VAR
  l : LINT;
  b : BOOL;
END_VAR
END_PROGRAM

CONFIGURATION Conf
  VAR_GLOBAL
    g : LINT;
    f : BOOL;
  END_VAR
  PROGRAM Main : Main;
END_CONFIGURATION
",
            layout(
                vec![v("g", e(Elem::LInt)), v("f", e(Elem::Bool))],
                vec![("Main", vec![v("l", e(Elem::LInt)), v("b", e(Elem::Bool))])],
                vec![("Main", "Main")],
            ),
            vec![
                Event::Dbg {
                    op: "set".into(),
                    path: vec![],
                    var: "g".into(),
                    text: "-7".into(),
                },
                Event::Dbg {
                    op: "set".into(),
                    path: vec![],
                    var: "f".into(),
                    text: "true".into(),
                },
                Event::Dbg {
                    op: "force".into(),
                    path: vec!["Main".into()],
                    var: "l".into(),
                    text: "9223372036854775807".into(),
                },
                Event::Dbg {
                    op: "force".into(),
                    path: vec!["Main".into()],
                    var: "b".into(),
                    text: "TRUE".into(),
                },
                cycle(),
                Event::Restart { warm: true },
                cycle(),
            ],
        ),
    ));
    // ---- F32 initialiser of derived types
    out.push((
        "F32-initialiser-of-derived-type-not-coerced",
        "pass".to_string(),
        "p : Pct := 50 (Pct : INT (0..100)) starts as DINT#50; m : MyInt := 5 (MyInt : INT) starts as DINT#5; q : MyReal := 2 starts as DINT#2",
        case(
            "TYPE
  Pct : INT (0..100);
  MyInt : INT;
  MyReal : REAL;
END_TYPE

PROGRAM Main
VAR
  p : Pct := 50;
  m : MyInt := 5;
  q : MyReal := 2;
END_VAR
END_PROGRAM
",
            layout(
                vec![],
                vec![(
                    "Main",
                    vec![v("p", pct()), v("m", e(Elem::Int)), v("q", e(Elem::Real))],
                )],
                vec![("Main", "Main")],
            ),
            vec![],
        ),
    ));
    // ---- F33 enum AT
    out.push((
        "F33-io-latch-stores-integer-in-enum-variable",
        format!("known:{}", ext::K_ENUM_AT),
        "c AT %IW0 : Col (enum) holds INT after the input latch of the first cycle",
        case(
            "TYPE
  Col : (Red, Green, Blue);
END_TYPE

PROGRAM Main
VAR
  c AT %IW0 : Col;
END_VAR
END_PROGRAM
",
            layout(
                vec![],
                vec![(
                    "Main",
                    vec![v(
                        "c",
                        DTy::Enum {
                            name: "Col".into(),
                            variants: vec!["Red".into(), "Green".into(), "Blue".into()],
                        },
                    )],
                )],
                vec![("Main", "Main")],
            ),
            vec![
                Event::Io {
                    addr: "%IW0".into(),
                    size: 'W',
                    raw: 1,
                    via_debug: false,
                },
                cycle(),
            ],
        ),
    ));
    // ---- F34 string length
    out.push((
        "F34-string-length-not-enforced",
        format!("known:{}", ext::K_STRLEN),
        "s : STRING[3]; t : STRING[5] := 'hello'; s := t stores five characters in s",
        case(
            "PROGRAM Main
VAR
  s : STRING[3];
  t : STRING[5] := 'hello';
END_VAR
  s := t;
END_PROGRAM
",
            layout(
                vec![],
                vec![(
                    "Main",
                    vec![v("s", DTy::Str { max: 3 }), v("t", DTy::Str { max: 5 })],
                )],
                vec![("Main", "Main")],
            ),
            vec![cycle()],
        ),
    ));
    // ---- F25 assignment
    out.push((
        "F25-subrange-not-enforced-on-assignment",
        format!("known:{}", ext::K_F25_ASSIGN),
        "p : Pct (INT 0..100); p := INT#50; p := p + INT#60 stores INT#110",
        case(
            "TYPE
  Pct : INT (0..100);
END_TYPE

PROGRAM Main
VAR
  p : Pct;
END_VAR
  p := INT#50;
  p := p + INT#60;
END_PROGRAM
",
            layout(
                vec![],
                vec![("Main", vec![v("p", pct())])],
                vec![("Main", "Main")],
            ),
            vec![cycle()],
        ),
    ));
    // ---- F25 I/O latch
    out.push((
        "F25-subrange-not-enforced-on-io-latch",
        format!("known:{}", ext::K_F25_IO),
        "p AT %IW0 : Pct (INT 0..100) holds INT#1000 after the input latch when the input word is 1000",
        case(
            "TYPE
  Pct : INT (0..100);
END_TYPE

PROGRAM Main
VAR
  p AT %IW0 : Pct;
END_VAR
END_PROGRAM
",
            layout(
                vec![],
                vec![("Main", vec![v("p", pct())])],
                vec![("Main", "Main")],
            ),
            vec![
                Event::Io {
                    addr: "%IW0".into(),
                    size: 'W',
                    raw: 1000,
                    via_debug: false,
                },
                cycle(),
            ],
        ),
    ));
    out
}

pub fn write_replays(dir: Option<&str>) -> i32 {
    let dir = dir
        .map(std::path::PathBuf::from)
        .unwrap_or_else(|| crate::engine::verif_root().join("replays").join("C03"));
    let _ = std::fs::create_dir_all(&dir);
    for (name, expect, msg, c) in all() {
        let rec = json!({
            "property": "C03",
            "search": "handmade",
            "expect": expect,
            "message": msg,
            "case": serde_json::to_value(&c).unwrap(),
        });
        let path = dir.join(format!("{name}.json"));
        if let Err(e) = std::fs::write(&path, serde_json::to_string_pretty(&rec).unwrap()) {
            eprintln!("cannot write {}: {e}", path.display());
            return 2;
        }
        println!("wrote {}", path.display());
    }
    0
}
