//! Extension unit of C03: a generated PROGRAM `XExt` (plus types, FUNCTIONs, FUNCTION_BLOCKs
//! and optional globals) that is appended to the `stgen` program. It brings the write paths
//! `stgen` does not have: AT-bound variables of every I/O-capable type (inputs, outputs,
//! marker memory, arrays, structs, FB members, globals), FOR loops over every integer type
//! with bounds of other types, parameter passing to FUNCTION / FB inputs, outputs and in-outs,
//! subrange / alias / enum / string / struct / array variables, untyped-literal initialisers of
//! every elementary type, RETAIN variables, and dedicated targets for debugger writes.
//!
//! Everything is text + the generator's own record of the declared types (`VarSpec`); the
//! F8 shapes (implicit conversions) are only emitted in the implicit mode, always into
//! dedicated sink variables that nothing else reads, each with the exact (location, stored
//! tag, write path) signature F8 predicts for it.

use serde::{Deserialize, Serialize};

#[path = "stdfn.rs"]
mod stdfn;

use super::decl::{DTy, LocKey, VarSpec};
use crate::engine::tape::Reader;
use crate::stgen::ast::Elem;

/// One (location, foreign tag) pair that an open finding explains.
#[derive(Clone, Debug, PartialEq, Serialize, Deserialize)]
pub struct Allowed {
    pub key: LocKey,
    pub tag: String,
    /// Key in known_findings.
    pub finding: String,
    /// The location is RETAIN: the foreign tag survives a warm restart.
    #[serde(default)]
    pub retain: bool,
}

#[derive(Clone, Debug, PartialEq, Serialize, Deserialize)]
pub struct IoIn {
    /// e.g. "%IW8"
    pub addr: String,
    /// X B W D L
    pub size: char,
    /// Restrict raw values to this inclusive range (two's complement of the width) when the
    /// bound variable is a subrange.
    pub range: Option<(i64, i64)>,
    /// When not empty: the written value is one of these (boundary picks).
    #[serde(default)]
    pub picks: Vec<i64>,
}

#[derive(Clone, Debug, PartialEq, Serialize, Deserialize)]
pub struct DbgTarget {
    /// Instance chain from a program instance ("XExt"), empty = global.
    pub path: Vec<String>,
    pub var: String,
    pub key: LocKey,
    pub ty: DTy,
    /// Nothing in the program reads this variable (a foreign tag cannot spread).
    pub sink: bool,
}

#[derive(Clone, Debug, Default)]
pub struct Ext {
    pub types: String,
    pub pous: String,
    /// Lines for a VAR_GLOBAL block (own or appended to the stgen CONFIGURATION).
    pub globals_text: Vec<String>,
    pub globals: Vec<VarSpec>,
    /// Lines for a VAR_CONFIG block (printed after `PROGRAM XExt : XExt;`).
    pub config_text: Vec<String>,
    /// Variables of XExt and of the extension FBs.
    pub pou_vars: Vec<(String, Vec<VarSpec>)>,
    pub allowed: Vec<Allowed>,
    pub inputs: Vec<IoIn>,
    pub dbg: Vec<DbgTarget>,
    pub excluded: Vec<String>,
    pub labels: Vec<String>,
}

/// Which findings are open (decides which shapes are steered around).
#[derive(Clone, Copy, Debug, Serialize, Deserialize)]
pub struct Open {
    pub f8_assign: bool,
    pub f8_arg: bool,
    pub f8_out: bool,
    pub f8_dbg: bool,
    pub derived_init: bool,
    pub enum_at: bool,
    pub str_len: bool,
    pub f25: bool,
}

pub const K_ASSIGN: &str = "F8-assignment-keeps-expression-type";
pub const K_ARG: &str = "F8-argument-binding-keeps-argument-type";
pub const K_OUT: &str = "F8-output-binding-keeps-parameter-type";
pub const K_DBG: &str = "F8-debugger-write-stores-lint";
pub const K_DINIT: &str = "F32-initialiser-of-derived-type-not-coerced";
pub const K_ENUM_AT: &str = "F33-io-latch-stores-integer-in-enum-variable";
pub const K_STRLEN: &str = "F34-string-length-not-enforced";
pub const K_F25_ASSIGN: &str = "F25-subrange-not-enforced-on-assignment";
pub const K_F25_IO: &str = "F25-subrange-not-enforced-on-io-latch";

struct IoTy {
    text: &'static str,
    dty: DTy,
    size: char,
    range: Option<(i64, i64)>,
}

fn io_types() -> Vec<IoTy> {
    let e = |t: &'static str, el: Elem, s: char| IoTy {
        text: t,
        dty: DTy::Elem(el),
        size: s,
        range: None,
    };
    let b = |t: &'static str, w: u8, s: char| IoTy {
        text: t,
        dty: DTy::Bits(w),
        size: s,
        range: None,
    };
    vec![
        e("BOOL", Elem::Bool, 'X'),
        e("SINT", Elem::SInt, 'B'),
        e("USINT", Elem::USInt, 'B'),
        b("BYTE", 8, 'B'),
        e("INT", Elem::Int, 'W'),
        e("UINT", Elem::UInt, 'W'),
        b("WORD", 16, 'W'),
        e("DINT", Elem::DInt, 'D'),
        e("UDINT", Elem::UDInt, 'D'),
        b("DWORD", 32, 'D'),
        e("REAL", Elem::Real, 'D'),
        e("LINT", Elem::LInt, 'L'),
        e("ULINT", Elem::ULInt, 'L'),
        b("LWORD", 64, 'L'),
        e("LREAL", Elem::LReal, 'L'),
        IoTy {
            text: "XPct",
            dty: pct(),
            size: 'W',
            range: Some((0, 100)),
        },
        IoTy {
            text: "XMyInt",
            dty: DTy::Elem(Elem::Int),
            size: 'W',
            range: None,
        },
        IoTy {
            text: "XSmall",
            dty: small(),
            size: 'B',
            range: Some((-5, 5)),
        },
    ]
}

fn pct() -> DTy {
    DTy::Sub {
        name: "XPct".into(),
        base: Elem::Int,
        lo: 0,
        hi: 100,
    }
}
fn small() -> DTy {
    DTy::Sub {
        name: "XSmall".into(),
        base: Elem::SInt,
        lo: -5,
        hi: 5,
    }
}
fn col() -> DTy {
    DTy::Enum {
        name: "XCol".into(),
        variants: vec!["XRed".into(), "XGreen".into(), "XBlue".into()],
    }
}
fn xs() -> DTy {
    DTy::Struct {
        name: "XS".into(),
        fields: vec![
            ("a".into(), DTy::Elem(Elem::Int)),
            ("u".into(), DTy::Elem(Elem::USInt)),
            ("r".into(), DTy::Elem(Elem::Real)),
            ("p".into(), pct()),
            ("c".into(), col()),
            (
                "arr".into(),
                DTy::Array {
                    dims: vec![(0, 1)],
                    elem: Box::new(DTy::Elem(Elem::DInt)),
                },
            ),
        ],
    }
}
fn xsio() -> DTy {
    DTy::Struct {
        name: "XSio".into(),
        fields: vec![
            ("a".into(), DTy::Elem(Elem::Int)),
            ("b".into(), DTy::Elem(Elem::SInt)),
            ("r".into(), DTy::Elem(Elem::Real)),
        ],
    }
}

fn xsd() -> DTy {
    DTy::Struct {
        name: "XSd".into(),
        fields: vec![
            ("a".into(), DTy::Elem(Elem::Int)),
            ("p".into(), pct()),
            ("r".into(), DTy::Elem(Elem::Real)),
            ("u".into(), DTy::Elem(Elem::UDInt)),
            ("c".into(), col()),
        ],
    }
}

const TYPES: &str = "TYPE
  XPct : INT (0..100);
  XSmall : SINT (-5..5);
  XMyInt : INT;
  XMyLr : LREAL;
  XCol : (XRed, XGreen, XBlue);
  XS : STRUCT
    a : INT;
    u : USINT;
    r : REAL;
    p : XPct;
    c : XCol;
    arr : ARRAY[0..1] OF DINT;
  END_STRUCT;
  XSio : STRUCT
    a : INT;
    b : SINT;
    r : REAL;
  END_STRUCT;
  XSf : STRUCT
    w : WSTRING[40];
    s : STRING[40];
    b : WORD;
    t : TIME;
    i : SINT;
  END_STRUCT;
  XGain : REAL;
  XTicks : UDINT;
  XSd : STRUCT
    a : INT := 5;
    p : XPct := 50;
    r : XGain := 2;
    u : XTicks := 1000;
    c : XCol := XCol#XBlue;
  END_STRUCT;
END_TYPE
";

pub(super) struct B {
    decls: Vec<String>,
    retain_decls: Vec<String>,
    ext_decls: Vec<String>,
    stmts: Vec<String>,
    /// Statements printed after all others (they can fault for some argument values).
    pub(super) late: Vec<String>,
    vars: Vec<VarSpec>,
}

impl B {
    pub(super) fn has(&self, name: &str) -> bool {
        self.vars.iter().any(|v| v.name == name)
    }
    pub(super) fn var(&mut self, name: &str, text: &str, ty: DTy, init: Option<&str>) {
        let i = init.map(|s| format!(" := {s}")).unwrap_or_default();
        self.decls.push(format!("{name} : {text}{i};"));
        self.vars.push(VarSpec {
            name: name.into(),
            ty,
            retain: false,
        });
    }
    pub(super) fn at(&mut self, name: &str, addr: &str, text: &str, ty: DTy) {
        self.decls.push(format!("{name} AT {addr} : {text};"));
        self.vars.push(VarSpec {
            name: name.into(),
            ty,
            retain: false,
        });
    }
    fn retain(&mut self, name: &str, text: &str, ty: DTy, init: Option<&str>) {
        let i = init.map(|s| format!(" := {s}")).unwrap_or_default();
        self.retain_decls.push(format!("{name} : {text}{i};"));
        self.vars.push(VarSpec {
            name: name.into(),
            ty,
            retain: true,
        });
    }
    pub(super) fn s(&mut self, text: impl Into<String>) {
        self.stmts.push(text.into());
    }
}

fn int_elems() -> [(Elem, &'static str); 8] {
    [
        (Elem::SInt, "SINT"),
        (Elem::Int, "INT"),
        (Elem::DInt, "DINT"),
        (Elem::LInt, "LINT"),
        (Elem::USInt, "USINT"),
        (Elem::UInt, "UINT"),
        (Elem::UDInt, "UDINT"),
        (Elem::ULInt, "ULINT"),
    ]
}

/// Generate the extension unit. `own_globals`: the unit may declare globals (a VAR_GLOBAL
/// block is printed by the caller inside a CONFIGURATION).
pub fn generate(
    r: &mut Reader,
    rs: &mut Reader,
    implicit: bool,
    open: Open,
    own_globals: bool,
) -> Ext {
    let mut x = Ext::default();
    let mut b = B {
        decls: vec![],
        retain_decls: vec![],
        ext_decls: vec![],
        stmts: vec![],
        late: vec![],
        vars: vec![],
    };
    let pk = |v: &str| -> LocKey { ("XExt".to_string(), v.to_string(), String::new()) };
    let mut pous = String::new();
    let allow = |x: &mut Ext, key: LocKey, tag: &str, finding: &str, retain: bool| {
        x.allowed.push(Allowed {
            key,
            tag: tag.into(),
            finding: finding.into(),
            retain,
        });
    };

    // ---------------------------------------------------------------- I/O bound variables
    let iot = io_types();
    let n_io = 1 + r.pick(6);
    let mut chosen: Vec<usize> = Vec::new();
    for _ in 0..n_io {
        let j = r.pick(iot.len());
        if !chosen.contains(&j) {
            chosen.push(j);
        }
    }
    for &j in &chosen {
        let t = &iot[j];
        let off = 8 * j;
        let (ia, qa, ma) = if t.size == 'X' {
            let bit = j % 8;
            (
                format!("%IX{off}.{bit}"),
                format!("%QX{off}.{bit}"),
                format!("%MX{off}.{bit}"),
            )
        } else {
            (
                format!("%I{}{off}", t.size),
                format!("%Q{}{off}", t.size),
                format!("%M{}{off}", t.size),
            )
        };
        b.at(&format!("xi{j}"), &ia, t.text, t.dty.clone());
        b.at(&format!("xo{j}"), &qa, t.text, t.dty.clone());
        b.var(&format!("xc{j}"), t.text, t.dty.clone(), None);
        b.s(format!("xo{j} := xi{j};"));
        b.s(format!("xc{j} := xi{j};"));
        if r.chance(1, 2) {
            b.at(&format!("xm{j}"), &ma, t.text, t.dty.clone());
            b.s(format!("xm{j} := xi{j};"));
        }
        x.inputs.push(IoIn {
            addr: ia,
            size: t.size,
            range: t.range, picks: vec![], });
        x.labels.push(format!("io:{}", t.text));
    }
    if open.enum_at {
        x.excluded
            .push(format!("{K_ENUM_AT} (no AT-bound enum variable)"));
    } else if r.chance(1, 3) {
        b.at("xien", "%IW300", "XCol", col());
        b.var("xcen", "XCol", col(), None);
        b.s("xcen := xien;");
        x.inputs.push(IoIn {
            addr: "%IW300".into(),
            size: 'W',
            range: Some((0, 2)), picks: vec![], });
    }
    if open.f25 {
        x.excluded
            .push(format!("{K_F25_IO} (input image values of subrange variables kept in range)"));
    }
    if r.chance(1, 3) {
        // array and struct bound as a whole
        b.at(
            "xia",
            "%IW200",
            "ARRAY[0..2] OF INT",
            DTy::Array {
                dims: vec![(0, 2)],
                elem: Box::new(DTy::Elem(Elem::Int)),
            },
        );
        b.var(
            "xca",
            "ARRAY[0..2] OF INT",
            DTy::Array {
                dims: vec![(0, 2)],
                elem: Box::new(DTy::Elem(Elem::Int)),
            },
            None,
        );
        b.s("xca := xia;");
        b.at("xis", "%IB220", "XSio", xsio());
        b.var("xcs", "XSio", xsio(), None);
        b.s("xcs := xis;");
        for a in ["%IW200", "%IW202", "%IW204", "%IW220"] {
            x.inputs.push(IoIn {
                addr: a.into(),
                size: 'W',
                range: None, picks: vec![], });
        }
        x.inputs.push(IoIn {
            addr: "%IB222".into(),
            size: 'B',
            range: None, picks: vec![], });
        x.inputs.push(IoIn {
            addr: "%ID223".into(),
            size: 'D',
            range: None, picks: vec![], });
        x.labels.push("io:composite".into());
    }
    if r.chance(1, 3) {
        pous.push_str(
            "FUNCTION_BLOCK XFbIo
VAR
  fin AT %IW240 : INT;
  fq AT %QW240 : INT;
  fu AT %IB244 : USINT;
  fc : INT;
  fcu : USINT;
END_VAR
  fq := fin;
  fc := fin;
  fcu := fu;
END_FUNCTION_BLOCK

",
        );
        x.pou_vars.push((
            "XFbIo".into(),
            vec![
                VarSpec {
                    name: "fin".into(),
                    ty: DTy::Elem(Elem::Int),
                    retain: false,
                },
                VarSpec {
                    name: "fq".into(),
                    ty: DTy::Elem(Elem::Int),
                    retain: false,
                },
                VarSpec {
                    name: "fu".into(),
                    ty: DTy::Elem(Elem::USInt),
                    retain: false,
                },
                VarSpec {
                    name: "fc".into(),
                    ty: DTy::Elem(Elem::Int),
                    retain: false,
                },
                VarSpec {
                    name: "fcu".into(),
                    ty: DTy::Elem(Elem::USInt),
                    retain: false,
                },
            ],
        ));
        b.var("xfbio", "XFbIo", DTy::Fb("XFbIo".into()), None);
        b.s("xfbio();");
        x.inputs.push(IoIn {
            addr: "%IW240".into(),
            size: 'W',
            range: None, picks: vec![], });
        x.inputs.push(IoIn {
            addr: "%IB244".into(),
            size: 'B',
            range: None, picks: vec![], });
        x.labels.push("io:fb-member".into());
    }

    // ---------------------------------------------------------------- initialisers
    // Untyped literals: the initialiser path must coerce them to the declared type.
    let inits: [(&str, &str, DTy, &str); 16] = [
        ("xe_bool", "BOOL", DTy::Elem(Elem::Bool), "TRUE"),
        ("xe_sint", "SINT", DTy::Elem(Elem::SInt), "-5"),
        ("xe_usint", "USINT", DTy::Elem(Elem::USInt), "200"),
        ("xe_int", "INT", DTy::Elem(Elem::Int), "300"),
        ("xe_uint", "UINT", DTy::Elem(Elem::UInt), "40000"),
        ("xe_dint", "DINT", DTy::Elem(Elem::DInt), "-70000"),
        ("xe_udint", "UDINT", DTy::Elem(Elem::UDInt), "70000"),
        ("xe_lint", "LINT", DTy::Elem(Elem::LInt), "5"),
        ("xe_ulint", "ULINT", DTy::Elem(Elem::ULInt), "7"),
        ("xe_real", "REAL", DTy::Elem(Elem::Real), "2"),
        ("xe_real2", "REAL", DTy::Elem(Elem::Real), "1.5"),
        ("xe_lreal", "LREAL", DTy::Elem(Elem::LReal), "3"),
        ("xe_lreal2", "LREAL", DTy::Elem(Elem::LReal), "REAL#2.5"),
        ("xe_byte", "BYTE", DTy::Bits(8), "255"),
        ("xe_word", "WORD", DTy::Bits(16), "1000"),
        ("xe_time", "TIME", DTy::Elem(Elem::Time), "T#5s"),
    ];
    let n_init = 2 + r.pick(inits.len() - 1);
    let start = r.pick(inits.len());
    for k in 0..n_init {
        let (n, t, d, i) = &inits[(start + k) % inits.len()];
        b.var(n, t, d.clone(), Some(i));
    }
    x.labels.push("init:untyped-literals".into());

    // ---------------------------------------------------------------- FOR loops
    b.var("xn", "DINT", DTy::Elem(Elem::DInt), None);
    b.var("xfs", "SINT", DTy::Elem(Elem::SInt), Some("3"));
    b.var("xfu", "USINT", DTy::Elem(Elem::USInt), Some("4"));
    let n_for = 1 + r.pick(4);
    let mut seen_for: Vec<usize> = Vec::new();
    for _ in 0..n_for {
        let j = r.pick(10);
        if seen_for.contains(&j) {
            continue;
        }
        seen_for.push(j);
        let (text, dty, e): (&str, DTy, Elem) = match j {
            8 => ("XPct", pct(), Elem::Int),
            9 => ("XMyInt", DTy::Elem(Elem::Int), Elem::Int),
            _ => {
                let (e, t) = int_elems()[j];
                (t, DTy::Elem(e), e)
            }
        };
        let k = format!("xk{j}");
        b.var(&k, text, dty, None);
        let (lo, hi) = e.int_range();
        let base = e.name();
        let pat = if j == 8 { r.pick(2) } else { r.pick(5) };
        let head = match pat {
            // untyped (DINT) bounds
            0 => format!("FOR {k} := 0 TO 3 DO"),
            1 => format!("FOR {k} := 1 TO 5 BY 2 DO"),
            // typed bounds next to the upper end of the type (ends exactly at the maximum)
            2 => {
                let top = hi.min(i64::MAX as i128);
                format!("FOR {k} := {base}#{} TO {base}#{} DO", top - 3, top - 1)
            }
            // downwards next to the lower end (signed) / upwards from 0 (unsigned)
            3 => {
                if e.is_signed_int() {
                    let bot = lo.max(i64::MIN as i128 + 1);
                    format!(
                        "FOR {k} := {base}#{} TO {base}#{} BY -1 DO",
                        bot + 3,
                        bot + 1
                    )
                } else {
                    format!("FOR {k} := {base}#0 TO {base}#2 DO")
                }
            }
            // bounds taken from variables
            // (the checker wants bounds of the control variable's own type: E201)
            _ => {
                if e == Elem::SInt && j == 0 {
                    format!("FOR {k} := xfs TO xfs + SINT#2 DO")
                } else if e == Elem::USInt {
                    format!("FOR {k} := xfu TO xfu + USINT#2 DO")
                } else if e.is_signed_int() {
                    format!("FOR {k} := 2 TO 0 BY -1 DO")
                } else {
                    format!("FOR {k} := 0 TO 0 DO")
                }
            }
        };
        b.s(format!("{head} xn := xn + DINT#1; END_FOR;"));
        x.labels.push(format!("for:{text}:pat{pat}"));
        // A second loop whose ONLY write to the control variable is the initial assignment
        // `control := start` (no increment follows): the start expression is an untyped (DINT)
        // literal - the only start/TO/BY type other than the control variable's own that the
        // checker accepts (E201) - so the FOR write path alone gives the value its tag.
        if r.chance(3, 4) {
            let kz = format!("xkz{j}");
            b.var(&kz, text, match j {
                8 => pct(),
                _ => DTy::Elem(e),
            }, None);
            let fw = r.pick(if e.is_signed_int() { 5 } else { 4 });
            match fw {
                // zero-trip upwards
                0 => b.s(format!("FOR {kz} := 10 TO 1 DO xn := xn + DINT#1; END_FOR;")),
                // EXIT in the first iteration
                1 => b.s(format!("FOR {kz} := 2 TO 5 DO EXIT; END_FOR;")),
                // the first-iteration value is copied into a variable of the same type
                2 => {
                    let kc = format!("xkc{j}");
                    b.var(&kc, text, match j {
                        8 => pct(),
                        _ => DTy::Elem(e),
                    }, None);
                    b.var(&format!("xkf{j}"), "BOOL", DTy::Elem(Elem::Bool), Some("TRUE"));
                    b.s(format!(
                        "FOR {kz} := 3 TO 4 DO IF xkf{j} THEN {kc} := {kz}; xkf{j} := FALSE; END_IF; END_FOR;"
                    ));
                }
                // zero-trip with an untyped TO and BY as well
                3 => b.s(format!("FOR {kz} := 7 TO 6 BY 2 DO xn := xn + DINT#1; END_FOR;")),
                // zero-trip downwards (signed control variables)
                _ => b.s(format!("FOR {kz} := 1 TO 10 BY -1 DO xn := xn + DINT#1; END_FOR;")),
            }
            x.labels.push(format!("for-first-write:{text}:{}", ["zero-trip", "exit", "copy", "zero-trip-by", "zero-trip-down"][fw]));
        }
    }
    // loops inside an FB: RETURN in the first iteration, zero-trip, and a loop that runs
    if r.chance(1, 2) {
        let fj = r.pick(8);
        let (fe, ft) = int_elems()[fj];
        pous.push_str(&format!(
            "FUNCTION_BLOCK XBfor
VAR
  k1 : {ft};
  k2 : {ft};
  k3 : XMyInt;
  n : DINT;
END_VAR
  FOR k2 := 9 TO 2 DO n := n + DINT#1; END_FOR;
  FOR k3 := 0 TO 2 DO n := n + DINT#1; END_FOR;
  FOR k1 := 1 TO 3 DO RETURN; END_FOR;
END_FUNCTION_BLOCK

"
        ));
        x.pou_vars.push((
            "XBfor".into(),
            vec![
                VarSpec { name: "k1".into(), ty: DTy::Elem(fe), retain: false },
                VarSpec { name: "k2".into(), ty: DTy::Elem(fe), retain: false },
                VarSpec { name: "k3".into(), ty: DTy::Elem(Elem::Int), retain: false },
                VarSpec { name: "n".into(), ty: DTy::Elem(Elem::DInt), retain: false },
            ],
        ));
        b.var("xbfor", "XBfor", DTy::Fb("XBfor".into()), None);
        b.s("xbfor();");
        x.labels.push(format!("for-first-write:{ft}:return-in-fb"));
    }

    // ---------------------------------------------------------------- declaration sites
    // Every place where a declaration initialiser can appear, with alias / subrange / enum
    // types and untyped literals: FB VAR_INPUT (left unassigned by the calls), FB VAR_OUTPUT,
    // FB member VAR, nested FB instance, struct field defaults, FUNCTION input defaults,
    // RETAIN, VAR_GLOBAL, a global FB instance, VAR_CONFIG. (VAR_IN_OUT cannot carry an
    // initialiser; array / struct initialiser lists are rejected by the lowering.)
    if r.chance(3, 4) {
        let dinit = !open.derived_init;
        if !dinit {
            x.excluded.push(format!(
                "{K_DINIT} (no initialiser on subrange / alias parameters and members)"
            ));
        }
        let di = |s: &str| if dinit { format!(" := {s}") } else { String::new() };
        pous.push_str(&format!(
            "FUNCTION_BLOCK XBin
VAR_INPUT
  lim : XPct{};
  w : UINT := 9;
END_VAR
VAR
  m : XTicks{};
END_VAR
  m := m;
END_FUNCTION_BLOCK

FUNCTION_BLOCK XBd
VAR_INPUT
  lim : XPct{};
  scale : XGain{};
  budget : XTicks{};
  ml : XMyLr{};
  e : XCol := XCol#XBlue;
  n : SINT := 5;
  u : ULINT := 70000;
  r : REAL := 3;
END_VAR
VAR_OUTPUT
  ob : XTicks{};
  op : XPct{};
  oc : XCol := XCol#XGreen;
  oi : INT := 11;
  orr : LREAL := 2;
END_VAR
VAR
  st : XPct{};
  lr : XMyLr{};
  sm : XSmall{};
  byt : BYTE := 200;
  sd : XSd;
  inner : XBin;
  cnt : DINT;
END_VAR
  cnt := cnt + DINT#1;
  inner();
END_FUNCTION_BLOCK

FUNCTION XFd : XPct
VAR_INPUT
  a : XPct := INT#50;
  g : XGain := REAL#2.0;
  t : XTicks := UDINT#4;
END_VAR
  XFd := a;
END_FUNCTION

",
            di("50"), di("9"),
            di("50"), di("2"), di("1000"), di("3"),
            di("1000"), di("7"),
            di("7"), di("3"), di("-4"),
        ));
        let v = |n: &str, ty: DTy| VarSpec { name: n.into(), ty, retain: false };
        x.pou_vars.push((
            "XBin".into(),
            vec![
                v("lim", pct()),
                v("w", DTy::Elem(Elem::UInt)),
                v("m", DTy::Elem(Elem::UDInt)),
            ],
        ));
        x.pou_vars.push((
            "XBd".into(),
            vec![
                v("lim", pct()),
                v("scale", DTy::Elem(Elem::Real)),
                v("budget", DTy::Elem(Elem::UDInt)),
                v("ml", DTy::Elem(Elem::LReal)),
                v("e", col()),
                v("n", DTy::Elem(Elem::SInt)),
                v("u", DTy::Elem(Elem::ULInt)),
                v("r", DTy::Elem(Elem::Real)),
                v("ob", DTy::Elem(Elem::UDInt)),
                v("op", pct()),
                v("oc", col()),
                v("oi", DTy::Elem(Elem::Int)),
                v("orr", DTy::Elem(Elem::LReal)),
                v("st", pct()),
                v("lr", DTy::Elem(Elem::LReal)),
                v("sm", small()),
                v("byt", DTy::Bits(8)),
                v("sd", xsd()),
                v("inner", DTy::Fb("XBin".into())),
                v("cnt", DTy::Elem(Elem::DInt)),
            ],
        ));
        b.var("xbd", "XBd", DTy::Fb("XBd".into()), None);
        b.var("xbd2", "XBd", DTy::Fb("XBd".into()), None);
        b.var("xsd", "XSd", xsd(), None);
        b.var("xsd2", "XSd", xsd(), None);
        b.var("xrfd", "XPct", pct(), None);
        // calls that leave inputs unassigned (they keep the declared initial value)
        match r.pick(3) {
            0 => b.s("xbd();"),
            1 => b.s("xbd(n := SINT#3);"),
            _ => b.s("xbd(lim := INT#20, e := XCol#XRed);"),
        }
        if r.flag() {
            b.s("xbd2(scale := REAL#1.5);");
        }
        b.s("xsd2 := xsd;");
        match r.pick(3) {
            0 => b.s("xrfd := XFd();"),
            1 => b.s("xrfd := XFd(g := REAL#1.0);"),
            _ => b.s("xrfd := XFd(a := INT#3);"),
        }
        b.retain("xrt_p", "XPct", pct(), if dinit { Some("33") } else { None });
        b.retain("xrt_g", "XGain", DTy::Elem(Elem::Real), if dinit { Some("2") } else { None });
        if own_globals {
            x.globals_text.push(format!("xg_pct : XPct{};", di("50")));
            x.globals_text.push(format!("xg_gain : XGain{};", di("2")));
            x.globals_text.push(format!("xg_ticks : XTicks{};", di("1000")));
            x.globals_text.push("xg_fb : XBd;".into());
            x.globals.push(v("xg_pct", pct()));
            x.globals.push(v("xg_gain", DTy::Elem(Elem::Real)));
            x.globals.push(v("xg_ticks", DTy::Elem(Elem::UDInt)));
            x.globals.push(v("xg_fb", DTy::Fb("XBd".into())));
            b.ext_decls.push("xg_fb : XBd;".into());
            b.ext_decls.push("xg_pct : XPct;".into());
            b.s("xg_fb(n := SINT#1);");
            b.s("xrfd := xg_pct;");
            // VAR_CONFIG initial values (re-applied by every restart)
            b.var("xvc_p", "XPct", pct(), None);
            b.var("xvc_r", "XGain", DTy::Elem(Elem::Real), None);
            b.var("xvc_i", "SINT", DTy::Elem(Elem::SInt), None);
            if dinit {
                x.config_text.push("XExt.xvc_p : XPct := 42;".into());
                x.config_text.push("XExt.xvc_r : XGain := 2;".into());
            }
            x.config_text.push("XExt.xvc_i : SINT := 6;".into());
        }
        if open.f8_arg && !implicit {
            x.excluded.push(format!(
                "{K_ARG} (FUNCTION input defaults are typed literals outside the implicit search)"
            ));
        }
        x.labels.push("decl-sites".into());
    }

    // ---------------------------------------------------------------- FUNCTION / FB parameters
    let ptypes: [(&str, DTy, &str); 10] = [
        ("SINT", DTy::Elem(Elem::SInt), "-3"),
        ("INT", DTy::Elem(Elem::Int), "1234"),
        ("DINT", DTy::Elem(Elem::DInt), "-99999"),
        ("LINT", DTy::Elem(Elem::LInt), "77"),
        ("USINT", DTy::Elem(Elem::USInt), "250"),
        ("UINT", DTy::Elem(Elem::UInt), "65000"),
        ("UDINT", DTy::Elem(Elem::UDInt), "3000000"),
        ("ULINT", DTy::Elem(Elem::ULInt), "9"),
        ("REAL", DTy::Elem(Elem::Real), "2"),
        ("LREAL", DTy::Elem(Elem::LReal), "0.25"),
    ];
    let n_p = r.pick(4);
    let mut seen_p: Vec<usize> = Vec::new();
    for _ in 0..n_p {
        let j = r.pick(ptypes.len());
        if seen_p.contains(&j) {
            continue;
        }
        seen_p.push(j);
        let (t, d, init) = &ptypes[j];
        pous.push_str(&format!(
            "FUNCTION XF{j} : {t}
VAR_INPUT
  a : {t};
END_VAR
VAR_OUTPUT
  o : {t};
END_VAR
VAR_IN_OUT
  io : {t};
END_VAR
VAR
  l : {t} := {init};
END_VAR
  o := a;
  io := a;
  XF{j} := a;
END_FUNCTION

FUNCTION_BLOCK XB{j}
VAR_INPUT
  i : {t};
  i2 : {t} := {init};
END_VAR
VAR_OUTPUT
  q : {t};
END_VAR
VAR_IN_OUT
  io : {t};
END_VAR
VAR
  s : {t};
  n : DINT;
END_VAR
  s := i;
  q := i2;
  io := i;
  n := n + DINT#1;
END_FUNCTION_BLOCK

"
        ));
        let v = |n: &str| VarSpec {
            name: n.into(),
            ty: d.clone(),
            retain: false,
        };
        x.pou_vars.push((
            format!("XB{j}"),
            vec![
                v("i"),
                v("i2"),
                v("q"),
                v("s"),
                VarSpec {
                    name: "n".into(),
                    ty: DTy::Elem(Elem::DInt),
                    retain: false,
                },
            ],
        ));
        b.var(&format!("xpa{j}"), t, d.clone(), Some(init));
        b.var(&format!("xpr{j}"), t, d.clone(), None);
        b.var(&format!("xpo{j}"), t, d.clone(), None);
        b.var(&format!("xpio{j}"), t, d.clone(), None);
        b.var(&format!("xpq{j}"), t, d.clone(), None);
        b.var(&format!("xb{j}"), &format!("XB{j}"), DTy::Fb(format!("XB{j}")), None);
        if r.flag() {
            b.s(format!(
                "xpr{j} := XF{j}(a := xpa{j}, o => xpo{j}, io := xpio{j});"
            ));
        } else {
            b.s(format!("xpr{j} := XF{j}(xpa{j}, xpo{j}, xpio{j});"));
        }
        if r.flag() {
            b.s(format!(
                "xb{j}(i := xpa{j}, q => xpq{j}, io := xpio{j});"
            ));
        } else {
            b.s(format!("xb{j}(i := xpr{j}, io := xpio{j});"));
            b.s(format!("xpq{j} := xb{j}.q;"));
        }
        x.labels.push(format!("params:{t}"));
    }

    // ---------------------------------------------------------------- derived types
    if r.chance(2, 3) {
        let dinit = !open.derived_init;
        if !dinit {
            x.excluded.push(format!(
                "{K_DINIT} (no initialiser on subrange / alias variables)"
            ));
        }
        b.var("xp", "XPct", pct(), if dinit { Some("50") } else { None });
        b.var("xp2", "XPct", pct(), None);
        b.var(
            "xmy",
            "XMyInt",
            DTy::Elem(Elem::Int),
            if dinit { Some("5") } else { None },
        );
        b.var("xmy2", "XMyInt", DTy::Elem(Elem::Int), None);
        b.var(
            "xmlr",
            "XMyLr",
            DTy::Elem(Elem::LReal),
            if dinit { Some("2") } else { None },
        );
        b.var("xsm", "XSmall", small(), None);
        b.var("xcol", "XCol", col(), Some("XCol#XGreen"));
        b.var("xcol2", "XCol", col(), None);
        b.var("xs", "XS", xs(), None);
        b.var("xs2", "XS", xs(), None);
        b.var(
            "xarr",
            "ARRAY[-1..1] OF UINT",
            DTy::Array {
                dims: vec![(-1, 1)],
                elem: Box::new(DTy::Elem(Elem::UInt)),
            },
            None,
        );
        b.var(
            "xarr2",
            "ARRAY[-1..1] OF UINT",
            DTy::Array {
                dims: vec![(-1, 1)],
                elem: Box::new(DTy::Elem(Elem::UInt)),
            },
            None,
        );
        b.var("xstr", "STRING[5]", DTy::Str { max: 5 }, Some("'ab'"));
        b.var("xstr3", "STRING[3]", DTy::Str { max: 3 }, Some("'xyz'"));
        let pv = [0, 1, 50, 99, 100][r.pick(5)];
        b.s(format!("xp2 := INT#{pv};"));
        b.s("xp := xp2;");
        b.s(format!("xmy := INT#{};", [-7, 0, 32767, -32768][r.pick(4)]));
        b.s("xmy2 := xmy;");
        b.s("xmlr := LREAL#1.25;");
        b.s(format!("xsm := SINT#{};", [-5, 0, 5][r.pick(3)]));
        b.s(format!(
            "xcol2 := XCol#{};",
            ["XRed", "XGreen", "XBlue"][r.pick(3)]
        ));
        b.s("xcol := xcol2;");
        b.s("xs.a := INT#3;");
        b.s("xs.u := USINT#200;");
        b.s("xs.r := REAL#0.5;");
        b.s(format!("xs.p := INT#{pv};"));
        b.s("xs.c := xcol;");
        b.s("xs2 := xs;");
        b.s(format!("xarr[{}] := UINT#9;", [-1, 0, 1][r.pick(3)]));
        b.s("xarr2 := xarr;");
        b.s("xstr := xstr3;");
        if r.flag() {
            b.s("xstr := 'hello';");
        }
        if open.str_len {
            x.excluded.push(format!(
                "{K_STRLEN} (no string longer than the target's declared length)"
            ));
        } else {
            b.s("xstr3 := xstr;");
        }
        if open.f25 {
            x.excluded.push(format!(
                "{K_F25_ASSIGN} (subrange variables only receive in-range values)"
            ));
        } else {
            b.s("xp := xp + INT#60;");
        }
        x.labels.push("derived-types".into());
    }

    // ---------------------------------------------------------------- RETAIN
    if r.chance(1, 2) {
        b.retain("xrt_i", "INT", DTy::Elem(Elem::Int), Some("7"));
        b.retain("xrt_r", "REAL", DTy::Elem(Elem::Real), Some("2"));
        b.retain("xrt_u", "UDINT", DTy::Elem(Elem::UDInt), None);
        b.s("xrt_i := xrt_i + INT#1;");
        b.s("xrt_r := xrt_r + REAL#0.5;");
        b.s("xrt_u := xrt_u + UDINT#3;");
        x.labels.push("retain".into());
        if implicit && open.f8_assign && r.flag() {
            b.retain("xrt_z", "INT", DTy::Elem(Elem::Int), Some("1"));
            b.s("xrt_z := xrt_z + 1;");
            allow(&mut x, pk("xrt_z"), "DINT", K_ASSIGN, true);
        }
    }

    // ---------------------------------------------------------------- debugger targets
    let dbg_specs: [(&str, &str, DTy, bool); 8] = [
        ("xd_lint", "LINT", DTy::Elem(Elem::LInt), false),
        ("xd_bool", "BOOL", DTy::Elem(Elem::Bool), false),
        ("xd_int", "INT", DTy::Elem(Elem::Int), true),
        ("xd_usint", "USINT", DTy::Elem(Elem::USInt), true),
        ("xd_real", "REAL", DTy::Elem(Elem::Real), true),
        ("xd_udint", "UDINT", DTy::Elem(Elem::UDInt), true),
        ("xd_pct", "XPct", pct(), true),
        ("xd_sint", "SINT", DTy::Elem(Elem::SInt), true),
    ];
    for (n, t, d, sink) in &dbg_specs {
        b.var(n, t, d.clone(), None);
        x.dbg.push(DbgTarget {
            path: vec!["XExt".into()],
            var: n.to_string(),
            key: pk(n),
            ty: d.clone(),
            sink: *sink,
        });
    }
    b.var("xd_l2", "LINT", DTy::Elem(Elem::LInt), None);
    b.var("xd_b2", "BOOL", DTy::Elem(Elem::Bool), None);
    b.s("xd_l2 := xd_lint;");
    b.s("xd_b2 := xd_bool;");
    if own_globals {
        let gl: [(&str, &str, DTy, Option<&str>, bool); 7] = [
            ("xg_lint", "LINT", DTy::Elem(Elem::LInt), Some("5"), false),
            ("xg_bool", "BOOL", DTy::Elem(Elem::Bool), None, false),
            ("xg_int", "INT", DTy::Elem(Elem::Int), Some("4"), true),
            ("xg_real", "REAL", DTy::Elem(Elem::Real), Some("2"), true),
            ("xg_sint", "SINT", DTy::Elem(Elem::SInt), None, true),
            ("xg_ulint", "ULINT", DTy::Elem(Elem::ULInt), Some("1"), true),
            ("xg_lreal", "LREAL", DTy::Elem(Elem::LReal), Some("1"), true),
        ];
        for (n, t, d, init, sink) in &gl {
            let i = init.map(|s| format!(" := {s}")).unwrap_or_default();
            x.globals_text.push(format!("{n} : {t}{i};"));
            x.globals.push(VarSpec {
                name: n.to_string(),
                ty: d.clone(),
                retain: false,
            });
            x.dbg.push(DbgTarget {
                path: vec![],
                var: n.to_string(),
                key: (String::new(), n.to_string(), String::new()),
                ty: d.clone(),
                sink: *sink,
            });
        }
        x.globals_text.push("xg_in AT %IW260 : INT;".into());
        x.globals_text.push("xg_out AT %QW260 : UINT;".into());
        x.globals.push(VarSpec {
            name: "xg_in".into(),
            ty: DTy::Elem(Elem::Int),
            retain: false,
        });
        x.globals.push(VarSpec {
            name: "xg_out".into(),
            ty: DTy::Elem(Elem::UInt),
            retain: false,
        });
        x.inputs.push(IoIn {
            addr: "%IW260".into(),
            size: 'W',
            range: None, picks: vec![], });
        b.ext_decls.push("xg_lint : LINT;".into());
        b.ext_decls.push("xg_bool : BOOL;".into());
        b.ext_decls.push("xg_in : INT;".into());
        b.ext_decls.push("xg_out : UINT;".into());
        b.var("xcg", "INT", DTy::Elem(Elem::Int), None);
        b.s("xg_lint := xg_lint + LINT#1;");
        b.s("xd_b2 := xd_b2 OR xg_bool;");
        b.s("xcg := xg_in;");
        b.s("xg_out := UINT#17;");
        x.labels.push("globals".into());
    }

    // ---------------------------------------------------------------- F8 shapes (implicit mode)
    if implicit {
        b.var("xzi", "INT", DTy::Elem(Elem::Int), Some("7"));
        b.var("xzr", "REAL", DTy::Elem(Elem::Real), Some("1.5"));
        b.var("xzus", "USINT", DTy::Elem(Elem::USInt), Some("3"));
        if open.f8_assign {
            let shapes: [(&str, &str, DTy, &str, &str); 8] = [
                ("xz1", "INT", DTy::Elem(Elem::Int), "xz1 := xz1 + 1;", "DINT"),
                ("xz2", "REAL", DTy::Elem(Elem::Real), "xz2 := xzi;", "INT"),
                ("xz3", "SINT", DTy::Elem(Elem::SInt), "xz3 := 5;", "DINT"),
                ("xz4", "LREAL", DTy::Elem(Elem::LReal), "xz4 := xzr;", "REAL"),
                ("xz5", "LINT", DTy::Elem(Elem::LInt), "xz5 := xzi;", "INT"),
                ("xz8", "UINT", DTy::Elem(Elem::UInt), "xz8 := xzus;", "USINT"),
                ("xz10", "REAL", DTy::Elem(Elem::Real), "xz10 := 2.5;", "LREAL"),
                (
                    "xz11",
                    "DINT",
                    DTy::Elem(Elem::DInt),
                    "xz11 := xzi * xzi;",
                    "INT",
                ),
            ];
            for (n, t, d, st, tag) in &shapes {
                if r.chance(1, 2) {
                    b.var(n, t, d.clone(), None);
                    b.s(*st);
                    allow(&mut x, pk(n), tag, K_ASSIGN, false);
                    x.labels.push(format!("f8:assign:{t}<-{tag}"));
                }
            }
            if r.chance(1, 2) {
                b.var("xzs", "XSio", xsio(), None);
                b.var(
                    "xza",
                    "ARRAY[0..2] OF SINT",
                    DTy::Array {
                        dims: vec![(0, 2)],
                        elem: Box::new(DTy::Elem(Elem::SInt)),
                    },
                    None,
                );
                b.s("xzs.a := 5;");
                b.s("xza[1] := 5;");
                allow(
                    &mut x,
                    ("XExt".into(), "xzs".into(), ".a".into()),
                    "DINT",
                    K_ASSIGN,
                    false,
                );
                allow(
                    &mut x,
                    ("XExt".into(), "xza".into(), "[]".into()),
                    "DINT",
                    K_ASSIGN,
                    false,
                );
                x.labels.push("f8:assign:field+element".into());
            }
        } else {
            x.excluded.push(format!("{K_ASSIGN} fixed: shapes join the clean set"));
        }
        if open.f8_arg && r.chance(1, 2) {
            pous.push_str(
                "FUNCTION XFz : SINT
VAR_INPUT
  a : SINT;
END_VAR
  XFz := a;
END_FUNCTION

FUNCTION_BLOCK XBz
VAR_INPUT
  i : SINT;
  w : LINT;
END_VAR
VAR_OUTPUT
  q : SINT;
END_VAR
VAR
  s : SINT;
END_VAR
  s := i;
  q := i;
END_FUNCTION_BLOCK

",
            );
            let v = |n: &str, e: Elem| VarSpec {
                name: n.into(),
                ty: DTy::Elem(e),
                retain: false,
            };
            x.pou_vars.push((
                "XBz".into(),
                vec![
                    v("i", Elem::SInt),
                    v("w", Elem::LInt),
                    v("q", Elem::SInt),
                    v("s", Elem::SInt),
                ],
            ));
            b.var("xbz", "XBz", DTy::Fb("XBz".into()), None);
            b.var("xz6", "SINT", DTy::Elem(Elem::SInt), None);
            b.var("xz7", "SINT", DTy::Elem(Elem::SInt), None);
            b.s("xbz(i := 5, w := xzi, q => xz6);");
            b.s("xz7 := XFz(5);");
            let fk = |v: &str| -> LocKey { ("XBz".to_string(), v.to_string(), String::new()) };
            allow(&mut x, fk("i"), "DINT", K_ARG, false);
            allow(&mut x, fk("w"), "INT", K_ARG, false);
            allow(&mut x, fk("s"), "DINT", K_ASSIGN, false);
            allow(&mut x, fk("q"), "DINT", K_ASSIGN, false);
            allow(&mut x, pk("xz6"), "DINT", K_OUT, false);
            allow(&mut x, pk("xz7"), "DINT", K_ASSIGN, false);
            x.labels.push("f8:binding".into());
        }
        if open.f8_arg && r.chance(1, 2) {
            pous.push_str(
                "FUNCTION XFdz : INT
VAR_INPUT
  a : INT := 50;
END_VAR
  XFdz := a;
END_FUNCTION

",
            );
            b.var("xz12", "INT", DTy::Elem(Elem::Int), None);
            b.s("xz12 := XFdz();");
            allow(&mut x, pk("xz12"), "DINT", K_ARG, false);
            x.labels.push("f8:param-default".into());
        }
        if open.f8_out && r.chance(1, 3) {
            pous.push_str(
                "FUNCTION_BLOCK XBo
VAR_OUTPUT
  q : INT;
END_VAR
  q := INT#11;
END_FUNCTION_BLOCK

",
            );
            x.pou_vars.push((
                "XBo".into(),
                vec![VarSpec {
                    name: "q".into(),
                    ty: DTy::Elem(Elem::Int),
                    retain: false,
                }],
            ));
            b.var("xbo", "XBo", DTy::Fb("XBo".into()), None);
            b.var("xz9", "DINT", DTy::Elem(Elem::DInt), None);
            b.s("xbo(q => xz9);");
            allow(&mut x, pk("xz9"), "INT", K_OUT, false);
            x.labels.push("f8:output-widening".into());
        }
    } else {
        x.excluded
            .push("F8 implicit conversions at assignment / binding (clean mode: every case)".into());
    }

    // ---------------------------------------------------------------- standard functions
    // (own tape: the block does not depend on how much the rest of the unit consumed)
    stdfn::generate(rs, &mut b, &mut x);

    // ---------------------------------------------------------------- print XExt
    let mut p = String::new();
    p.push_str("PROGRAM XExt\n");
    if !b.ext_decls.is_empty() {
        p.push_str("VAR_EXTERNAL\n");
        for d in &b.ext_decls {
            p.push_str(&format!("  {d}\n"));
        }
        p.push_str("END_VAR\n");
    }
    p.push_str("VAR\n");
    for d in &b.decls {
        p.push_str(&format!("  {d}\n"));
    }
    p.push_str("END_VAR\n");
    if !b.retain_decls.is_empty() {
        p.push_str("VAR RETAIN\n");
        for d in &b.retain_decls {
            p.push_str(&format!("  {d}\n"));
        }
        p.push_str("END_VAR\n");
    }
    for s in b.stmts.iter().chain(b.late.iter()) {
        p.push_str(&format!("  {s}\n"));
    }
    p.push_str("END_PROGRAM\n");
    pous.push_str(&p);
    x.types = TYPES.to_string();
    x.pous = pous;
    x.pou_vars.push(("XExt".into(), b.vars));
    x
}
