//! Program corpus for C11: hand-written programs (stable names, used by replay files)
//! plus every `.st` file / project directory / Markdown code block under the repository
//! that compiles to a bytecode container.

use std::path::{Path, PathBuf};
use std::sync::OnceLock;

use trust_runtime::bytecode::BytecodeModule;
use trust_runtime::harness::{CompileSession, SourceFile};

/// Hand-written programs. Names are stable: replay files refer to them.
pub const HAND: &[(&str, &str)] = &[
    (
        "hand/counter",
        r#"
PROGRAM Main
VAR
    counter : INT := 0;
END_VAR
counter := counter + 1;
END_PROGRAM
"#,
    ),
    (
        "hand/task_interval",
        r#"
PROGRAM Main
VAR
    counter : INT := 0;
END_VAR
counter := counter + 1;
END_PROGRAM

CONFIGURATION C
RESOURCE R ON CPU
TASK T (INTERVAL := T#10ms, PRIORITY := 0);
PROGRAM Main WITH T : Main;
END_RESOURCE
END_CONFIGURATION
"#,
    ),
    (
        "hand/two_tasks_single",
        r#"
PROGRAM Fast
VAR
    n : DINT;
END_VAR
n := n + 1;
END_PROGRAM

PROGRAM Slow
VAR
    m : DINT;
    flag : BOOL;
END_VAR
m := m + 2;
flag := NOT flag;
END_PROGRAM

PROGRAM Evt
VAR
    hits : DINT;
END_VAR
hits := hits + 1;
END_PROGRAM

CONFIGURATION C
VAR_GLOBAL
    trigger : BOOL := FALSE;
    g_total : DINT := 5;
END_VAR
RESOURCE R ON CPU
TASK TFast (INTERVAL := T#1ms, PRIORITY := 1);
TASK TEvent (SINGLE := trigger, PRIORITY := 0);
TASK TSlow (INTERVAL := T#100ms, PRIORITY := 5);
PROGRAM P1 WITH TFast : Fast;
PROGRAM P2 WITH TSlow : Slow;
PROGRAM P3 WITH TEvent : Evt;
END_RESOURCE
END_CONFIGURATION
"#,
    ),
    (
        "hand/fb_task",
        r#"
FUNCTION_BLOCK FB
VAR_INPUT
    IN : BOOL;
END_VAR
VAR_OUTPUT
    OUT : BOOL;
END_VAR
VAR
    n : INT;
END_VAR
OUT := IN;
n := n + 1;
END_FUNCTION_BLOCK

PROGRAM P
VAR
    fb : FB;
    other : FB;
END_VAR
fb(IN := TRUE);
END_PROGRAM

CONFIGURATION C
RESOURCE R ON CPU
TASK T (INTERVAL := T#10ms, PRIORITY := 0);
TASK T2 (INTERVAL := T#20ms, PRIORITY := 1);
PROGRAM P1 WITH T : P (other WITH T2);
END_RESOURCE
END_CONFIGURATION
"#,
    ),
    (
        "hand/io_bindings",
        r#"
PROGRAM Main
VAR
    start AT %IX0.0 : BOOL;
    stop AT %IX0.1 : BOOL;
    level AT %IW2 : INT;
    motor AT %QX0.0 : BOOL;
    speed AT %QW2 : INT;
    marker AT %MW4 : INT;
END_VAR
motor := start AND NOT stop;
speed := level + 1;
marker := marker + 1;
END_PROGRAM

CONFIGURATION C
RESOURCE R ON CPU
TASK T (INTERVAL := T#10ms, PRIORITY := 0);
PROGRAM Main WITH T : Main;
END_RESOURCE
END_CONFIGURATION
"#,
    ),
    (
        "hand/io_globals",
        r#"
PROGRAM Main
VAR_EXTERNAL
    g_in : BOOL;
    g_out : BOOL;
    g_word : WORD;
END_VAR
g_out := g_in;
END_PROGRAM

CONFIGURATION C
VAR_GLOBAL
    g_in AT %IX1.0 : BOOL;
    g_out AT %QX1.0 : BOOL;
    g_word AT %QW4 : WORD;
END_VAR
RESOURCE R ON CPU
TASK T (INTERVAL := T#5ms, PRIORITY := 0);
PROGRAM Main WITH T : Main;
END_RESOURCE
END_CONFIGURATION
"#,
    ),
    (
        "hand/retain",
        r#"
PROGRAM Main
VAR RETAIN
    kept : DINT := 3;
END_VAR
VAR
    plain : DINT;
END_VAR
kept := kept + 1;
plain := kept;
END_PROGRAM

CONFIGURATION C
RESOURCE R ON CPU
VAR_GLOBAL RETAIN
    g_count : INT := INT#7;
    g_text : STRING[10] := 'abc';
END_VAR
VAR_GLOBAL
    g_plain : REAL := 1.5;
END_VAR
TASK T (INTERVAL := T#10ms, PRIORITY := 0);
PROGRAM Main WITH T : Main;
END_RESOURCE
END_CONFIGURATION
"#,
    ),
    (
        "hand/types",
        r#"
TYPE
    MySubrange : INT(0..10);
    MyAlias : INT;
    MyArray : ARRAY[1..3] OF INT;
    MyMatrix : ARRAY[0..1, -1..1] OF DINT;
    MyStruct : STRUCT
        a : INT;
        b : BOOL;
        c : ARRAY[0..2] OF REAL;
    END_STRUCT;
    MyUnion : UNION
        u1 : INT;
        u2 : BOOL;
    END_UNION;
    MyEnum : (Red := 1, Green := 2, Blue := 3) INT;
    MyRef : REF_TO INT;
    Nested : STRUCT
        inner : MyStruct;
        list : ARRAY[0..1] OF MyStruct;
        colour : MyEnum;
    END_STRUCT;
END_TYPE

PROGRAM Main
VAR
    sr : MySubrange := 3;
    al : MyAlias := 4;
    arr : MyArray;
    mat : MyMatrix;
    st : MyStruct;
    un : MyUnion;
    enum_val : MyEnum := MyEnum#Green;
    rf : MyRef;
    nested : Nested;
    i : INT;
END_VAR
arr[2] := arr[1] + al;
st.a := arr[2];
mat[1, 0] := 5;
i := nested.inner.a;
IF enum_val = MyEnum#Green THEN
    enum_val := MyEnum#Blue;
END_IF;
FOR i := 1 TO 3 DO
    arr[i] := i;
END_FOR;
END_PROGRAM
"#,
    ),
    (
        "hand/const_pool",
        r#"
TYPE
    Pt : STRUCT
        x : INT;
        y : INT;
    END_STRUCT;
    Mode : (Idle := 0, Run := 1, Halt := 2);
END_TYPE

FUNCTION Scale : DINT
VAR_INPUT
    x : DINT := DINT#5;
    k : DINT := DINT#3;
    enabled : BOOL := TRUE;
    r : REAL := 2.5;
    t : TIME := T#250ms;
END_VAR
Scale := x * k;
END_FUNCTION

PROGRAM Main
VAR
    b : BOOL := TRUE;
    si : SINT := -5;
    i : INT := 1234;
    di : DINT := -70000;
    li : LINT := LINT#5000000000;
    usi : USINT := 200;
    ui : UINT := 60000;
    udi : UDINT := UDINT#4000000000;
    uli : ULINT := 9;
    r : REAL := 1.25;
    lr : LREAL := 2.5E10;
    byt : BYTE := 16#7F;
    w : WORD := 16#ABCD;
    dw : DWORD := DWORD#16#DEADBEEF;
    lw : LWORD := 16#1;
    t : TIME := T#1s500ms;
    dv : DATE := D#2024-01-02;
    todv : TOD := TOD#12:34:56;
    dtv : DT := DT#2024-01-02-03:04:05;
    s : STRING[20];
    ws : WSTRING[10];
    p : Pt;
    a : ARRAY[0..3] OF INT;
    m : Mode := Mode#Run;
    out : DINT;
END_VAR
out := Scale(x := di, k := 2) + Scale();
IF t > T#1s THEN
    i := i + 1;
END_IF;
END_PROGRAM
"#,
    ),
    (
        "hand/control_flow",
        r#"
FUNCTION Clamp : INT
VAR_INPUT
    v : INT;
    lo : INT;
    hi : INT;
END_VAR
IF v < lo THEN
    Clamp := lo;
ELSIF v > hi THEN
    Clamp := hi;
ELSE
    Clamp := v;
END_IF;
END_FUNCTION

PROGRAM Main
VAR
    i : INT;
    j : INT;
    acc : DINT;
    sel : INT := 2;
    done : BOOL;
END_VAR
FOR i := 0 TO 9 BY 2 DO
    acc := acc + i;
    IF acc > 100 THEN
        EXIT;
    END_IF;
END_FOR;
j := 0;
WHILE j < 5 DO
    j := j + 1;
    IF j = 3 THEN
        CONTINUE;
    END_IF;
    acc := acc + 1;
END_WHILE;
REPEAT
    j := j - 1;
UNTIL j <= 0
END_REPEAT;
CASE sel OF
    1: acc := 1;
    2, 3: acc := acc + 2;
    4..6: acc := 0;
ELSE
    acc := -1;
END_CASE;
sel := Clamp(v := sel + 1, lo := 0, hi := 6);
done := (acc > 0) AND NOT (sel = 3) OR (i MOD 2 = 0);
END_PROGRAM
"#,
    ),
    (
        "hand/classes",
        r#"
CLASS Base
VAR
    total : INT;
END_VAR
METHOD PUBLIC Foo : INT
Foo := INT#1;
END_METHOD
METHOD PUBLIC Add : INT
VAR_INPUT
    x : INT;
END_VAR
total := total + x;
Add := total;
END_METHOD
END_CLASS

CLASS Derived EXTENDS Base
METHOD PUBLIC OVERRIDE Foo : INT
Foo := INT#2;
END_METHOD
METHOD PUBLIC Bar : INT
VAR
    temp : INT;
END_VAR
temp := 3;
Bar := temp;
END_METHOD
END_CLASS

PROGRAM Main
VAR
    obj : Derived;
    base : Base;
    r : INT;
END_VAR
r := obj.Foo() + obj.Bar() + base.Add(x := 4);
END_PROGRAM
"#,
    ),
    (
        "hand/interfaces",
        r#"
INTERFACE IBase
METHOD Foo : INT
END_METHOD
END_INTERFACE

INTERFACE IDerived EXTENDS IBase
METHOD Bar : INT
END_METHOD
END_INTERFACE

CLASS Impl IMPLEMENTS IDerived
METHOD PUBLIC Foo : INT
Foo := INT#1;
END_METHOD
METHOD PUBLIC Bar : INT
Bar := INT#2;
END_METHOD
END_CLASS

FUNCTION_BLOCK FbImpl IMPLEMENTS IBase
VAR
    calls : INT;
END_VAR
METHOD PUBLIC Foo : INT
calls := calls + 1;
Foo := calls;
END_METHOD
END_FUNCTION_BLOCK

PROGRAM Main
VAR
    i : IDerived;
    b : IBase;
    c : Impl;
    f : FbImpl;
    r : INT;
END_VAR
i := c;
b := f;
r := i.Foo() + i.Bar() + b.Foo();
END_PROGRAM
"#,
    ),
    (
        "hand/fb_methods_timers",
        r#"
FUNCTION_BLOCK Blinker
VAR_INPUT
    enable : BOOL;
    period : TIME := T#100ms;
END_VAR
VAR_OUTPUT
    q : BOOL;
END_VAR
VAR
    t : TON;
    edges : CTU;
    trig : R_TRIG;
END_VAR
METHOD PUBLIC Reset : BOOL
q := FALSE;
Reset := TRUE;
END_METHOD
t(IN := enable AND NOT t.Q, PT := period);
trig(CLK := t.Q);
edges(CU := trig.Q, R := FALSE, PV := 10);
IF t.Q THEN
    q := NOT q;
END_IF;
END_FUNCTION_BLOCK

PROGRAM Main
VAR
    blink : Blinker;
    lamps : ARRAY[0..1] OF Blinker;
    lamp AT %QX0.0 : BOOL;
    ok : BOOL;
END_VAR
blink(enable := TRUE, period := T#50ms);
lamps[1](enable := blink.q);
lamp := blink.q;
ok := blink.Reset();
END_PROGRAM

CONFIGURATION C
RESOURCE R ON CPU
TASK T (INTERVAL := T#10ms, PRIORITY := 0);
PROGRAM Main WITH T : Main;
END_RESOURCE
END_CONFIGURATION
"#,
    ),
    (
        "hand/namespaces_globals",
        r#"
NAMESPACE Lib
FUNCTION Twice : INT
VAR_INPUT
    x : INT;
END_VAR
Twice := x * 2;
END_FUNCTION
END_NAMESPACE

PROGRAM Main
VAR_EXTERNAL
    g_a : INT;
    g_arr : ARRAY[0..2] OF INT;
END_VAR
VAR
    y : INT;
END_VAR
VAR_TEMP
    tmp : INT;
END_VAR
tmp := Lib.Twice(x := g_a);
g_arr[1] := tmp;
y := tmp;
END_PROGRAM

CONFIGURATION C
VAR_GLOBAL
    g_a : INT := 21;
    g_arr : ARRAY[0..2] OF INT;
END_VAR
VAR_GLOBAL CONSTANT
    g_k : INT := 9;
END_VAR
RESOURCE R ON CPU
TASK T (INTERVAL := T#10ms, PRIORITY := 0);
PROGRAM Main WITH T : Main;
END_RESOURCE
END_CONFIGURATION
"#,
    ),
    (
        "hand/empty",
        r#"
PROGRAM Main
END_PROGRAM
"#,
    ),
    (
        "hand/two_resources",
        r#"
PROGRAM A
VAR
    n : INT;
END_VAR
n := n + 1;
END_PROGRAM

PROGRAM B
VAR
    m : INT;
    x AT %IX0.0 : BOOL;
END_VAR
m := m + 1;
END_PROGRAM

CONFIGURATION C
RESOURCE R1 ON CPU
TASK T1 (INTERVAL := T#10ms, PRIORITY := 0);
PROGRAM PA WITH T1 : A;
END_RESOURCE
RESOURCE R2 ON CPU
TASK T2 (INTERVAL := T#20ms, PRIORITY := 1);
PROGRAM PB WITH T2 : B;
END_RESOURCE
END_CONFIGURATION
"#,
    ),
];

pub struct Prog {
    pub name: String,
    pub sources: Vec<(Option<String>, String)>,
    pub bytes: Vec<u8>,
    pub module: BytecodeModule,
}

impl Prog {
    pub fn session(&self) -> CompileSession {
        session_for(&self.sources)
    }
}

pub fn session_for(sources: &[(Option<String>, String)]) -> CompileSession {
    let files: Vec<SourceFile> = sources
        .iter()
        .map(|(path, text)| match path {
            Some(p) => SourceFile::with_path(p.clone(), text.clone()),
            None => SourceFile::new(text.clone()),
        })
        .collect();
    CompileSession::from_sources(files)
}

/// A candidate that did not make it into the corpus, and why (first line of the error).
pub struct Rejected {
    pub name: String,
    pub stage: &'static str,
    pub why: String,
}

pub struct Corpus {
    pub progs: Vec<Prog>,
    pub rejected: Vec<Rejected>,
    pub candidates: usize,
}

impl Corpus {
    pub fn find(&self, name: &str) -> Option<&Prog> {
        self.progs.iter().find(|p| p.name == name)
    }
    pub fn hand_count(&self) -> usize {
        self.progs.iter().filter(|p| p.name.starts_with("hand/")).count()
    }
}

fn walk(dir: &Path, st: &mut Vec<PathBuf>, md: &mut Vec<PathBuf>, rs: &mut Vec<PathBuf>) {
    let Ok(rd) = std::fs::read_dir(dir) else {
        return;
    };
    let mut entries: Vec<_> = rd.flatten().map(|e| e.path()).collect();
    entries.sort();
    for p in entries {
        let name = p.file_name().and_then(|n| n.to_str()).unwrap_or("");
        if name == "target" || name == ".git" || name == "node_modules" {
            continue;
        }
        let Ok(meta) = std::fs::symlink_metadata(&p) else {
            continue;
        };
        if meta.file_type().is_symlink() {
            continue;
        }
        if meta.is_dir() {
            walk(&p, st, md, rs);
        } else if name.ends_with(".st") || name.ends_with(".ST") {
            st.push(p);
        } else if name.ends_with(".md") {
            md.push(p);
        } else if name.ends_with(".rs") && p.components().any(|c| c.as_os_str() == "tests") {
            rs.push(p);
        }
    }
}

/// Fenced code blocks of a Markdown file that look like complete ST compilation units.
fn md_blocks(text: &str) -> Vec<String> {
    let mut out = Vec::new();
    let mut cur: Option<String> = None;
    for line in text.lines() {
        let t = line.trim_start();
        if t.starts_with("```") {
            match cur.take() {
                Some(block) => {
                    if looks_like_unit(&block) {
                        out.push(block);
                    }
                }
                None => cur = Some(String::new()),
            }
        } else if let Some(b) = cur.as_mut() {
            b.push_str(line);
            b.push('\n');
        }
    }
    out
}

fn looks_like_unit(block: &str) -> bool {
    let up = block.to_ascii_uppercase();
    up.contains("END_PROGRAM")
        || up.contains("END_FUNCTION")
        || up.contains("END_TYPE")
        || up.contains("END_CLASS")
        || up.contains("END_CONFIGURATION")
}

/// Raw string literals (`r#"..."#`) of a Rust test file that look like ST compilation units.
fn rs_blocks(text: &str) -> Vec<String> {
    let mut out = Vec::new();
    let mut rest = text;
    while let Some(start) = rest.find("r#\"") {
        let after = &rest[start + 3..];
        let Some(end) = after.find("\"#") else {
            break;
        };
        let block = &after[..end];
        if looks_like_unit(block) {
            out.push(block.to_string());
        }
        rest = &after[end + 2..];
    }
    out
}

/// Clock steps before the three cycles that follow an apply.
pub const CYCLE_STEPS_NANOS: &[i64] = &[0, 1_000_000, 1_000_000_000];

const STUB_PROGRAM: &str = "\nPROGRAM C11StubProgram\nEND_PROGRAM\n";

const MAX_SOURCE_BYTES: usize = 200_000;
const MAX_CONTAINER_BYTES: usize = 400_000;

/// One candidate -> Prog or Rejected. A panic inside the compiler is not this property's
/// business (C01/C05 own the front end); it is recorded as rejected.
fn try_candidate(name: String, sources: Vec<(Option<String>, String)>) -> Result<Prog, Rejected> {
    match try_candidate_once(name.clone(), sources.clone()) {
        Err(r) if r.why.contains("missing PROGRAM declaration") => {
            // a library/type-only unit: add an empty program so that the encoder accepts it
            let mut with_stub = sources;
            with_stub.push((
                with_stub[0].0.as_ref().map(|_| "c11_stub_program.st".to_string()),
                STUB_PROGRAM.to_string(),
            ));
            try_candidate_once(format!("{name}+stub"), with_stub)
        }
        other => other,
    }
}

fn try_candidate_once(
    name: String,
    sources: Vec<(Option<String>, String)>,
) -> Result<Prog, Rejected> {
    let total: usize = sources.iter().map(|(_, s)| s.len()).sum();
    if total > MAX_SOURCE_BYTES {
        return Err(Rejected {
            name,
            stage: "size",
            why: format!("{total} source bytes"),
        });
    }
    let session = session_for(&sources);
    let module = match crate::engine::catch(|| session.build_bytecode_module()) {
        Ok(Ok(m)) => m,
        Ok(Err(e)) => {
            return Err(Rejected {
                name,
                stage: "compile",
                why: e.to_string().lines().next().unwrap_or("").to_string(),
            })
        }
        Err(p) => {
            return Err(Rejected {
                name,
                stage: "compile-panic",
                why: p,
            })
        }
    };
    let bytes = match module.encode() {
        Ok(b) => b,
        Err(e) => {
            return Err(Rejected {
                name,
                stage: "encode",
                why: e.to_string(),
            })
        }
    };
    if bytes.len() > MAX_CONTAINER_BYTES {
        return Err(Rejected {
            name,
            stage: "size",
            why: format!("{} container bytes", bytes.len()),
        });
    }
    // The apply oracle runs cycles of this program; a program whose cycle does not end
    // (e.g. `WHILE TRUE` in a parser test) cannot be used. The runtime's execution deadline
    // turns the endless loop into a fault; such programs are left out of the corpus.
    match crate::engine::catch(|| {
        let mut rt = session.build_runtime().ok()?;
        let t0 = std::time::Instant::now();
        rt.set_execution_deadline(Some(t0 + std::time::Duration::from_millis(500)));
        // the same schedule the apply oracle uses
        let _ = rt.execute_cycle();
        for step in CYCLE_STEPS_NANOS {
            rt.advance_time(trust_runtime::value::Duration::from_nanos(*step));
            let _ = rt.execute_cycle();
        }
        Some(t0.elapsed())
    }) {
        Ok(Some(dt)) if dt < std::time::Duration::from_millis(250) => {}
        Ok(Some(dt)) => {
            return Err(Rejected {
                name,
                stage: "slow-cycle",
                why: format!("four cycles took {} ms", dt.as_millis()),
            })
        }
        Ok(None) => {
            return Err(Rejected {
                name,
                stage: "runtime",
                why: "build_runtime failed".into(),
            })
        }
        Err(p) => {
            return Err(Rejected {
                name,
                stage: "cycle-panic",
                why: p,
            })
        }
    }
    Ok(Prog {
        name,
        sources,
        bytes,
        module,
    })
}

fn build_corpus() -> Corpus {
    let root = crate::engine::repo_root();
    let mut candidates: Vec<(String, Vec<(Option<String>, String)>)> = Vec::new();
    for (name, src) in HAND {
        candidates.push((name.to_string(), vec![(None, src.to_string())]));
    }
    let mut st = Vec::new();
    let mut md = Vec::new();
    let mut rs = Vec::new();
    walk(&root, &mut st, &mut md, &mut rs);
    let rel = |p: &Path| {
        p.strip_prefix(&root)
            .unwrap_or(p)
            .to_string_lossy()
            .to_string()
    };
    // single files
    let mut by_dir: std::collections::BTreeMap<PathBuf, Vec<(String, String)>> = Default::default();
    for p in &st {
        let Ok(text) = std::fs::read_to_string(p) else {
            continue;
        };
        let r = rel(p);
        candidates.push((format!("file/{r}"), vec![(Some(r.clone()), text.clone())]));
        if let Some(dir) = p.parent() {
            by_dir.entry(dir.to_path_buf()).or_default().push((r, text));
        }
    }
    // project directories (all .st files of one directory compiled together)
    for (dir, files) in by_dir {
        if files.len() < 2 {
            continue;
        }
        let sources = files
            .into_iter()
            .map(|(r, t)| (Some(r), t))
            .collect::<Vec<_>>();
        candidates.push((format!("dir/{}", rel(&dir)), sources));
    }
    // Markdown code blocks
    for p in &md {
        let Ok(text) = std::fs::read_to_string(p) else {
            continue;
        };
        for (i, block) in md_blocks(&text).into_iter().enumerate() {
            candidates.push((format!("md/{}#{i}", rel(p)), vec![(None, block)]));
        }
    }
    // ST sources embedded in the repository's Rust tests
    for p in &rs {
        let Ok(text) = std::fs::read_to_string(p) else {
            continue;
        };
        for (i, block) in rs_blocks(&text).into_iter().enumerate() {
            candidates.push((format!("rs/{}#{i}", rel(p)), vec![(None, block)]));
        }
    }
    let n = candidates.len();
    let mut progs = Vec::new();
    let mut rejected = Vec::new();
    let mut seen = std::collections::HashSet::new();
    for (name, sources) in candidates {
        match try_candidate(name, sources) {
            Ok(p) => {
                // identical containers add nothing to the mutation corpus
                if seen.insert(crate::engine::digest64(&p.bytes)) || p.name.starts_with("hand/") {
                    progs.push(p);
                } else {
                    rejected.push(Rejected {
                        name: p.name,
                        stage: "duplicate",
                        why: "same container bytes as an earlier program".into(),
                    });
                }
            }
            Err(r) => rejected.push(r),
        }
    }
    Corpus {
        progs,
        rejected,
        candidates: n,
    }
}

/// One hand-written program, compiled on first use (does not need the whole corpus; the
/// libFuzzer target uses only these).
pub fn hand_prog(name: &str) -> Option<&'static Prog> {
    static H: OnceLock<Vec<Prog>> = OnceLock::new();
    H.get_or_init(|| {
        HAND.iter()
            .filter_map(|(n, src)| try_candidate_once(n.to_string(), vec![(None, src.to_string())]).ok())
            .collect()
    })
    .iter()
    .find(|p| p.name == name)
}

pub fn corpus() -> &'static Corpus {
    static C: OnceLock<Corpus> = OnceLock::new();
    C.get_or_init(build_corpus)
}
