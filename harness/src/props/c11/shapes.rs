//! Boundary-shape program generator for the emit direction of C11: what a container cares
//! about and the shared `stgen` does not produce - one-element and extreme array dimensions,
//! arrays of structs of arrays, empty structs, enums with explicit extreme values,
//! subranges at type limits, STRING[1]/STRING[65535], alias chains around the validator's
//! depth bound (64), long identifiers, count fields crossing 255/256, task intervals and
//! priorities at their extremes, AT addresses at their extremes, RETAIN at value extremes.
//!
//! A program is a deterministic function of a tape: 1-3 features are drawn, each adds type
//! declarations, variables, statements, POUs, globals and tasks to one builder. Shapes the
//! front end rejects are part of the list on purpose (the check counts the rejections per
//! feature); what the probes showed to be accepted dominates.
//!
//! Only *valid* ST is generated where a validator-class compile error would be judged: a
//! reversed dimension `ARRAY[2..1]` (invalid ST) is accepted by the front end and stopped
//! only by the encoder's self-check ("invalid array bounds") - that is front-end leniency,
//! not an emitted container, so reversed bounds are not generated.
//!
//! Left out by construction (not C11's business, reported to the lead): an enum whose last
//! explicit value is i64::MAX panics in trust-hir ("attempt to add with overflow",
//! collector/types.rs) - LINT enum values stay below the limit.

use crate::engine::tape::Reader;

#[derive(Default)]
struct B {
    types: Vec<String>,
    pous: Vec<String>,
    vars: Vec<String>,
    retain_vars: Vec<String>,
    externals: Vec<String>,
    body: Vec<String>,
    globals: Vec<String>,
    retain_globals: Vec<String>,
    tasks: Vec<String>,
    /// (program type, instance name, task, fb bindings)
    instances: Vec<(String, String, Option<String>, String)>,
    main_task: Option<String>,
    main_fb_bindings: String,
    n: usize,
    features: Vec<&'static str>,
}

/// A rare choice (~1.6 %). The tape is biased towards 0 and u32::MAX (simple choices), so a
/// rare event must not sit at either end: it is a window between the tape's small values.
fn rare(r: &mut Reader) -> bool {
    (0x0800_0000u32..0x1000_0000).contains(&r.word())
}

impl B {
    fn id(&mut self, prefix: &str) -> String {
        self.n += 1;
        format!("{prefix}{}", self.n)
    }
}

/// (lower, upper) pairs; the first half are one-element dimensions.
const DIMS: &[(i64, i64)] = &[
    (1, 1),
    (0, 0),
    (-1, -1),
    (5, 5),
    (-3, -3),
    (255, 255),
    (256, 256),
    (65535, 65535),
    (65536, 65536),
    (2147483647, 2147483647),
    (-2147483647, -2147483647),
    (0, 1),
    (1, 2),
    (-1, 1),
    (-2, -1),
    (0, 3),
    (1, 4),
    (254, 257),
    (65534, 65537),
    (2147483646, 2147483647),
    (-2147483647, -2147483646),
    (0, 255),
    (0, 256),
    (-128, 127),
    // what the front end is expected to reject (counted)
    (-2147483648, -2147483648),
    (4294967295, 4294967296),
    (9223372036854775806, 9223372036854775807),
];

/// element type, a literal of it
const ELEMS: &[(&str, &str)] = &[
    ("INT", "INT#1"),
    ("DINT", "DINT#-7"),
    ("BOOL", "TRUE"),
    ("REAL", "REAL#1.5"),
    ("LREAL", "LREAL#2.5"),
    ("LINT", "LINT#9"),
    ("SINT", "SINT#-128"),
    ("USINT", "USINT#255"),
    ("UDINT", "UDINT#4000000000"),
    ("BYTE", "BYTE#16#FF"),
    ("WORD", "WORD#16#FFFF"),
    ("TIME", "T#1ms"),
    ("STRING[1]", ""),
    ("STRING[80]", ""),
    ("WSTRING[2]", ""),
];

fn dims_text(dims: &[(i64, i64)]) -> String {
    dims.iter()
        .map(|(l, u)| format!("{l}..{u}"))
        .collect::<Vec<_>>()
        .join(", ")
}

fn pick_dims(r: &mut Reader) -> Vec<(i64, i64)> {
    let mut product = 1;
    pick_dims_within(r, &mut product)
}

/// `product` = number of elements instantiated so far (nesting multiplies); the runtime
/// allocates every element, so the total is kept <= 2048.
fn pick_dims_within(r: &mut Reader, product: &mut i128) -> Vec<(i64, i64)> {
    let n = 1 + r.weighted(&[5, 3, 2]);
    let mut dims = Vec::new();
    for _ in 0..n {
        // one-element dimensions half of the time, rejected shapes rarely
        // one-element dimensions half of the time; shapes the front end rejects rarely
        let d = if rare(r) {
            DIMS[24 + r.pick(3)]
        } else if r.flag() {
            DIMS[11 + r.pick(13)]
        } else {
            DIMS[r.pick(11)]
        };
        let len = (d.1 as i128 - d.0 as i128 + 1).max(1);
        if *product * len > 2048 {
            dims.push((d.0, d.0));
        } else {
            *product *= len;
            dims.push(d);
        }
    }
    dims
}

fn f_arrays(b: &mut B, r: &mut Reader) {
    b.features.push("array_dims");
    for _ in 0..1 + r.pick(3) {
        let dims = pick_dims(r);
        let (elem, lit) = ELEMS[r.pick(ELEMS.len())];
        let v = b.id("arr");
        let ty = format!("ARRAY[{}] OF {elem}", dims_text(&dims));
        match r.pick(4) {
            0 => {
                // named array type
                let t = b.id("TArr");
                b.types.push(format!("{t} : {ty};"));
                b.vars.push(format!("{v} : {t};"));
            }
            1 => {
                // array of a named one-element array type (no subscripting of the nest)
                let t = b.id("TArr");
                b.types.push(format!("{t} : {ty};"));
                let outer = DIMS[r.pick(11)];
                b.vars
                    .push(format!("{v} : ARRAY[{}..{}] OF {t};", outer.0, outer.1));
                continue;
            }
            2 => {
                // inline array of array
                let inner = DIMS[r.pick(11)];
                b.vars.push(format!(
                    "{v} : ARRAY[{}] OF ARRAY[{}..{}] OF {elem};",
                    dims_text(&dims),
                    inner.0,
                    inner.1
                ));
                continue;
            }
            _ => b.vars.push(format!("{v} : {ty};")),
        }
        if !lit.is_empty() && dims.iter().all(|(l, u)| l <= u) {
            let lo = dims.iter().map(|d| d.0.to_string()).collect::<Vec<_>>().join(", ");
            let hi = dims.iter().map(|d| d.1.to_string()).collect::<Vec<_>>().join(", ");
            b.body.push(format!("{v}[{lo}] := {lit};"));
            if r.flag() {
                b.body.push(format!("{v}[{hi}] := {v}[{lo}];"));
            }
        }
    }
}

fn f_struct_nest(b: &mut B, r: &mut Reader) {
    b.features.push("array_struct_nest");
    let depth = 1 + r.pick(4);
    let (elem, _) = ELEMS[r.pick(ELEMS.len())];
    let d0 = DIMS[r.pick(11)];
    let mut cur = format!("ARRAY[{}..{}] OF {elem}", d0.0, d0.1);
    let mut product: i128 = 1;
    for _ in 0..depth {
        let s = b.id("TS");
        let f1 = b.id("f");
        let extra = if r.flag() {
            format!(" {} : {};", b.id("g"), ELEMS[r.pick(12)].0)
        } else {
            String::new()
        };
        b.types
            .push(format!("{s} : STRUCT\n    {f1} : {cur};{extra}\n  END_STRUCT;"));
        let d = pick_dims_within(r, &mut product);
        if r.chance(3, 4) {
            let a = b.id("TAS");
            b.types.push(format!("{a} : ARRAY[{}] OF {s};", dims_text(&d)));
            cur = a;
        } else {
            cur = s;
        }
    }
    let v = b.id("nest");
    b.vars.push(format!("{v} : {cur};"));
}

fn f_empty_struct(b: &mut B, r: &mut Reader) {
    b.features.push("empty_struct");
    let s = b.id("TEmpty");
    b.types.push(format!("{s} : STRUCT\n  END_STRUCT;"));
    let v = b.id("e");
    match r.pick(3) {
        0 => b.vars.push(format!("{v} : {s};")),
        1 => b.vars.push(format!("{v} : ARRAY[0..0] OF {s};")),
        _ => {
            let t = b.id("TS");
            b.types
                .push(format!("{t} : STRUCT\n    inner : {s};\n  END_STRUCT;"));
            b.vars.push(format!("{v} : {t};"));
        }
    }
}

fn f_enums(b: &mut B, r: &mut Reader) {
    b.features.push("enum_extremes");
    let e = b.id("TEnum");
    let v = b.id("en");
    // (base, min, max)
    const BASES: &[(&str, i64, i64)] = &[
        ("", 0, 32767),
        ("INT", -32768, 32767),
        ("SINT", -128, 127),
        ("USINT", 0, 255),
        ("UINT", 0, 65535),
        ("DINT", -2147483647, 2147483647),
        ("LINT", -2147483647, 2147483647),
        ("UDINT", 0, 2147483647),
    ];
    let (base, min, max) = BASES[r.pick(BASES.len())];
    let p = b.id("V");
    match r.pick(6) {
        0 => {
            b.types
                .push(format!("{e} : ({p}a := {min}, {p}b := {max}) {base};"));
            b.vars.push(format!("{v} : {e} := {e}#{p}b;"));
        }
        1 => {
            b.types.push(format!("{e} : ({p}only) {base};"));
            b.vars.push(format!("{v} : {e};"));
        }
        2 => {
            // implicit successor of an explicit value just below the limit
            b.types
                .push(format!("{e} : ({p}a := {}, {p}b) {base};", max - 1));
            b.vars.push(format!("{v} : {e} := {e}#{p}a;"));
        }
        3 => {
            b.types.push(format!(
                "{e} : ({p}a := {min}, {p}z := 0, {p}b := {max}) {base};"
            ));
            b.vars.push(format!("{v} : {e} := {e}#{p}a;"));
            b.body.push(format!(
                "IF {v} = {e}#{p}a THEN\n  {v} := {e}#{p}b;\nEND_IF;"
            ));
        }
        _ => {
            // many variants (count fields crossing 127/128, 255/256)
            let n = [2usize, 127, 128, 129, 255, 256, 257, 300][r.pick(8)];
            let n = if base == "SINT" { n.min(128) } else { n };
            let list = (0..n).map(|i| format!("{p}{i}")).collect::<Vec<_>>().join(", ");
            b.types.push(format!("{e} : ({list}) {base};"));
            b.vars.push(format!("{v} : {e} := {e}#{p}{};", n - 1));
        }
    }
}

fn f_subranges(b: &mut B, r: &mut Reader) {
    b.features.push("subrange_limits");
    const S: &[(&str, i64, i64)] = &[
        ("INT", -32768, 32767),
        ("SINT", -128, 127),
        ("USINT", 0, 255),
        ("UINT", 0, 65535),
        ("DINT", -2147483647, 2147483647),
        ("INT", 5, 5),
        ("INT", 0, 0),
        ("SINT", -128, -128),
        ("UINT", 65535, 65535),
        ("DINT", 2147483647, 2147483647),
        ("INT", -1, 1),
        // expected to be rejected (rare)
        ("UDINT", 0, 4294967295),
    ];
    for _ in 0..1 + r.pick(3) {
        let (base, lo, hi) = if rare(r) { S[11] } else { S[r.pick(11)] };
        let v = b.id("sr");
        let init = if r.flag() { lo } else { hi };
        if r.flag() {
            let t = b.id("TSub");
            b.types.push(format!("{t} : {base}({lo}..{hi});"));
            b.vars.push(format!("{v} : {t} := {init};"));
            if r.chance(1, 3) {
                let a = b.id("asr");
                b.vars.push(format!("{a} : ARRAY[1..1] OF {t};"));
            }
        } else {
            b.vars.push(format!("{v} : {base}({lo}..{hi});"));
        }
    }
}

fn f_strings(b: &mut B, r: &mut Reader) {
    b.features.push("string_lengths");
    const N: &[u32] = &[1, 2, 80, 254, 255, 256, 65534, 65535, 65536];
    for _ in 0..1 + r.pick(3) {
        let n = N[r.weighted(&[4, 2, 2, 2, 3, 3, 2, 4, 1])];
        let kind = if r.chance(1, 3) { "WSTRING" } else { "STRING" };
        let v = b.id("str");
        match r.pick(5) {
            0 => b.vars.push(format!("{v} : {kind}[{n}];")),
            1 => b.vars.push(format!("{v} : ARRAY[0..0] OF {kind}[{n}];")),
            2 => {
                let t = b.id("TS");
                b.types
                    .push(format!("{t} : STRUCT\n    s : {kind}[{n}];\n  END_STRUCT;"));
                b.vars.push(format!("{v} : {t};"));
            }
            3 => {
                let t = b.id("TStr");
                b.types.push(format!("{t} : {kind}[{n}];"));
                b.vars.push(format!("{v} : {t};"));
            }
            _ => {
                b.retain_globals.push(format!("{v} : {kind}[{n}];"));
            }
        }
    }
}

fn f_alias_chain(b: &mut B, r: &mut Reader) {
    b.features.push("alias_chain");
    let n = [1usize, 2, 8, 62, 63, 64, 65, 66, 100][r.pick(9)];
    let p = b.id("TA");
    let (base, init) = match r.pick(5) {
        0 => ("INT".to_string(), " := 5"),
        1 => ("ARRAY[4..4] OF INT".to_string(), ""),
        2 => ("DINT(0..0)".to_string(), ""),
        3 => ("STRING[1]".to_string(), ""),
        _ => ("LREAL".to_string(), " := 2.5"),
    };
    b.types.push(format!("{p}_0 : {base};"));
    for i in 1..=n {
        b.types.push(format!("{p}_{i} : {p}_{};", i - 1));
    }
    let v = b.id("al");
    let w = b.id("al");
    b.vars.push(format!("{v} : {p}_{n}{init};"));
    b.vars.push(format!("{w} : {p}_{n};"));
    if r.flag() {
        b.body.push(format!("{w} := {v};"));
    }
    if r.chance(1, 3) {
        // the chain as an element / field / global type
        let a = b.id("aal");
        b.vars.push(format!("{a} : ARRAY[1..1] OF {p}_{n};"));
        let g = b.id("g_al");
        b.retain_globals.push(format!("{g} : {p}_{};", n / 2));
    }
}

fn long_name(r: &mut Reader, prefix: &str) -> String {
    let n = [1usize, 2, 31, 32, 63, 64, 127, 128, 255, 256, 1000, 4000][r.pick(12)];
    let mut s = String::from(prefix);
    while s.len() < n {
        s.push((b'a' + (s.len() % 26) as u8) as char);
    }
    s
}

fn f_long_names(b: &mut B, r: &mut Reader) {
    b.features.push("long_identifiers");
    match r.pick(6) {
        0 => {
            let t = long_name(r, &b.id("TLong"));
            b.types.push(format!("{t} : DINT;"));
            let v = b.id("ln");
            b.vars.push(format!("{v} : {t};"));
        }
        1 => {
            let t = b.id("TS");
            let f = long_name(r, &b.id("fld"));
            b.types
                .push(format!("{t} : STRUCT\n    {f} : INT;\n  END_STRUCT;"));
            let v = b.id("ln");
            b.vars.push(format!("{v} : {t};"));
            b.body.push(format!("{v}.{f} := INT#3;"));
        }
        2 => {
            let t = b.id("TEnum");
            let a = long_name(r, &b.id("Var"));
            b.types.push(format!("{t} : ({a}, {a}x);"));
            let v = b.id("ln");
            b.vars.push(format!("{v} : {t} := {t}#{a}x;"));
        }
        3 => {
            let f = long_name(r, &b.id("Fn"));
            b.pous.push(format!(
                "FUNCTION {f} : INT\nVAR_INPUT\n  x : INT;\nEND_VAR\n{f} := x;\nEND_FUNCTION"
            ));
            let v = b.id("ln");
            b.vars.push(format!("{v} : INT;"));
            b.body.push(format!("{v} := {f}(x := INT#2);"));
        }
        4 => {
            let f = long_name(r, &b.id("Fb"));
            let m = long_name(r, &b.id("Meth"));
            b.pous.push(format!(
                "FUNCTION_BLOCK {f}\nVAR\n  n : INT;\nEND_VAR\nMETHOD PUBLIC {m} : INT\n{m} := n;\nEND_METHOD\nn := n + 1;\nEND_FUNCTION_BLOCK"
            ));
            let v = b.id("ln");
            b.vars.push(format!("{v} : {f};"));
            b.body.push(format!("{v}();"));
        }
        _ => {
            let g = long_name(r, &b.id("glob"));
            if r.flag() {
                b.retain_globals.push(format!("{g} : INT := 7;"));
            } else {
                b.globals.push(format!("{g} : INT := 7;"));
            }
            b.externals.push(format!("{g} : INT;"));
            b.body.push(format!("{g} := {g} + 1;"));
        }
    }
}

fn count_choice(r: &mut Reader) -> usize {
    [2usize, 254, 255, 256, 257, 300][r.pick(6)]
}

fn f_many(b: &mut B, r: &mut Reader) {
    match r.pick(5) {
        0 => {
            b.features.push("many_pous");
            let n = count_choice(r);
            let p = b.id("Fm");
            for i in 0..n {
                b.pous
                    .push(format!("FUNCTION {p}_{i} : INT\n{p}_{i} := {};\nEND_FUNCTION", i % 1000));
            }
            let v = b.id("mp");
            b.vars.push(format!("{v} : INT;"));
            b.body.push(format!("{v} := {p}_0() + {p}_{}();", n - 1));
        }
        1 => {
            b.features.push("many_constants");
            let n = count_choice(r);
            let v = b.id("mc");
            b.vars.push(format!("{v} : DINT;"));
            for i in 0..n {
                b.body.push(format!("{v} := {v} + DINT#{i};"));
            }
        }
        2 => {
            b.features.push("many_globals");
            let n = count_choice(r);
            let p = b.id("gm");
            for i in 0..n {
                let decl = format!("{p}_{i} : INT := {};", i % 100);
                if i % 2 == 0 {
                    b.retain_globals.push(decl);
                } else {
                    b.globals.push(decl);
                }
            }
            b.externals.push(format!("{p}_0 : INT;"));
            b.body.push(format!("{p}_0 := {p}_0 + 1;"));
        }
        3 => {
            b.features.push("many_types");
            let n = count_choice(r);
            let p = b.id("TM");
            for i in 0..n {
                b.types
                    .push(format!("{p}_{i} : STRUCT\n    f : INT;\n  END_STRUCT;"));
            }
            let v = b.id("mt");
            b.vars.push(format!("{v} : {p}_{};", n - 1));
            b.vars.push(format!("{v}b : ARRAY[1..1] OF {p}_0;"));
        }
        _ => {
            b.features.push("many_bindings");
            let n = [2usize, 64, 255, 256, 257][r.pick(5)];
            let p = b.id("io");
            for i in 0..n {
                b.vars.push(format!("{p}_{i} AT %QX{}.{} : BOOL;", i / 8, i % 8));
            }
            b.body.push(format!("{p}_0 := NOT {p}_0;"));
        }
    }
}

fn f_tasks(b: &mut B, r: &mut Reader) {
    b.features.push("task_extremes");
    const INTERVALS: &[&str] = &[
        "T#0ms",
        "T#0s",
        "T#1ns",
        "T#1us",
        "T#1ms",
        "T#10ms",
        "T#1.5ms",
        "T#49d",
        "T#106751d",
        "T#9223372036854ms",
        "T#-1s",
        "LTIME#1ns",
        // expected to be rejected
        "T#106752d",
    ];
    const PRIOS: &[&str] = &["0", "1", "255", "256", "65535", "65536", "2147483647", "4294967295", "-1"];
    let ntasks = 1 + r.pick(4);
    let mut names = Vec::new();
    for _ in 0..ntasks {
        let t = b.id("Tk");
        // the last two priorities and the last interval are rejected by the front end (rare)
        let prio = if rare(r) {
            PRIOS[7 + r.pick(2)]
        } else {
            PRIOS[r.weighted(&[4, 3, 1, 1, 2, 1, 4])]
        };
        let iv = if rare(r) {
            INTERVALS[12]
        } else {
            INTERVALS[r.pick(12)]
        };
        let init = match r.pick(4) {
            0 => {
                let g = b.id("trig");
                b.globals.push(format!(
                    "{g} : BOOL := {};",
                    if r.flag() { "TRUE" } else { "FALSE" }
                ));
                if r.flag() {
                    format!("SINGLE := {g}, INTERVAL := {iv}, PRIORITY := {prio}")
                } else {
                    format!("SINGLE := {g}, PRIORITY := {prio}")
                }
            }
            _ => format!("INTERVAL := {iv}, PRIORITY := {prio}"),
        };
        b.tasks.push(format!("TASK {t} ({init});"));
        names.push(t);
    }
    // Main on the first task (or on none), extra programs on the others (or unbound tasks)
    if r.chance(5, 6) {
        b.main_task = Some(names[0].clone());
    }
    for t in names.iter().skip(1) {
        if r.chance(1, 3) {
            continue; // task without a program
        }
        let p = b.id("Prog");
        b.pous.push(format!(
            "PROGRAM {p}\nVAR\n  k : DINT;\nEND_VAR\nk := k + 1;\nEND_PROGRAM"
        ));
        let inst = b.id("Inst");
        let task = if r.chance(5, 6) { Some(t.clone()) } else { None };
        b.instances.push((p, inst, task, String::new()));
    }
    if r.chance(1, 3) {
        // an FB instance of Main bound to a task of its own
        let f = b.id("FbT");
        b.pous.push(format!(
            "FUNCTION_BLOCK {f}\nVAR\n  n : INT;\nEND_VAR\nn := n + 1;\nEND_FUNCTION_BLOCK"
        ));
        let v = b.id("fbi");
        b.vars.push(format!("{v} : {f};"));
        let t = &names[r.pick(names.len())];
        b.main_fb_bindings = format!(" ({v} WITH {t})");
    }
}

fn f_io(b: &mut B, r: &mut Reader) {
    b.features.push("io_address_extremes");
    // (size letter, type)
    const SIZES: &[(&str, &str)] = &[
        ("X", "BOOL"),
        ("B", "BYTE"),
        ("W", "INT"),
        ("W", "WORD"),
        ("D", "DINT"),
        ("D", "DWORD"),
        ("L", "LWORD"),
        ("L", "LINT"),
    ];
    const BYTES: &[&str] = &[
        "0", "1", "7", "8", "255", "256", "65534", "65535", "65536", "1000000", "16777215",
        "2147483647", "4294967295", "4294967296",
    ];
    for _ in 0..1 + r.pick(4) {
        let area = ["I", "Q", "M"][r.pick(3)];
        let (sz, ty) = SIZES[r.pick(SIZES.len())];
        // the last byte address and bit 8 are rejected by the front end (rare)
        // Output and memory images are allocated up to the highest address written (a 2 GiB
        // image is a legitimate request, not a container defect): those stay <= 16 MiB.
        let byte = if rare(r) {
            BYTES[13]
        } else if area == "I" {
            BYTES[r.weighted(&[4, 2, 2, 2, 2, 2, 2, 3, 2, 1, 1, 1, 1])]
        } else {
            BYTES[r.weighted(&[4, 2, 2, 2, 2, 2, 2, 3, 2, 1, 1])]
        };
        let addr = if sz == "X" {
            let bit = if rare(r) { 8 } else { [0, 7, 7, 0, 1, 3][r.pick(6)] };
            format!("%{area}X{byte}.{bit}")
        } else if rare(r) {
            format!("%{area}{sz}1.2.3")
        } else {
            format!("%{area}{sz}{byte}")
        };
        let v = b.id("at");
        match r.pick(4) {
            0 => {
                b.globals.push(format!("{v} AT {addr} : {ty};"));
            }
            1 => {
                b.retain_vars.push(format!("{v} AT {addr} : {ty};"));
            }
            _ => b.vars.push(format!("{v} AT {addr} : {ty};")),
        }
    }
}

fn f_retain(b: &mut B, r: &mut Reader) {
    b.features.push("retain_extremes");
    const VALS: &[(&str, &str)] = &[
        ("SINT", "-128"),
        ("SINT", "127"),
        ("INT", "-32768"),
        ("INT", "32767"),
        ("DINT", "2147483647"),
        ("DINT", "-2147483647"),
        ("LINT", "LINT#9223372036854775807"),
        ("LINT", "LINT#-9223372036854775807"),
        ("USINT", "255"),
        ("UINT", "65535"),
        ("UDINT", "UDINT#4294967295"),
        ("ULINT", "ULINT#9223372036854775807"),
        ("DINT", "DINT#-2147483648"),
        ("REAL", "3.4E38"),
        ("LREAL", "-1.7E308"),
        ("TIME", "T#106751d"),
        ("TIME", "T#0ms"),
        ("BOOL", "TRUE"),
        ("BYTE", "16#FF"),
        ("LWORD", "LWORD#16#7FFFFFFFFFFFFFFF"),
        ("STRING[1]", "'x'"),
        ("DATE", "D#1970-01-01"),
        ("DATE", "D#2106-02-07"),
        ("TOD", "TOD#23:59:59"),
        ("DT", "DT#2038-01-19-03:14:07"),
    ];
    for _ in 0..1 + r.pick(4) {
        let (ty, val) = VALS[r.pick(VALS.len())];
        let v = b.id("rt");
        let decl = format!("{v} : {ty} := {val};");
        match r.pick(4) {
            0 => b.retain_vars.push(decl),
            1 => b.retain_globals.push(decl),
            2 => b.retain_vars.push(format!("{v} : ARRAY[7..7] OF {ty};")),
            _ => b.retain_globals.push(format!("{v} : ARRAY[0..0, -1..-1] OF {ty};")),
        }
    }
}

fn assemble(b: &B) -> String {
    let mut s = String::new();
    if !b.types.is_empty() {
        s.push_str("TYPE\n");
        for t in &b.types {
            s.push_str("  ");
            s.push_str(t);
            s.push('\n');
        }
        s.push_str("END_TYPE\n\n");
    }
    for p in &b.pous {
        s.push_str(p);
        s.push_str("\n\n");
    }
    s.push_str("PROGRAM Main\n");
    if !b.externals.is_empty() {
        s.push_str("VAR_EXTERNAL\n");
        for v in &b.externals {
            s.push_str(&format!("  {v}\n"));
        }
        s.push_str("END_VAR\n");
    }
    s.push_str("VAR\n  cyc : DINT;\n");
    for v in &b.vars {
        s.push_str(&format!("  {v}\n"));
    }
    s.push_str("END_VAR\n");
    if !b.retain_vars.is_empty() {
        s.push_str("VAR RETAIN\n");
        for v in &b.retain_vars {
            s.push_str(&format!("  {v}\n"));
        }
        s.push_str("END_VAR\n");
    }
    s.push_str("cyc := cyc + 1;\n");
    for st in &b.body {
        s.push_str(st);
        s.push('\n');
    }
    s.push_str("END_PROGRAM\n");
    let need_config = !b.globals.is_empty()
        || !b.retain_globals.is_empty()
        || !b.tasks.is_empty()
        || !b.instances.is_empty();
    if need_config {
        s.push_str("\nCONFIGURATION Conf\n");
        if !b.globals.is_empty() {
            s.push_str("VAR_GLOBAL\n");
            for g in &b.globals {
                s.push_str(&format!("  {g}\n"));
            }
            s.push_str("END_VAR\n");
        }
        if !b.retain_globals.is_empty() {
            s.push_str("VAR_GLOBAL RETAIN\n");
            for g in &b.retain_globals {
                s.push_str(&format!("  {g}\n"));
            }
            s.push_str("END_VAR\n");
        }
        let resource = !b.tasks.is_empty();
        if resource {
            s.push_str("RESOURCE Res ON CPU\n");
            for t in &b.tasks {
                s.push_str(&format!("  {t}\n"));
            }
        }
        match &b.main_task {
            Some(t) => s.push_str(&format!(
                "  PROGRAM MainInst WITH {t} : Main{};\n",
                b.main_fb_bindings
            )),
            None => s.push_str(&format!("  PROGRAM MainInst : Main{};\n", b.main_fb_bindings)),
        }
        for (ty, inst, task, fb) in &b.instances {
            match task {
                Some(t) => s.push_str(&format!("  PROGRAM {inst} WITH {t} : {ty}{fb};\n")),
                None => s.push_str(&format!("  PROGRAM {inst} : {ty}{fb};\n")),
            }
        }
        if resource {
            s.push_str("END_RESOURCE\n");
        }
        s.push_str("END_CONFIGURATION\n");
    }
    s
}

pub const FEATURES: &[&str] = &[
    "array_dims",
    "array_struct_nest",
    "empty_struct",
    "enum_extremes",
    "subrange_limits",
    "string_lengths",
    "alias_chain",
    "long_identifiers",
    "many_*",
    "task_extremes",
    "io_address_extremes",
    "retain_extremes",
];

/// (source, features used)
pub fn shape_program(r: &mut Reader) -> (String, Vec<&'static str>) {
    let mut b = B::default();
    let n = 1 + r.weighted(&[6, 3, 1]);
    for _ in 0..n {
        match r.weighted(&[8, 4, 2, 4, 3, 3, 3, 3, 2, 5, 4, 3]) {
            0 => f_arrays(&mut b, r),
            1 => f_struct_nest(&mut b, r),
            2 => f_empty_struct(&mut b, r),
            3 => f_enums(&mut b, r),
            4 => f_subranges(&mut b, r),
            5 => f_strings(&mut b, r),
            6 => f_alias_chain(&mut b, r),
            7 => f_long_names(&mut b, r),
            8 => f_many(&mut b, r),
            9 => f_tasks(&mut b, r),
            10 => f_io(&mut b, r),
            _ => f_retain(&mut b, r),
        }
    }
    (assemble(&b), b.features)
}
