//! Field map of a canonical (compiler-emitted, version 1.1) STBC container.
//!
//! An independent walk over the container layout (written from the format description,
//! DESIGN.md Appendix A, not by calling the decoder) that records where every count,
//! index, offset, length, size and enum byte lives, so that the mutator can patch exactly
//! that field with a hostile value.

#[derive(Clone, Copy, Debug, PartialEq, Eq)]
pub enum Kind {
    /// element count of a following list
    Count,
    /// byte length of a following blob
    Len,
    StrIdx,
    DbgStrIdx,
    TypeIdx,
    ConstIdx,
    RefIdx,
    PouId,
    /// byte offset into something (file, section, code)
    Offset,
    /// process image size
    Size,
    /// relative jump offset (i32)
    Jump,
    /// small enumeration stored in one byte (kind, location, direction, retain, opcode)
    Enum8,
    /// reserved / flag bytes the decoder ignores
    Reserved,
    /// other 16/32-bit scalar (version, priority, line, slot, owner, prim id ...)
    Scalar,
    /// 64-bit signed scalar (interval, bounds, index values, enum values)
    I64,
}

#[derive(Clone, Debug)]
pub struct Field {
    pub off: usize,
    pub width: u8,
    pub kind: Kind,
    /// section id (0 = header, 0xFFFF = section table)
    pub sec: u16,
    pub name: &'static str,
    /// index of the entry this field belongs to (for self-references)
    pub entry: u32,
    /// for jumps: pc of the instruction relative to its POU's code, and that code's length
    pub pc: u32,
    pub code_len: u32,
}

#[derive(Clone, Debug, Default)]
pub struct Counts {
    pub strings: u32,
    pub dbg_strings: u32,
    pub types: u32,
    pub consts: u32,
    pub refs: u32,
    pub pous: u32,
    pub bodies_len: u32,
    pub file_len: u32,
}

#[derive(Clone, Debug, Default)]
pub struct Layout {
    pub fields: Vec<Field>,
    pub counts: Counts,
    /// (section id, offset, length)
    pub sections: Vec<(u16, usize, usize)>,
    /// problems the walker had (none expected on compiler output)
    pub problems: Vec<String>,
    /// distinct (sec, name) classes with the indices of their fields
    pub classes: Vec<((u16, &'static str), Vec<u32>)>,
}

struct W<'a> {
    b: &'a [u8],
    pos: usize,
    end: usize,
    sec: u16,
    entry: u32,
    out: &'a mut Vec<Field>,
}

impl<'a> W<'a> {
    fn ok(&self, n: usize) -> bool {
        self.pos + n <= self.end
    }
    fn push(&mut self, width: u8, kind: Kind, name: &'static str) -> Option<u64> {
        if !self.ok(width as usize) {
            return None;
        }
        let mut v = 0u64;
        for i in 0..width as usize {
            v |= (self.b[self.pos + i] as u64) << (8 * i);
        }
        self.out.push(Field {
            off: self.pos,
            width,
            kind,
            sec: self.sec,
            name,
            entry: self.entry,
            pc: 0,
            code_len: 0,
        });
        self.pos += width as usize;
        Some(v)
    }
    fn u8(&mut self, kind: Kind, name: &'static str) -> Option<u8> {
        self.push(1, kind, name).map(|v| v as u8)
    }
    fn u16(&mut self, kind: Kind, name: &'static str) -> Option<u16> {
        self.push(2, kind, name).map(|v| v as u16)
    }
    fn u32(&mut self, kind: Kind, name: &'static str) -> Option<u32> {
        self.push(4, kind, name).map(|v| v as u32)
    }
    fn i64(&mut self, name: &'static str) -> Option<u64> {
        self.push(8, Kind::I64, name)
    }
    fn skip(&mut self, n: usize) -> Option<()> {
        if !self.ok(n) {
            return None;
        }
        self.pos += n;
        Some(())
    }
}

fn rd_u32(b: &[u8], at: usize) -> Option<u32> {
    b.get(at..at + 4)
        .map(|s| u32::from_le_bytes([s[0], s[1], s[2], s[3]]))
}
fn rd_u16(b: &[u8], at: usize) -> Option<u16> {
    b.get(at..at + 2).map(|s| u16::from_le_bytes([s[0], s[1]]))
}

fn string_table(w: &mut W<'_>) -> Option<u32> {
    let n = w.u32(Kind::Count, "count")?;
    for i in 0..n {
        w.entry = i;
        let len = w.u32(Kind::Len, "len")? as usize;
        w.skip(len)?;
        let pad = (4 - (4 + len) % 4) % 4;
        w.skip(pad)?;
    }
    Some(n)
}

fn type_table(w: &mut W<'_>) -> Option<u32> {
    let n = w.u32(Kind::Count, "count")?;
    for i in 0..n {
        w.entry = i;
        w.u32(Kind::Offset, "entry_offset")?;
    }
    for i in 0..n {
        w.entry = i;
        let kind = w.u8(Kind::Enum8, "kind")?;
        w.u8(Kind::Reserved, "flags")?;
        w.u16(Kind::Reserved, "reserved")?;
        w.u32(Kind::StrIdx, "name_idx")?;
        match kind {
            0 => {
                w.u16(Kind::Scalar, "prim_id")?;
                w.u16(Kind::Scalar, "max_length")?;
            }
            1 => {
                w.u32(Kind::TypeIdx, "array.elem_type_id")?;
                let d = w.u32(Kind::Count, "array.dim_count")?;
                for _ in 0..d {
                    w.i64("array.lower")?;
                    w.i64("array.upper")?;
                }
            }
            2 | 7 => {
                let f = w.u32(Kind::Count, "struct.field_count")?;
                for _ in 0..f {
                    w.u32(Kind::StrIdx, "struct.field_name_idx")?;
                    w.u32(Kind::TypeIdx, "struct.field_type_id")?;
                }
            }
            3 => {
                w.u32(Kind::TypeIdx, "enum.base_type_id")?;
                let v = w.u32(Kind::Count, "enum.variant_count")?;
                for _ in 0..v {
                    w.u32(Kind::StrIdx, "enum.variant_name_idx")?;
                    w.i64("enum.value")?;
                }
            }
            4 => {
                w.u32(Kind::TypeIdx, "alias.target_type_id")?;
            }
            5 => {
                w.u32(Kind::TypeIdx, "subrange.base_type_id")?;
                w.i64("subrange.lower")?;
                w.i64("subrange.upper")?;
            }
            6 => {
                w.u32(Kind::TypeIdx, "reference.target_type_id")?;
            }
            8 | 9 => {
                w.u32(Kind::PouId, "pou.pou_id")?;
            }
            10 => {
                let m = w.u32(Kind::Count, "interface.method_count")?;
                for _ in 0..m {
                    w.u32(Kind::StrIdx, "interface.method_name_idx")?;
                    w.u32(Kind::Scalar, "interface.slot")?;
                }
            }
            _ => return None,
        }
    }
    Some(n)
}

fn const_pool(w: &mut W<'_>) -> Option<u32> {
    let n = w.u32(Kind::Count, "count")?;
    for i in 0..n {
        w.entry = i;
        w.u32(Kind::TypeIdx, "type_id")?;
        let len = w.u32(Kind::Len, "payload_len")? as usize;
        // the payload itself: first bytes as a scalar (array count / string index / value)
        if len >= 4 {
            let save = w.pos;
            w.u32(Kind::Scalar, "payload_word0")?;
            w.pos = save;
        } else if len >= 1 {
            let save = w.pos;
            w.u8(Kind::Scalar, "payload_byte0")?;
            w.pos = save;
        }
        w.skip(len)?;
    }
    Some(n)
}

fn ref_table(w: &mut W<'_>) -> Option<u32> {
    let n = w.u32(Kind::Count, "count")?;
    for i in 0..n {
        w.entry = i;
        w.u8(Kind::Enum8, "location")?;
        w.u8(Kind::Reserved, "flags")?;
        w.u16(Kind::Reserved, "reserved")?;
        w.u32(Kind::Scalar, "owner_id")?;
        w.u32(Kind::Offset, "offset")?;
        let s = w.u32(Kind::Count, "segment_count")?;
        for _ in 0..s {
            let kind = w.u8(Kind::Enum8, "segment.kind")?;
            w.skip(3)?;
            match kind {
                0 => {
                    let c = w.u32(Kind::Count, "segment.index_count")?;
                    for _ in 0..c {
                        w.i64("segment.index")?;
                    }
                }
                1 => {
                    w.u32(Kind::StrIdx, "segment.field_name_idx")?;
                }
                _ => return None,
            }
        }
    }
    Some(n)
}

/// (code_offset, code_length) per POU entry
fn pou_index(w: &mut W<'_>, code: &mut Vec<(u32, u32)>) -> Option<u32> {
    let n = w.u32(Kind::Count, "count")?;
    for i in 0..n {
        w.entry = i;
        w.u32(Kind::PouId, "id")?;
        w.u32(Kind::StrIdx, "name_idx")?;
        let kind = w.u8(Kind::Enum8, "kind")?;
        w.u8(Kind::Reserved, "flags")?;
        w.u16(Kind::Reserved, "reserved")?;
        let co = w.u32(Kind::Offset, "code_offset")?;
        let cl = w.u32(Kind::Len, "code_length")?;
        code.push((co, cl));
        w.u32(Kind::RefIdx, "local_ref_start")?;
        w.u32(Kind::Count, "local_ref_count")?;
        w.u32(Kind::TypeIdx, "return_type_id")?;
        w.u32(Kind::PouId, "owner_pou_id")?;
        let p = w.u32(Kind::Count, "param_count")?;
        for _ in 0..p {
            w.u32(Kind::StrIdx, "param.name_idx")?;
            w.u32(Kind::TypeIdx, "param.type_id")?;
            w.u8(Kind::Enum8, "param.direction")?;
            w.u8(Kind::Reserved, "param.flags")?;
            w.u16(Kind::Reserved, "param.reserved")?;
            w.u32(Kind::ConstIdx, "param.default_const_idx")?;
        }
        if kind == 1 || kind == 3 {
            w.u32(Kind::PouId, "class.parent_pou_id")?;
            let ic = w.u32(Kind::Count, "class.interface_count")?;
            for _ in 0..ic {
                w.u32(Kind::TypeIdx, "class.interface_type_id")?;
                let mc = w.u32(Kind::Count, "class.interface_slot_count")?;
                for _ in 0..mc {
                    w.u32(Kind::Scalar, "class.interface_slot")?;
                }
            }
            let mc = w.u32(Kind::Count, "class.method_count")?;
            for _ in 0..mc {
                w.u32(Kind::StrIdx, "class.method_name_idx")?;
                w.u32(Kind::PouId, "class.method_pou_id")?;
                w.u32(Kind::Scalar, "class.method_vtable_slot")?;
                w.u8(Kind::Enum8, "class.method_access")?;
                w.u8(Kind::Reserved, "class.method_flags")?;
                w.u16(Kind::Reserved, "class.method_reserved")?;
            }
        } else if kind > 4 {
            return None;
        }
    }
    Some(n)
}

/// Operand bytes after an opcode, as the validator's instruction table has them.
pub fn operand_layout(opcode: u8) -> Option<&'static [(u8, Kind, &'static str)]> {
    Some(match opcode {
        0x00 | 0x01 | 0x06 | 0x11 | 0x12 | 0x13 | 0x14 | 0x15 | 0x23 | 0x31 | 0x32 | 0x33
        | 0x40..=0x4E | 0x50..=0x55 => &[],
        0x02..=0x04 => &[(4, Kind::Jump, "code.jump_offset")],
        0x05 => &[(4, Kind::PouId, "code.call_pou_id")],
        0x07 => &[(4, Kind::Scalar, "code.call_method_slot")],
        0x08 => &[
            (4, Kind::TypeIdx, "code.call_virtual_type_id"),
            (4, Kind::Scalar, "code.call_virtual_slot"),
        ],
        0x10 => &[(4, Kind::ConstIdx, "code.const_idx")],
        0x16 => &[(1, Kind::Scalar, "code.u8_operand")],
        0x20..=0x22 => &[(4, Kind::RefIdx, "code.ref_idx")],
        0x30 => &[(4, Kind::StrIdx, "code.field_name_idx")],
        0x60 => &[(4, Kind::TypeIdx, "code.type_id")],
        0x70 => &[(4, Kind::Scalar, "code.u32_operand_70")],
        _ => return None,
    })
}

fn pou_bodies(w: &mut W<'_>, code: &[(u32, u32)]) -> Option<()> {
    let base = w.pos;
    let sec_end = w.end;
    for (i, (co, cl)) in code.iter().enumerate() {
        w.entry = i as u32;
        let start = base + *co as usize;
        let end = start + *cl as usize;
        if end > sec_end {
            return None;
        }
        w.pos = start;
        w.end = end;
        while w.pos < end {
            let pc = (w.pos - start) as u32;
            let op = w.u8(Kind::Enum8, "code.opcode")?;
            let ops = operand_layout(op)?;
            for (width, kind, name) in ops {
                let before = w.out.len();
                w.push(*width, *kind, name)?;
                if *kind == Kind::Jump {
                    w.out[before].pc = pc;
                    w.out[before].code_len = *cl;
                }
            }
        }
        w.end = sec_end;
    }
    w.pos = sec_end;
    Some(())
}

fn resource_meta(w: &mut W<'_>) -> Option<()> {
    let n = w.u32(Kind::Count, "resource_count")?;
    for i in 0..n {
        w.entry = i;
        w.u32(Kind::StrIdx, "name_idx")?;
        w.u32(Kind::Size, "inputs_size")?;
        w.u32(Kind::Size, "outputs_size")?;
        w.u32(Kind::Size, "memory_size")?;
        let t = w.u32(Kind::Count, "task_count")?;
        for _ in 0..t {
            w.u32(Kind::StrIdx, "task.name_idx")?;
            w.u32(Kind::Scalar, "task.priority")?;
            w.i64("task.interval_nanos")?;
            w.u32(Kind::StrIdx, "task.single_name_idx")?;
            let p = w.u32(Kind::Count, "task.program_count")?;
            for _ in 0..p {
                w.u32(Kind::StrIdx, "task.program_name_idx")?;
            }
            let f = w.u32(Kind::Count, "task.fb_ref_count")?;
            for _ in 0..f {
                w.u32(Kind::RefIdx, "task.fb_ref_idx")?;
            }
        }
    }
    Some(())
}

fn io_map(w: &mut W<'_>) -> Option<()> {
    let n = w.u32(Kind::Count, "binding_count")?;
    for i in 0..n {
        w.entry = i;
        w.u32(Kind::StrIdx, "address_str_idx")?;
        w.u32(Kind::RefIdx, "ref_idx")?;
        w.u32(Kind::TypeIdx, "type_id")?;
    }
    Some(())
}

fn debug_map(w: &mut W<'_>) -> Option<()> {
    let n = w.u32(Kind::Count, "entry_count")?;
    for i in 0..n {
        w.entry = i;
        w.u32(Kind::PouId, "pou_id")?;
        w.u32(Kind::Offset, "code_offset")?;
        w.u32(Kind::DbgStrIdx, "file_idx")?;
        w.u32(Kind::Scalar, "line")?;
        w.u32(Kind::Scalar, "column")?;
        w.u8(Kind::Scalar, "kind")?;
        w.skip(3)?;
    }
    Some(())
}

fn var_meta(w: &mut W<'_>) -> Option<()> {
    let n = w.u32(Kind::Count, "entry_count")?;
    for i in 0..n {
        w.entry = i;
        w.u32(Kind::StrIdx, "name_idx")?;
        w.u32(Kind::TypeIdx, "type_id")?;
        w.u32(Kind::RefIdx, "ref_idx")?;
        w.u8(Kind::Enum8, "retain")?;
        w.u8(Kind::Reserved, "flags")?;
        w.u16(Kind::Reserved, "reserved")?;
        w.u32(Kind::ConstIdx, "init_const_idx")?;
    }
    Some(())
}

fn retain_init(w: &mut W<'_>) -> Option<()> {
    let n = w.u32(Kind::Count, "entry_count")?;
    for i in 0..n {
        w.entry = i;
        w.u32(Kind::RefIdx, "ref_idx")?;
        w.u32(Kind::ConstIdx, "const_idx")?;
    }
    Some(())
}

pub fn section_name(id: u16) -> &'static str {
    match id {
        0 => "HEADER",
        0xFFFF => "SECTION_TABLE",
        1 => "STRING_TABLE",
        2 => "TYPE_TABLE",
        3 => "CONST_POOL",
        4 => "REF_TABLE",
        5 => "POU_INDEX",
        6 => "POU_BODIES",
        7 => "RESOURCE_META",
        8 => "IO_MAP",
        9 => "DEBUG_MAP",
        0xA => "DEBUG_STRING_TABLE",
        0xB => "VAR_META",
        0xC => "RETAIN_INIT",
        _ => "UNKNOWN",
    }
}

pub fn walk(b: &[u8]) -> Layout {
    let mut lay = Layout::default();
    lay.counts.file_len = b.len() as u32;
    let mut fields = Vec::new();
    {
        let mut w = W {
            b,
            pos: 4,
            end: b.len().min(24),
            sec: 0,
            entry: 0,
            out: &mut fields,
        };
        let hdr = (|| {
            w.u16(Kind::Scalar, "version_major")?;
            w.u16(Kind::Scalar, "version_minor")?;
            w.u32(Kind::Scalar, "flags")?;
            w.u16(Kind::Len, "header_size")?;
            w.u16(Kind::Count, "section_count")?;
            w.u32(Kind::Offset, "section_table_off")?;
            w.u32(Kind::Scalar, "checksum")?;
            Some(())
        })();
        if hdr.is_none() {
            lay.problems.push("header too short".into());
        }
    }
    let nsec = rd_u16(b, 14).unwrap_or(0) as usize;
    let toff = rd_u32(b, 16).unwrap_or(0) as usize;
    let mut secs = Vec::new();
    {
        let mut w = W {
            b,
            pos: toff,
            end: b.len(),
            sec: 0xFFFF,
            entry: 0,
            out: &mut fields,
        };
        for i in 0..nsec {
            w.entry = i as u32;
            let r = (|| {
                let id = w.u16(Kind::Scalar, "id")?;
                w.u16(Kind::Scalar, "flags")?;
                let off = w.u32(Kind::Offset, "offset")?;
                let len = w.u32(Kind::Len, "length")?;
                Some((id, off as usize, len as usize))
            })();
            match r {
                Some(s) => secs.push(s),
                None => {
                    lay.problems.push("section table truncated".into());
                    break;
                }
            }
        }
    }
    // POU_INDEX must be walked before POU_BODIES
    let mut code: Vec<(u32, u32)> = Vec::new();
    let mut order: Vec<usize> = (0..secs.len()).collect();
    order.sort_by_key(|i| if secs[*i].0 == 6 { 1 } else { 0 });
    for i in order {
        let (id, off, len) = secs[i];
        if off + len > b.len() {
            lay.problems.push(format!("section {id:#x} out of bounds"));
            continue;
        }
        let mut w = W {
            b,
            pos: off,
            end: off + len,
            sec: id,
            entry: 0,
            out: &mut fields,
        };
        let done = match id {
            1 => string_table(&mut w).map(|n| lay.counts.strings = n),
            0xA => string_table(&mut w).map(|n| lay.counts.dbg_strings = n),
            2 => type_table(&mut w).map(|n| lay.counts.types = n),
            3 => const_pool(&mut w).map(|n| lay.counts.consts = n),
            4 => ref_table(&mut w).map(|n| lay.counts.refs = n),
            5 => pou_index(&mut w, &mut code).map(|n| lay.counts.pous = n),
            6 => {
                lay.counts.bodies_len = len as u32;
                pou_bodies(&mut w, &code)
            }
            7 => resource_meta(&mut w),
            8 => io_map(&mut w),
            9 => debug_map(&mut w),
            0xB => var_meta(&mut w),
            0xC => retain_init(&mut w),
            _ => {
                w.pos = w.end;
                Some(())
            }
        };
        if done.is_none() {
            lay.problems
                .push(format!("section {} walk failed at byte {}", section_name(id), w.pos));
        } else if w.pos != off + len {
            lay.problems.push(format!(
                "section {} walk ended at {} of {}",
                section_name(id),
                w.pos - off,
                len
            ));
        }
    }
    lay.sections = secs;
    // classes
    let mut classes: Vec<((u16, &'static str), Vec<u32>)> = Vec::new();
    let mut index: std::collections::BTreeMap<(u16, &'static str), usize> = Default::default();
    for (i, f) in fields.iter().enumerate() {
        let key = (f.sec, f.name);
        let slot = *index.entry(key).or_insert_with(|| {
            classes.push((key, Vec::new()));
            classes.len() - 1
        });
        classes[slot].1.push(i as u32);
    }
    classes.sort_by_key(|(k, _)| *k);
    lay.fields = fields;
    lay.classes = classes;
    lay
}
