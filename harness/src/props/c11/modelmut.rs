//! Typed mutation of a decoded `BytecodeModule`. Every mutated model stays *representable*
//! (type kind matches its data, class metadata exactly on class-like POUs, no `Some(u32::MAX)`
//! where the wire format uses u32::MAX for `None`, section id matches the section data), so
//! that `decode(encode(m)) == m` can be demanded of it; everything else (counts, indices,
//! offsets, cycles, code, sizes) is hostile.

use smol_str::SmolStr;
use trust_runtime::bytecode::*;

use crate::engine::tape::Reader;

pub const IMAGE_SIZES: &[u32] = &[
    0,
    1,
    2,
    7,
    8,
    64,
    4096,
    65_536,
    1 << 20,
    (64 << 20) / 3,
    64 << 20,
    (64 << 20) + 1,
    0x7FFF_FFFF,
    0xFFFF_FFF0,
    0xFFFF_FFFF,
];

pub const I64S: &[i64] = &[
    0,
    1,
    -1,
    2,
    10_000_000,
    1_000_000_000,
    i64::MAX,
    i64::MIN,
    i64::MAX - 1,
    i64::MIN + 1,
    i32::MAX as i64,
    i32::MIN as i64,
    u32::MAX as i64,
];

/// A hostile replacement for an index/count whose valid range is `0..n`.
pub fn hostile_u32(r: &mut Reader, n: u32, orig: u32, self_idx: u32) -> u32 {
    let v = match r.pick(14) {
        0 => 0,
        1 => 1,
        2 => n.wrapping_sub(1),
        3 => n,
        4 => n.wrapping_add(1),
        5 => orig.wrapping_add(1),
        6 => orig.wrapping_sub(1),
        7 => self_idx,
        8 => 0x7FFF_FFFF,
        9 => 0x8000_0000,
        10 => 0xFFFF_FFF0,
        11 => 0xFFFF_FFFE,
        12 => r.word() % n.max(1),
        _ => r.word(),
    };
    if v == u32::MAX {
        0xFFFF_FFFE
    } else {
        v
    }
}

fn hostile_opt(r: &mut Reader, n: u32, orig: Option<u32>, self_idx: u32) -> Option<u32> {
    if r.chance(1, 8) {
        return None;
    }
    Some(hostile_u32(r, n, orig.unwrap_or(0), self_idx))
}

fn pick_i64(r: &mut Reader, orig: i64) -> i64 {
    match r.pick(4) {
        0 => orig.wrapping_add(1),
        1 => orig.wrapping_neg(),
        _ => I64S[r.pick(I64S.len())],
    }
}

#[derive(Default, Clone, Copy)]
struct N {
    strings: u32,
    types: u32,
    consts: u32,
    refs: u32,
    pous: u32,
    bodies: u32,
}

fn counts(m: &BytecodeModule) -> N {
    let mut n = N::default();
    for s in &m.sections {
        match &s.data {
            SectionData::StringTable(t) => n.strings = t.entries.len() as u32,
            SectionData::TypeTable(t) => n.types = t.entries.len() as u32,
            SectionData::ConstPool(t) => n.consts = t.entries.len() as u32,
            SectionData::RefTable(t) => n.refs = t.entries.len() as u32,
            SectionData::PouIndex(t) => n.pous = t.entries.len() as u32,
            SectionData::PouBodies(b) => n.bodies = b.len() as u32,
            _ => {}
        }
    }
    n
}

fn sec_index(m: &BytecodeModule, id: SectionId) -> Option<usize> {
    m.sections.iter().position(|s| s.id == id.as_raw())
}

/// Payload that the validator's constant walk accepts for `type_id` (best effort, bounded).
fn payload_for(types: &[TypeEntry], type_id: u32, r: &mut Reader, depth: u32, out: &mut Vec<u8>) {
    if depth > 6 || out.len() > 2048 {
        return;
    }
    let Some(t) = types.get(type_id as usize) else {
        return;
    };
    match &t.data {
        TypeData::Primitive { prim_id, .. } => match prim_id {
            1 | 2 | 6 | 10 | 26 => out.push(r.word() as u8),
            3 | 7 | 11 | 27 => out.extend_from_slice(&(r.word() as u16).to_le_bytes()),
            4 | 8 | 12 | 14 => out.extend_from_slice(&r.word().to_le_bytes()),
            24 | 25 => out.extend_from_slice(&(r.word() % 8).to_le_bytes()),
            _ => out.extend_from_slice(&r.u64().to_le_bytes()),
        },
        TypeData::Array { elem_type_id, .. } => {
            let count = match r.pick(6) {
                0 => 0u32,
                1 => 1,
                2 => 2,
                3 => 5,
                4 => 0xFFFF_FFFF,
                _ => 0x7FFF_FFFF,
            };
            out.extend_from_slice(&count.to_le_bytes());
            for _ in 0..count.min(5) {
                payload_for(types, *elem_type_id, r, depth + 1, out);
            }
        }
        TypeData::Struct { fields } | TypeData::Union { fields } => {
            let n = if r.chance(1, 6) {
                fields.len() as u32 + 1
            } else {
                fields.len() as u32
            };
            out.extend_from_slice(&n.to_le_bytes());
            for f in fields.iter().take(16) {
                payload_for(types, f.type_id, r, depth + 1, out);
            }
        }
        TypeData::Enum { .. } => out.extend_from_slice(&r.u64().to_le_bytes()),
        TypeData::Alias { target_type_id } => payload_for(types, *target_type_id, r, depth + 1, out),
        TypeData::Subrange { base_type_id, .. } => {
            payload_for(types, *base_type_id, r, depth + 1, out)
        }
        TypeData::Reference { .. } => out.extend_from_slice(&r.word().to_le_bytes()),
        _ => out.extend_from_slice(&r.word().to_le_bytes()),
    }
}

/// A random instruction stream built from the validator's opcode table, with hostile
/// operands (jump offsets at the i32 limits, dangling ids).
pub fn gen_code(r: &mut Reader, n: N2) -> Vec<u8> {
    let mut code: Vec<u8> = Vec::new();
    let count = r.pick(24);
    const NOARG: &[u8] = &[
        0x00, 0x01, 0x06, 0x11, 0x12, 0x13, 0x14, 0x15, 0x23, 0x31, 0x32, 0x33, 0x40, 0x41, 0x45,
        0x4C, 0x4E, 0x50, 0x55,
    ];
    for _ in 0..count {
        match r.weighted(&[6, 8, 3, 2, 2, 3, 1, 1]) {
            0 => code.push(NOARG[r.pick(NOARG.len())]),
            1 => {
                // jump
                code.push(0x02 + r.pick(3) as u8);
                let pc = code.len() as i64 - 1;
                let off: i32 = match r.pick(14) {
                    0 => 0,
                    1 => -5,
                    2 => i32::MAX,
                    3 => i32::MIN,
                    4 => i32::MAX - 4,
                    5 => i32::MAX - 5,
                    6 => i32::MAX - 6,
                    7 => (-(pc + 5)) as i32,
                    8 => (-(pc + 6)) as i32,
                    9 => i32::MIN + 5,
                    10 => 1,
                    11 => -1,
                    12 => 5,
                    _ => r.word() as i32,
                };
                code.extend_from_slice(&off.to_le_bytes());
            }
            2 => {
                code.push(0x05);
                let id = hostile_u32(r, n.pous, 0, 0);
                code.extend_from_slice(&id.to_le_bytes());
            }
            3 => {
                code.push(0x08);
                let t = hostile_u32(r, n.types, n.iface_type, n.iface_type);
                let slot = hostile_u32(r, 2, 0, 0);
                code.extend_from_slice(&t.to_le_bytes());
                code.extend_from_slice(&slot.to_le_bytes());
            }
            4 => {
                code.push(0x60);
                let t = hostile_u32(r, n.types, 0, 0);
                code.extend_from_slice(&t.to_le_bytes());
            }
            5 => {
                let op = [0x07u8, 0x10, 0x20, 0x21, 0x22, 0x30, 0x70][r.pick(7)];
                code.push(op);
                let v = hostile_u32(r, n.refs.max(n.consts), 0, 0);
                code.extend_from_slice(&v.to_le_bytes());
            }
            6 => {
                code.push(0x16);
                code.push(r.word() as u8);
            }
            _ => code.push(r.word() as u8),
        }
    }
    // sometimes cut the last operand short
    if r.chance(1, 10) && !code.is_empty() {
        let cut = 1 + r.pick(3.min(code.len()));
        code.truncate(code.len() - cut);
    }
    code
}

#[derive(Clone, Copy, Default)]
pub struct N2 {
    pub pous: u32,
    pub types: u32,
    pub refs: u32,
    pub consts: u32,
    pub iface_type: u32,
}

fn new_string(r: &mut Reader) -> SmolStr {
    const S: &[&str] = &[
        "", "x", "Main", "MAIN", "main", "R", "T", "trigger", "%IX0.0", "%QW4", "%MD8", "%IX9999999.7",
        "%I*", "%QX0.8", "\u{e9}\u{4e2d}\u{1F600}", "a very long name that does not fit inline in a SmolStr value 0123456789",
        "P1", "fb", "other",
    ];
    SmolStr::new(S[r.pick(S.len())])
}

fn mutate_types(m: &mut BytecodeModule, r: &mut Reader, log: &mut Vec<String>) {
    let n = counts(m);
    let Some(ti) = sec_index(m, SectionId::TypeTable) else {
        return;
    };
    let choice = r.pick(9);
    let mut new_consts: Vec<ConstEntry> = Vec::new();
    if let SectionData::TypeTable(table) = &mut m.sections[ti].data {
        let base = table.entries.len() as u32;
        let prim = table
            .entries
            .iter()
            .position(|e| matches!(e.data, TypeData::Primitive { .. }))
            .unwrap_or(0) as u32;
        let name_idx = if r.flag() { None } else { Some(hostile_u32(r, n.strings, 0, 0)) };
        let push = |table: &mut TypeTable, kind: TypeKind, data: TypeData| {
            table.entries.push(TypeEntry {
                kind,
                name_idx,
                data,
            });
        };
        match choice {
            0 => {
                // alias to itself
                push(table, TypeKind::Alias, TypeData::Alias { target_type_id: base });
                new_consts.push(ConstEntry {
                    type_id: base,
                    payload: vec![0; r.pick(9)],
                });
                log.push("types: alias -> itself + const".into());
            }
            1 => {
                // two-cycle through alias / subrange
                push(table, TypeKind::Alias, TypeData::Alias { target_type_id: base + 1 });
                push(
                    table,
                    TypeKind::Subrange,
                    TypeData::Subrange {
                        base_type_id: base,
                        lower: 0,
                        upper: 10,
                    },
                );
                new_consts.push(ConstEntry {
                    type_id: base + r.pick(2) as u32,
                    payload: vec![1, 0, 0, 0],
                });
                log.push("types: alias <-> subrange cycle + const".into());
            }
            2 => {
                // array of itself; payload = nested counts of 1
                push(
                    table,
                    TypeKind::Array,
                    TypeData::Array {
                        elem_type_id: base,
                        dims: vec![(0, 0)],
                    },
                );
                let depth = [1usize, 4, 64, 1024, 20_000, 120_000][r.pick(6)];
                let mut payload = Vec::with_capacity(depth * 4);
                for _ in 0..depth {
                    payload.extend_from_slice(&1u32.to_le_bytes());
                }
                new_consts.push(ConstEntry {
                    type_id: base,
                    payload,
                });
                log.push(format!("types: array of itself + const with {depth} nested counts"));
            }
            3 => {
                // struct containing itself
                push(
                    table,
                    TypeKind::Struct,
                    TypeData::Struct {
                        fields: vec![
                            Field {
                                name_idx: 0,
                                type_id: prim,
                            },
                            Field {
                                name_idx: 0,
                                type_id: base,
                            },
                        ],
                    },
                );
                let depth = [1usize, 8, 512, 30_000][r.pick(4)];
                let mut payload = Vec::new();
                for _ in 0..depth {
                    if payload.len() > 600_000 {
                        break;
                    }
                    payload.extend_from_slice(&2u32.to_le_bytes());
                    let mut p = Vec::new();
                    payload_for(&table.entries, prim, r, 5, &mut p);
                    payload.extend_from_slice(&p);
                }
                new_consts.push(ConstEntry {
                    type_id: base,
                    payload,
                });
                log.push(format!("types: struct containing itself + const depth {depth}"));
            }
            4 => {
                // long acyclic alias chain ending in a primitive
                let len = [2u32, 16, 300, 5_000, 60_000][r.pick(5)];
                for i in 0..len {
                    let target = if i + 1 == len { prim } else { base + i + 1 };
                    push(table, TypeKind::Alias, TypeData::Alias { target_type_id: target });
                }
                let mut payload = Vec::new();
                payload_for(&table.entries, prim, r, 0, &mut payload);
                new_consts.push(ConstEntry {
                    type_id: base,
                    payload,
                });
                log.push(format!("types: alias chain of {len} + const"));
            }
            5 => {
                // union / reference / interface / pou types with hostile members
                let t = hostile_u32(r, n.types, 0, base);
                match r.pick(5) {
                    0 => push(
                        table,
                        TypeKind::Union,
                        TypeData::Union {
                            fields: vec![Field {
                                name_idx: hostile_u32(r, n.strings, 0, 0),
                                type_id: t,
                            }],
                        },
                    ),
                    1 => push(table, TypeKind::Reference, TypeData::Reference { target_type_id: t }),
                    2 => push(
                        table,
                        TypeKind::Interface,
                        TypeData::Interface {
                            methods: (0..r.pick(4))
                                .map(|i| InterfaceMethod {
                                    name_idx: hostile_u32(r, n.strings, 0, 0),
                                    slot: i as u32,
                                })
                                .collect(),
                        },
                    ),
                    3 => push(
                        table,
                        if r.flag() { TypeKind::FunctionBlock } else { TypeKind::Class },
                        TypeData::Pou {
                            pou_id: hostile_u32(r, n.pous, 0, 0),
                        },
                    ),
                    _ => push(
                        table,
                        TypeKind::Enum,
                        TypeData::Enum {
                            base_type_id: t,
                            variants: (0..r.pick(4))
                                .map(|_| EnumVariant {
                                    name_idx: hostile_u32(r, n.strings, 0, 0),
                                    value: pick_i64(r, 0),
                                })
                                .collect(),
                        },
                    ),
                }
                let mut payload = Vec::new();
                payload_for(&table.entries, base, r, 0, &mut payload);
                new_consts.push(ConstEntry {
                    type_id: base,
                    payload,
                });
                log.push("types: new union/reference/interface/pou/enum type + const".into());
            }
            6 => {
                // array with hostile dims
                let dims: Vec<(i64, i64)> = (0..r.pick(4))
                    .map(|_| (pick_i64(r, 0), pick_i64(r, 0)))
                    .collect();
                push(
                    table,
                    TypeKind::Array,
                    TypeData::Array {
                        elem_type_id: hostile_u32(r, n.types, prim, base),
                        dims,
                    },
                );
                let mut payload = Vec::new();
                payload_for(&table.entries, base, r, 0, &mut payload);
                new_consts.push(ConstEntry {
                    type_id: base,
                    payload,
                });
                log.push("types: array with hostile dims + const".into());
            }
            7 => {
                // patch an existing entry's references
                if !table.entries.is_empty() {
                    let i = r.pick(table.entries.len());
                    let nn = table.entries.len() as u32;
                    let e = &mut table.entries[i];
                    if r.chance(1, 4) {
                        e.name_idx = hostile_opt(r, n.strings, e.name_idx, i as u32);
                    }
                    match &mut e.data {
                        TypeData::Primitive { prim_id, max_length } => {
                            if r.flag() {
                                *prim_id = [0u16, 1, 13, 14, 23, 24, 25, 26, 27, 28, 0xFFFF][r.pick(11)];
                            } else {
                                *max_length = r.word() as u16;
                            }
                        }
                        TypeData::Array { elem_type_id, dims } => {
                            if r.flag() {
                                *elem_type_id = hostile_u32(r, nn, *elem_type_id, i as u32);
                            } else if let Some(d) = dims.first_mut() {
                                *d = (pick_i64(r, d.0), pick_i64(r, d.1));
                            } else {
                                dims.push((0, 1));
                            }
                        }
                        TypeData::Struct { fields } | TypeData::Union { fields } => {
                            if fields.is_empty() || r.chance(1, 4) {
                                fields.push(Field {
                                    name_idx: hostile_u32(r, n.strings, 0, 0),
                                    type_id: hostile_u32(r, nn, 0, i as u32),
                                });
                            } else {
                                let k = r.pick(fields.len());
                                if r.flag() {
                                    fields[k].type_id = hostile_u32(r, nn, fields[k].type_id, i as u32);
                                } else {
                                    fields[k].name_idx = hostile_u32(r, n.strings, fields[k].name_idx, 0);
                                }
                            }
                        }
                        TypeData::Enum { base_type_id, variants } => {
                            if variants.is_empty() || r.flag() {
                                *base_type_id = hostile_u32(r, nn, *base_type_id, i as u32);
                            } else {
                                let k = r.pick(variants.len());
                                variants[k].name_idx = hostile_u32(r, n.strings, variants[k].name_idx, 0);
                                variants[k].value = pick_i64(r, variants[k].value);
                            }
                        }
                        TypeData::Alias { target_type_id }
                        | TypeData::Reference { target_type_id }
                        | TypeData::Subrange {
                            base_type_id: target_type_id,
                            ..
                        } => {
                            *target_type_id = hostile_u32(r, nn, *target_type_id, i as u32);
                        }
                        TypeData::Pou { pou_id } => *pou_id = hostile_u32(r, n.pous, *pou_id, 0),
                        TypeData::Interface { methods } => {
                            if methods.is_empty() || r.chance(1, 3) {
                                methods.push(InterfaceMethod {
                                    name_idx: hostile_u32(r, n.strings, 0, 0),
                                    slot: r.word(),
                                });
                            } else if r.flag() {
                                methods.pop();
                            } else {
                                let k = r.pick(methods.len());
                                methods[k].name_idx = hostile_u32(r, n.strings, methods[k].name_idx, 0);
                                methods[k].slot = hostile_u32(r, methods.len() as u32, methods[k].slot, 0);
                            }
                        }
                    }
                    log.push(format!("types: patched entry {i}"));
                }
            }
            _ => {
                // remove the last entries (dangling type ids everywhere)
                let k = 1 + r.pick(3);
                for _ in 0..k {
                    table.entries.pop();
                }
                log.push(format!("types: removed last {k} entries"));
            }
        }
    }
    if !new_consts.is_empty() {
        if let Some(ci) = sec_index(m, SectionId::ConstPool) {
            if let SectionData::ConstPool(pool) = &mut m.sections[ci].data {
                pool.entries.extend(new_consts);
            }
        }
    }
}

fn mutate_consts(m: &mut BytecodeModule, r: &mut Reader, log: &mut Vec<String>) {
    let n = counts(m);
    let types: Vec<TypeEntry> = match m.section(SectionId::TypeTable) {
        Some(SectionData::TypeTable(t)) => t.entries.clone(),
        _ => Vec::new(),
    };
    let Some(ci) = sec_index(m, SectionId::ConstPool) else {
        return;
    };
    if let SectionData::ConstPool(pool) = &mut m.sections[ci].data {
        match r.pick(5) {
            0 | 1 => {
                let type_id = if r.chance(1, 5) {
                    hostile_u32(r, n.types, 0, 0)
                } else {
                    r.pick(n.types.max(1) as usize) as u32
                };
                let mut payload = Vec::new();
                payload_for(&types, type_id, r, 0, &mut payload);
                match r.pick(6) {
                    0 => {
                        payload.pop();
                    }
                    1 => payload.push(0),
                    _ => {}
                }
                pool.entries.push(ConstEntry { type_id, payload });
                log.push(format!("consts: added entry of type {type_id}"));
            }
            2 => {
                if !pool.entries.is_empty() {
                    let i = r.pick(pool.entries.len());
                    pool.entries[i].type_id = hostile_u32(r, n.types, pool.entries[i].type_id, 0);
                    log.push(format!("consts: retyped entry {i}"));
                }
            }
            3 => {
                if !pool.entries.is_empty() {
                    let i = r.pick(pool.entries.len());
                    let p = &mut pool.entries[i].payload;
                    match r.pick(4) {
                        0 => p.clear(),
                        1 => {
                            p.pop();
                        }
                        2 => p.extend_from_slice(&[0xFF; 4]),
                        _ => {
                            if !p.is_empty() {
                                let k = r.pick(p.len());
                                p[k] = r.word() as u8;
                            }
                        }
                    }
                    log.push(format!("consts: edited payload of entry {i}"));
                }
            }
            _ => {
                let k = 1 + r.pick(3);
                for _ in 0..k {
                    pool.entries.pop();
                }
                log.push(format!("consts: removed last {k} entries"));
            }
        }
    }
}

fn mutate_code(m: &mut BytecodeModule, r: &mut Reader, log: &mut Vec<String>) {
    let n = counts(m);
    let iface_type = match m.section(SectionId::TypeTable) {
        Some(SectionData::TypeTable(t)) => t
            .entries
            .iter()
            .position(|e| matches!(e.data, TypeData::Interface { .. }))
            .unwrap_or(0) as u32,
        _ => 0,
    };
    let code = gen_code(
        r,
        N2 {
            pous: n.pous,
            types: n.types,
            refs: n.refs,
            consts: n.consts,
            iface_type,
        },
    );
    let (Some(pi), Some(bi)) = (
        sec_index(m, SectionId::PouIndex),
        sec_index(m, SectionId::PouBodies),
    ) else {
        return;
    };
    let mode = r.pick(4);
    let sel = r.word();
    let mut new_off = 0u32;
    if let SectionData::PouBodies(bodies) = &mut m.sections[bi].data {
        new_off = bodies.len() as u32;
        bodies.extend_from_slice(&code);
    }
    if let SectionData::PouIndex(index) = &mut m.sections[pi].data {
        if index.entries.is_empty() {
            return;
        }
        let i = ((sel as u64 * index.entries.len() as u64) >> 32) as usize;
        let e = &mut index.entries[i];
        match mode {
            0 | 1 => {
                e.code_offset = new_off;
                e.code_length = code.len() as u32;
                log.push(format!("code: POU {i} now runs {} generated bytes", code.len()));
            }
            2 => {
                e.code_offset = hostile_u32(r, n.bodies, e.code_offset, 0);
                log.push(format!("code: POU {i} code_offset hostile"));
            }
            _ => {
                e.code_length = hostile_u32(r, n.bodies, e.code_length, 0);
                log.push(format!("code: POU {i} code_length hostile"));
            }
        }
    }
}

fn mutate_pou_index(m: &mut BytecodeModule, r: &mut Reader, log: &mut Vec<String>) {
    let n = counts(m);
    let Some(pi) = sec_index(m, SectionId::PouIndex) else {
        return;
    };
    if let SectionData::PouIndex(index) = &mut m.sections[pi].data {
        if index.entries.is_empty() {
            return;
        }
        let i = r.pick(index.entries.len());
        let what = r.pick(14);
        let e = &mut index.entries[i];
        match what {
            0 => e.id = hostile_u32(r, n.pous, e.id, i as u32),
            1 => e.name_idx = hostile_u32(r, n.strings, e.name_idx, 0),
            2 => {
                e.kind = [
                    PouKind::Program,
                    PouKind::FunctionBlock,
                    PouKind::Function,
                    PouKind::Class,
                    PouKind::Method,
                ][r.pick(5)];
                let class_like = matches!(e.kind, PouKind::FunctionBlock | PouKind::Class);
                if class_like && e.class_meta.is_none() {
                    e.class_meta = Some(PouClassMeta {
                        parent_pou_id: None,
                        interfaces: Vec::new(),
                        methods: Vec::new(),
                    });
                }
                if !class_like {
                    e.class_meta = None;
                }
            }
            3 => e.local_ref_start = hostile_u32(r, n.refs, e.local_ref_start, 0),
            4 => e.local_ref_count = hostile_u32(r, n.refs, e.local_ref_count, 0),
            5 => e.return_type_id = hostile_opt(r, n.types, e.return_type_id, 0),
            6 => e.owner_pou_id = hostile_opt(r, n.pous, e.owner_pou_id, e.id),
            7 => {
                e.params.push(ParamEntry {
                    name_idx: hostile_u32(r, n.strings, 0, 0),
                    type_id: hostile_u32(r, n.types, 0, 0),
                    direction: r.word() as u8,
                    default_const_idx: hostile_opt(r, n.consts, None, 0),
                });
            }
            8 => {
                if !e.params.is_empty() {
                    let k = r.pick(e.params.len());
                    let p = &mut e.params[k];
                    match r.pick(4) {
                        0 => p.name_idx = hostile_u32(r, n.strings, p.name_idx, 0),
                        1 => p.type_id = hostile_u32(r, n.types, p.type_id, 0),
                        2 => p.direction = r.word() as u8,
                        _ => p.default_const_idx = hostile_opt(r, n.consts, p.default_const_idx, 0),
                    }
                }
            }
            9..=12 => {
                if let Some(meta) = e.class_meta.as_mut() {
                    match what {
                        9 => meta.parent_pou_id = hostile_opt(r, n.pous, meta.parent_pou_id, e.id),
                        10 => meta.interfaces.push(InterfaceImpl {
                            interface_type_id: hostile_u32(r, n.types, 0, 0),
                            vtable_slots: (0..r.pick(4)).map(|_| r.word()).collect(),
                        }),
                        11 => {
                            if !meta.interfaces.is_empty() {
                                let k = r.pick(meta.interfaces.len());
                                let it = &mut meta.interfaces[k];
                                match r.pick(3) {
                                    0 => it.interface_type_id = hostile_u32(r, n.types, it.interface_type_id, 0),
                                    1 => it.vtable_slots.push(r.word()),
                                    _ => {
                                        it.vtable_slots.pop();
                                    }
                                }
                            }
                        }
                        _ => {
                            if meta.methods.is_empty() || r.chance(1, 3) {
                                meta.methods.push(MethodEntry {
                                    name_idx: hostile_u32(r, n.strings, 0, 0),
                                    pou_id: hostile_u32(r, n.pous, 0, e.id),
                                    vtable_slot: r.word(),
                                    access: r.word() as u8,
                                    flags: r.word() as u8,
                                });
                            } else {
                                let k = r.pick(meta.methods.len());
                                let me = &mut meta.methods[k];
                                match r.pick(3) {
                                    0 => me.name_idx = hostile_u32(r, n.strings, me.name_idx, 0),
                                    1 => me.pou_id = hostile_u32(r, n.pous, me.pou_id, e.id),
                                    _ => me.vtable_slot = r.word(),
                                }
                            }
                        }
                    }
                }
            }
            _ => {
                // duplicate the entry (duplicate ids / names)
                let dup = e.clone();
                index.entries.push(dup);
            }
        }
        log.push(format!("pou_index: entry {i} mutation {what}"));
    }
}

fn mutate_resources(m: &mut BytecodeModule, r: &mut Reader, log: &mut Vec<String>) {
    let n = counts(m);
    let strings: Vec<SmolStr> = match m.section(SectionId::StringTable) {
        Some(SectionData::StringTable(t)) => t.entries.clone(),
        _ => Vec::new(),
    };
    let find = |s: &str| strings.iter().position(|e| e.eq_ignore_ascii_case(s)).map(|i| i as u32);
    let Some(ri) = sec_index(m, SectionId::ResourceMeta) else {
        return;
    };
    if let SectionData::ResourceMeta(meta) = &mut m.sections[ri].data {
        let what = r.pick(14);
        if meta.resources.is_empty() || what == 0 {
            meta.resources.push(ResourceEntry {
                name_idx: hostile_u32(r, n.strings, 0, 0),
                inputs_size: IMAGE_SIZES[r.pick(IMAGE_SIZES.len())],
                outputs_size: IMAGE_SIZES[r.pick(IMAGE_SIZES.len())],
                memory_size: IMAGE_SIZES[r.pick(IMAGE_SIZES.len())],
                tasks: Vec::new(),
            });
            if r.flag() && meta.resources.len() > 1 {
                meta.resources.swap(0, 1);
            }
            log.push("resources: added a resource".into());
            return;
        }
        let ri = r.pick(meta.resources.len());
        let res = &mut meta.resources[ri];
        match what {
            1 => res.inputs_size = IMAGE_SIZES[r.pick(IMAGE_SIZES.len())],
            2 => res.outputs_size = IMAGE_SIZES[r.pick(IMAGE_SIZES.len())],
            3 => res.memory_size = IMAGE_SIZES[r.pick(IMAGE_SIZES.len())],
            4 => {
                let s = IMAGE_SIZES[r.pick(8)];
                res.inputs_size = s;
                res.outputs_size = s;
                res.memory_size = s;
            }
            5 => res.name_idx = hostile_u32(r, n.strings, res.name_idx, 0),
            6 | 7 => {
                // a new task over names that exist in the string table (programs, globals)
                let prog = r.pick(strings.len().max(1)) as u32;
                let t = TaskEntry {
                    name_idx: if r.flag() {
                        res.tasks.first().map(|t| t.name_idx).unwrap_or(0)
                    } else {
                        r.pick(strings.len().max(1)) as u32
                    },
                    priority: [0u32, 1, 0xFFFF_FFFF, 5][r.pick(4)],
                    interval_nanos: pick_i64(r, 1_000_000),
                    single_name_idx: if r.flag() {
                        None
                    } else {
                        Some(
                            find("trigger")
                                .filter(|_| r.flag())
                                .unwrap_or(r.pick(strings.len().max(1)) as u32),
                        )
                    },
                    program_name_idx: if r.flag() {
                        vec![prog]
                    } else {
                        res.tasks
                            .first()
                            .map(|t| t.program_name_idx.clone())
                            .unwrap_or_default()
                    },
                    fb_ref_idx: (0..r.pick(3)).map(|_| r.pick(n.refs.max(1) as usize) as u32).collect(),
                };
                res.tasks.push(t);
            }
            _ => {
                if res.tasks.is_empty() {
                    return;
                }
                let ti = r.pick(res.tasks.len());
                let t = &mut res.tasks[ti];
                match what {
                    8 => t.interval_nanos = pick_i64(r, t.interval_nanos),
                    9 => t.priority = [0u32, 1, 0x7FFF_FFFF, 0xFFFF_FFFF][r.pick(4)],
                    10 => {
                        t.single_name_idx = if r.chance(1, 4) {
                            None
                        } else if r.flag() {
                            Some(r.pick(strings.len().max(1)) as u32)
                        } else {
                            Some(hostile_u32(r, n.strings, t.single_name_idx.unwrap_or(0), 0))
                        }
                    }
                    11 => {
                        if t.program_name_idx.is_empty() || r.chance(1, 3) {
                            t.program_name_idx.push(r.pick(strings.len().max(1)) as u32);
                        } else {
                            let k = r.pick(t.program_name_idx.len());
                            t.program_name_idx[k] = if r.flag() {
                                r.pick(strings.len().max(1)) as u32
                            } else {
                                hostile_u32(r, n.strings, t.program_name_idx[k], 0)
                            };
                        }
                    }
                    12 => {
                        if t.fb_ref_idx.is_empty() || r.chance(1, 3) {
                            t.fb_ref_idx.push(r.pick(n.refs.max(1) as usize) as u32);
                        } else {
                            let k = r.pick(t.fb_ref_idx.len());
                            t.fb_ref_idx[k] = hostile_u32(r, n.refs, t.fb_ref_idx[k], 0);
                        }
                    }
                    _ => t.name_idx = hostile_u32(r, n.strings, t.name_idx, 0),
                }
            }
        }
        log.push(format!("resources: resource {ri} mutation {what}"));
    }
}

fn mutate_refs(m: &mut BytecodeModule, r: &mut Reader, log: &mut Vec<String>) {
    let n = counts(m);
    let Some(ri) = sec_index(m, SectionId::RefTable) else {
        return;
    };
    if let SectionData::RefTable(table) = &mut m.sections[ri].data {
        let what = r.pick(8);
        if table.entries.is_empty() || what == 0 {
            table.entries.push(RefEntry {
                location: [
                    RefLocation::Global,
                    RefLocation::Local,
                    RefLocation::Instance,
                    RefLocation::Io,
                    RefLocation::Retain,
                ][r.pick(5)],
                owner_id: hostile_u32(r, 3, 0, 0),
                offset: hostile_u32(r, 4, 0, 0),
                segments: Vec::new(),
            });
            log.push("refs: added an entry".into());
            return;
        }
        let i = r.pick(table.entries.len());
        let e = &mut table.entries[i];
        match what {
            1 => {
                e.location = [
                    RefLocation::Global,
                    RefLocation::Local,
                    RefLocation::Instance,
                    RefLocation::Io,
                    RefLocation::Retain,
                ][r.pick(5)]
            }
            2 => e.owner_id = hostile_u32(r, 3, e.owner_id, 0),
            3 => e.offset = hostile_u32(r, 8, e.offset, 0),
            4 => e.segments.push(RefSegment::Index(
                (0..r.pick(4)).map(|_| pick_i64(r, 0)).collect(),
            )),
            5 => e.segments.push(RefSegment::Field {
                name_idx: hostile_u32(r, n.strings, 0, 0),
            }),
            6 => {
                if let Some(seg) = e.segments.first_mut() {
                    match seg {
                        RefSegment::Index(v) => {
                            if v.is_empty() || r.chance(1, 3) {
                                v.push(pick_i64(r, 0));
                            } else {
                                let k = r.pick(v.len());
                                v[k] = pick_i64(r, v[k]);
                            }
                        }
                        RefSegment::Field { name_idx } => {
                            *name_idx = hostile_u32(r, n.strings, *name_idx, 0)
                        }
                    }
                }
            }
            _ => {
                let k = 1 + r.pick(3);
                for _ in 0..k {
                    table.entries.pop();
                }
            }
        }
        log.push(format!("refs: entry {i} mutation {what}"));
    }
}

fn mutate_small_tables(m: &mut BytecodeModule, r: &mut Reader, log: &mut Vec<String>) {
    let n = counts(m);
    let ids = [
        SectionId::IoMap,
        SectionId::VarMeta,
        SectionId::RetainInit,
        SectionId::DebugMap,
        SectionId::StringTable,
        SectionId::DebugStringTable,
    ];
    let id = ids[r.pick(ids.len())];
    if sec_index(m, id).is_none() {
        // optional section the compiler left out: add it (empty), then mutate it
        let data = match id {
            SectionId::IoMap => SectionData::IoMap(IoMap::default()),
            SectionId::VarMeta => SectionData::VarMeta(VarMeta::default()),
            SectionId::RetainInit => SectionData::RetainInit(RetainInit::default()),
            SectionId::DebugMap => SectionData::DebugMap(DebugMap::default()),
            SectionId::StringTable => SectionData::StringTable(StringTable::default()),
            _ => SectionData::DebugStringTable(StringTable::default()),
        };
        m.sections.push(Section {
            id: id.as_raw(),
            flags: 0,
            data,
        });
    }
    let dbg_strings = match m.section(SectionId::DebugStringTable) {
        Some(SectionData::DebugStringTable(t)) => t.entries.len() as u32,
        _ => 0,
    };
    let si = sec_index(m, id).unwrap();
    match &mut m.sections[si].data {
        SectionData::IoMap(map) => {
            if map.bindings.is_empty() || r.chance(1, 3) {
                map.bindings.push(IoBinding {
                    address_str_idx: r.pick(n.strings.max(1) as usize) as u32,
                    ref_idx: r.pick(n.refs.max(1) as usize) as u32,
                    type_id: hostile_opt(r, n.types, None, 0),
                });
            } else {
                let i = r.pick(map.bindings.len());
                let b = &mut map.bindings[i];
                match r.pick(3) {
                    0 => b.address_str_idx = hostile_u32(r, n.strings, b.address_str_idx, 0),
                    1 => b.ref_idx = hostile_u32(r, n.refs, b.ref_idx, 0),
                    _ => b.type_id = hostile_opt(r, n.types, b.type_id, 0),
                }
            }
            log.push("io_map mutated".into());
        }
        SectionData::VarMeta(meta) => {
            if meta.entries.is_empty() || r.chance(1, 4) {
                meta.entries.push(VarMetaEntry {
                    name_idx: hostile_u32(r, n.strings, 0, 0),
                    type_id: hostile_u32(r, n.types, 0, 0),
                    ref_idx: hostile_u32(r, n.refs, 0, 0),
                    retain: r.pick(6) as u8,
                    init_const_idx: hostile_opt(r, n.consts, None, 0),
                });
            } else {
                let i = r.pick(meta.entries.len());
                let e = &mut meta.entries[i];
                match r.pick(5) {
                    0 => e.name_idx = hostile_u32(r, n.strings, e.name_idx, 0),
                    1 => e.type_id = hostile_u32(r, n.types, e.type_id, 0),
                    2 => e.ref_idx = hostile_u32(r, n.refs, e.ref_idx, 0),
                    3 => e.retain = [0u8, 3, 4, 0x7F, 0xFF][r.pick(5)],
                    _ => e.init_const_idx = hostile_opt(r, n.consts, e.init_const_idx, 0),
                }
            }
            log.push("var_meta mutated".into());
        }
        SectionData::RetainInit(ret) => {
            if ret.entries.is_empty() || r.chance(1, 4) {
                ret.entries.push(RetainInitEntry {
                    ref_idx: hostile_u32(r, n.refs, 0, 0),
                    const_idx: hostile_u32(r, n.consts, 0, 0),
                });
            } else {
                let i = r.pick(ret.entries.len());
                if r.flag() {
                    ret.entries[i].ref_idx = hostile_u32(r, n.refs, ret.entries[i].ref_idx, 0);
                } else {
                    ret.entries[i].const_idx = hostile_u32(r, n.consts, ret.entries[i].const_idx, 0);
                }
            }
            log.push("retain_init mutated".into());
        }
        SectionData::DebugMap(map) => {
            if map.entries.is_empty() || r.chance(1, 4) {
                map.entries.push(DebugEntry {
                    pou_id: hostile_u32(r, n.pous, 0, 0),
                    code_offset: hostile_u32(r, n.bodies, 0, 0),
                    file_idx: hostile_u32(r, dbg_strings, 0, 0),
                    line: r.word(),
                    column: r.word(),
                    kind: r.word() as u8,
                });
            } else {
                let i = r.pick(map.entries.len());
                let e = &mut map.entries[i];
                match r.pick(4) {
                    0 => e.pou_id = hostile_u32(r, n.pous, e.pou_id, 0),
                    1 => e.code_offset = hostile_u32(r, n.bodies, e.code_offset, 0),
                    2 => e.file_idx = hostile_u32(r, dbg_strings, e.file_idx, 0),
                    _ => e.kind = r.word() as u8,
                }
            }
            log.push("debug_map mutated".into());
        }
        SectionData::StringTable(t) | SectionData::DebugStringTable(t) => {
            match r.pick(5) {
                0 => {
                    let k = 1 + r.pick(4);
                    for _ in 0..k {
                        t.entries.pop();
                    }
                }
                1 => t.entries.clear(),
                2 => t.entries.push(new_string(r)),
                3 => {
                    if !t.entries.is_empty() {
                        let i = r.pick(t.entries.len());
                        t.entries[i] = new_string(r);
                    }
                }
                _ => {
                    if t.entries.len() >= 2 {
                        let a = r.pick(t.entries.len());
                        let b = r.pick(t.entries.len());
                        t.entries.swap(a, b);
                    }
                }
            }
            log.push(format!("{id:?} mutated"));
        }
        _ => {}
    }
}

fn mutate_sections(m: &mut BytecodeModule, r: &mut Reader, log: &mut Vec<String>) {
    match r.pick(9) {
        0 => {
            if !m.sections.is_empty() {
                let i = r.pick(m.sections.len());
                let s = m.sections.remove(i);
                log.push(format!("sections: removed section {:#x}", s.id));
            }
        }
        1 => {
            if !m.sections.is_empty() {
                let i = r.pick(m.sections.len());
                let s = m.sections[i].clone();
                let at = r.pick(m.sections.len() + 1);
                m.sections.insert(at, s);
                log.push("sections: duplicated a section".into());
            }
        }
        2 => {
            if m.sections.len() >= 2 {
                let a = r.pick(m.sections.len());
                let b = r.pick(m.sections.len());
                m.sections.swap(a, b);
                log.push("sections: swapped two sections".into());
            }
        }
        3 => {
            let id = [0u16, 0x000D, 0x00FF, 0x7777, 0xFFFF][r.pick(5)];
            let len = [0usize, 1, 3, 4, 33][r.pick(5)];
            m.sections.push(Section {
                id,
                flags: r.word() as u16,
                data: SectionData::Raw((0..len).map(|i| i as u8).collect()),
            });
            log.push(format!("sections: added raw section {id:#x}"));
        }
        4 => {
            if !m.sections.is_empty() {
                let i = r.pick(m.sections.len());
                m.sections[i].flags = r.word() as u16;
                log.push("sections: section flags".into());
            }
        }
        5 => {
            // the DEBUG_MAP rule: minor >= 1 needs a DEBUG_STRING_TABLE
            m.sections.retain(|s| s.id != SectionId::DebugStringTable.as_raw());
            log.push("sections: removed DEBUG_STRING_TABLE".into());
        }
        6 => {
            m.flags = [0u32, 1, 2, 3, 0x8000_0001, 0xFFFF_FFFE, 0xFFFF_FFFF][r.pick(7)];
            log.push(format!("module flags {:#x}", m.flags));
        }
        7 => {
            m.version.minor = [2u16, 7, 0xFFFF][r.pick(3)];
            log.push(format!("version minor {}", m.version.minor));
        }
        _ => {
            // version 1.0 layout: no type offsets, unpadded strings, no parameter defaults
            // (the model is normalised to what 1.0 can represent at the end of `mutate`)
            m.version.minor = 0;
            log.push("version minor 0 (1.0 layout)".into());
        }
    }
}

/// Apply 1..=4 typed mutations chosen by the tape. Returns a log of what was done.
pub fn mutate(m: &mut BytecodeModule, r: &mut Reader) -> Vec<String> {
    let mut log = Vec::new();
    let rounds = 1 + r.weighted(&[6, 3, 2, 1]);
    for _ in 0..rounds {
        match r.weighted(&[5, 4, 4, 3, 3, 3, 3, 2]) {
            0 => mutate_resources(m, r, &mut log),
            1 => mutate_code(m, r, &mut log),
            2 => mutate_types(m, r, &mut log),
            3 => mutate_consts(m, r, &mut log),
            4 => mutate_pou_index(m, r, &mut log),
            5 => mutate_refs(m, r, &mut log),
            6 => mutate_small_tables(m, r, &mut log),
            _ => mutate_sections(m, r, &mut log),
        }
    }
    if m.version.minor == 0 {
        // the 1.0 layout has no parameter defaults and no type offsets: keep the model
        // representable
        for s in &mut m.sections {
            match &mut s.data {
                SectionData::PouIndex(index) => {
                    for e in &mut index.entries {
                        for p in &mut e.params {
                            p.default_const_idx = None;
                        }
                    }
                }
                SectionData::TypeTable(t) => t.offsets.clear(),
                _ => {}
            }
        }
    }
    log
}

/// The comparison the round-trip oracle uses: everything except the (derived) type offsets.
pub fn without_offsets(m: &BytecodeModule) -> BytecodeModule {
    let mut c = m.clone();
    for s in &mut c.sections {
        if let SectionData::TypeTable(t) = &mut s.data {
            t.offsets.clear();
        }
    }
    c
}
