//! Scenario generator for C09: a deterministic function of a choice tape.
//!
//! Accepted-language facts it relies on (probed on the pinned tree): VAR_GLOBAL only inside
//! CONFIGURATION/RESOURCE; no aggregate initialisers (arrays/structs start at their
//! defaults); assignment targets are `name`, `name[i,..]`, `name.field` (one level);
//! enum literals must be qualified (`Color#Green`); WSTRING/CHAR values are not comparable
//! with literals (toggles are gated on a BOOL instead); typed literals everywhere because an
//! assignment keeps the type of its right-hand side (F8).

use std::collections::BTreeSet;

use super::{InputSpec, Op, Scenario, K_MEM, K_RETAIN_FB, K_RWR, K_VARCONFIG};
use crate::engine::tape::{Reader, Tape};

#[derive(Clone, Copy, Debug)]
pub struct Open {
    pub retain_fb: bool,
    pub varconfig_init: bool,
    pub mem_binding: bool,
    pub rwr: bool,
}

impl Open {
    pub fn all_open() -> Open {
        Open {
            retain_fb: true,
            varconfig_init: true,
            mem_binding: true,
            rwr: true,
        }
    }
}

#[derive(Clone, Copy, PartialEq, Eq, Debug)]
enum Qual {
    None,
    Retain,
    NonRetain,
    Persistent,
}

impl Qual {
    fn kw(self) -> &'static str {
        match self {
            Qual::None => "",
            Qual::Retain => " RETAIN",
            Qual::NonRetain => " NON_RETAIN",
            Qual::Persistent => " PERSISTENT",
        }
    }
    fn name(self) -> &'static str {
        match self {
            Qual::None => "unqualified",
            Qual::Retain => "RETAIN",
            Qual::NonRetain => "NON_RETAIN",
            Qual::Persistent => "PERSISTENT",
        }
    }
    fn keeps(self) -> bool {
        matches!(self, Qual::Retain | Qual::Persistent)
    }
}

#[derive(Clone, Copy, PartialEq, Eq, Debug)]
enum Ty {
    Int,
    Bool,
    DInt,
    SInt,
    LInt,
    USInt,
    UInt,
    UDInt,
    ULInt,
    Real,
    LReal,
    Byte,
    Word,
    DWord,
    LWord,
    Time,
    LTime,
    Date,
    Tod,
    Dt,
    LDate,
    LTod,
    Ldt,
    Str,
    WStr,
    Char,
    WChar,
    Enum,
    ArrInt,
    Arr2D,
    ArrStruct,
    Struct,
    FbAcc,
    FbTon,
    FbCtu,
    FbTrig,
    FbIo,
    FbNest,
    ClassDer,
}

const VALUE_TYPES: &[Ty] = &[
    Ty::Int,
    Ty::Bool,
    Ty::DInt,
    Ty::SInt,
    Ty::LInt,
    Ty::USInt,
    Ty::UInt,
    Ty::UDInt,
    Ty::ULInt,
    Ty::Real,
    Ty::LReal,
    Ty::Byte,
    Ty::Word,
    Ty::DWord,
    Ty::LWord,
    Ty::Time,
    Ty::LTime,
    Ty::Date,
    Ty::Tod,
    Ty::Dt,
    Ty::LDate,
    Ty::LTod,
    Ty::Ldt,
    Ty::Str,
    Ty::WStr,
    Ty::Char,
    Ty::WChar,
    Ty::Enum,
    Ty::ArrInt,
    Ty::Arr2D,
    Ty::ArrStruct,
    Ty::Struct,
];

const FB_TYPES: &[Ty] = &[
    Ty::FbAcc,
    Ty::FbTon,
    Ty::FbCtu,
    Ty::FbTrig,
    Ty::FbNest,
    Ty::ClassDer,
];

impl Ty {
    fn is_fb(self) -> bool {
        matches!(
            self,
            Ty::FbAcc
                | Ty::FbTon
                | Ty::FbCtu
                | Ty::FbTrig
                | Ty::FbIo
                | Ty::FbNest
                | Ty::ClassDer
        )
    }
    fn class(self) -> &'static str {
        match self {
            Ty::Bool => "bool",
            Ty::Int | Ty::DInt | Ty::SInt | Ty::LInt | Ty::USInt | Ty::UInt | Ty::UDInt | Ty::ULInt => {
                "int"
            }
            Ty::Real | Ty::LReal => "real",
            Ty::Byte | Ty::Word | Ty::DWord | Ty::LWord => "bits",
            Ty::Time | Ty::LTime => "time",
            Ty::Date | Ty::Tod | Ty::Dt | Ty::LDate | Ty::LTod | Ty::Ldt => "date",
            Ty::Str | Ty::WStr | Ty::Char | Ty::WChar => "string",
            Ty::Enum => "enum",
            Ty::ArrInt | Ty::Arr2D | Ty::ArrStruct => "array",
            Ty::Struct => "struct",
            Ty::ClassDer => "class",
            _ => "fb",
        }
    }
    fn text(self) -> &'static str {
        match self {
            Ty::Int => "INT",
            Ty::Bool => "BOOL",
            Ty::DInt => "DINT",
            Ty::SInt => "SINT",
            Ty::LInt => "LINT",
            Ty::USInt => "USINT",
            Ty::UInt => "UINT",
            Ty::UDInt => "UDINT",
            Ty::ULInt => "ULINT",
            Ty::Real => "REAL",
            Ty::LReal => "LREAL",
            Ty::Byte => "BYTE",
            Ty::Word => "WORD",
            Ty::DWord => "DWORD",
            Ty::LWord => "LWORD",
            Ty::Time => "TIME",
            Ty::LTime => "LTIME",
            Ty::Date => "DATE",
            Ty::Tod => "TOD",
            Ty::Dt => "DT",
            Ty::LDate => "LDATE",
            Ty::LTod => "LTOD",
            Ty::Ldt => "LDT",
            Ty::Str => "STRING[12]",
            Ty::WStr => "WSTRING[6]",
            Ty::Char => "CHAR",
            Ty::WChar => "WCHAR",
            Ty::Enum => "Color",
            Ty::ArrInt => "ARRAY[-1..2] OF INT",
            Ty::Arr2D => "ARRAY[0..1, 1..2] OF DINT",
            Ty::ArrStruct => "ARRAY[1..2] OF S1",
            Ty::Struct => "S1",
            Ty::FbAcc => "Acc",
            Ty::FbTon => "TON",
            Ty::FbCtu => "CTU",
            Ty::FbTrig => "R_TRIG",
            Ty::FbIo => "IoFb",
            Ty::FbNest => "Nest",
            Ty::ClassDer => "CDer",
        }
    }
    /// (literal A, literal B) used for initial values and toggles; None = no initialiser.
    fn lits(self) -> &'static [&'static str] {
        match self {
            Ty::Int => &["INT#0", "INT#7", "INT#-32768", "INT#32767", "INT#-1"],
            Ty::Bool => &["FALSE", "TRUE"],
            Ty::DInt => &["DINT#0", "DINT#100000", "DINT#-2147483648", "DINT#2147483647"],
            Ty::SInt => &["SINT#0", "SINT#127", "SINT#-128", "SINT#5"],
            Ty::LInt => &["LINT#0", "LINT#-9223372036854775807", "LINT#5000000000"],
            Ty::USInt => &["USINT#0", "USINT#255", "USINT#9"],
            Ty::UInt => &["UINT#0", "UINT#65535", "UINT#300"],
            Ty::UDInt => &["UDINT#0", "UDINT#4294967295", "UDINT#70000"],
            Ty::ULInt => &["ULINT#0", "ULINT#9223372036854775807", "ULINT#11"],
            Ty::Real => &["REAL#0.0", "REAL#1.5", "REAL#-0.25", "REAL#3.0E10"],
            Ty::LReal => &["LREAL#0.0", "LREAL#2.5", "LREAL#-1.0E-3", "LREAL#1.0E200"],
            Ty::Byte => &["BYTE#16#00", "BYTE#16#A5", "BYTE#16#FF"],
            Ty::Word => &["WORD#16#0000", "WORD#16#BEEF", "WORD#16#FFFF"],
            Ty::DWord => &["DWORD#16#0", "DWORD#16#DEADBEEF", "DWORD#16#1"],
            Ty::LWord => &["LWORD#16#0", "LWORD#16#FFFFFFFFFFFF", "LWORD#16#1"],
            Ty::Time => &["T#0ms", "T#1s", "T#250ms", "T#1h2m3s"],
            Ty::LTime => &["LTIME#0ms", "LTIME#5ms", "LTIME#3s"],
            Ty::Date => &["D#2024-01-02", "D#2030-12-31"],
            Ty::Tod => &["TOD#12:00:00", "TOD#01:02:03"],
            Ty::Dt => &["DT#2024-01-02-03:04:05", "DT#2030-06-07-08:09:10"],
            Ty::LDate => &["LDATE#2024-01-02", "LDATE#2030-12-31"],
            Ty::LTod => &["LTOD#12:00:00", "LTOD#01:02:03"],
            Ty::Ldt => &["LDT#2024-01-02-03:04:05", "LDT#2030-06-07-08:09:10"],
            Ty::Str => &["'ab'", "''", "'hello $'q$''"],
            Ty::WStr => &["\"wx\"", "\"yz\""],
            Ty::Char => &["CHAR#'a'", "CHAR#'z'"],
            Ty::WChar => &["WCHAR#\"b\"", "WCHAR#\"y\""],
            Ty::Enum => &["Color#Green", "Color#Blue", "Color#Red"],
            _ => &[],
        }
    }
}

struct Var {
    name: String,
    ty: Ty,
    qual: Qual,
    init: Option<String>,
    at: Option<String>,
}

struct Prog {
    type_name: String,
    inst: String,
    vars: Vec<Var>,
    stmts: Vec<String>,
    task: Option<usize>,
    inst_qual: Qual,
    fb_tasks: Vec<(String, usize)>,
    /// BOOL expressions visible in this program (gates)
    gates: Vec<String>,
    /// program-local INT/DINT input names
    int_in: Option<String>,
    dint_in: Option<String>,
}

struct TaskDef {
    name: String,
    interval_ms: Option<u32>,
    single: Option<String>,
    prio: u32,
}

const PREAMBLE: &str = r#"TYPE Color : (Red, Green, Blue); END_TYPE
TYPE S1 : STRUCT a : INT; b : BOOL; t : TIME; s : STRING[8]; r : REAL; END_STRUCT END_TYPE

FUNCTION_BLOCK Acc
VAR_INPUT inc : INT; END_VAR
VAR_OUTPUT total : INT; END_VAR
VAR n : DINT; last : INT; END_VAR
n := n + DINT#1;
last := inc;
IF total < INT#20000 THEN total := total + inc; ELSE total := INT#0; END_IF;
END_FUNCTION_BLOCK

FUNCTION_BLOCK Nest
VAR_INPUT amt : INT; go : BOOL; END_VAR
VAR_OUTPUT cnt : DINT; END_VAR
VAR inner : Acc; tm : TON; END_VAR
inner(inc := amt);
tm(IN := go, PT := T#30ms);
cnt := cnt + DINT#1;
END_FUNCTION_BLOCK

CLASS CBase
VAR PUBLIC
    bv : INT := INT#1;
END_VAR
END_CLASS

CLASS CDer EXTENDS CBase
VAR PUBLIC
    cv : DINT := DINT#2;
END_VAR
METHOD PUBLIC Bump
IF cv < DINT#100000 THEN cv := cv + DINT#3; ELSE cv := DINT#0; END_IF;
END_METHOD
END_CLASS

FUNCTION_BLOCK IoFb
VAR_INPUT en : BOOL; END_VAR
VAR_OUTPUT cnt : DINT; END_VAR
VAR q AT %QX16.0 : BOOL; END_VAR
IF en THEN q := NOT q; END_IF;
cnt := cnt + DINT#1;
END_FUNCTION_BLOCK

"#;

fn int_bounds(ty: Ty) -> (&'static str, &'static str, &'static str) {
    // (prefix, reset-to, upper guard)
    match ty {
        Ty::Int => ("INT", "-3", "1000"),
        Ty::DInt => ("DINT", "-70000", "100000"),
        Ty::SInt => ("SINT", "-5", "100"),
        Ty::LInt => ("LINT", "-7", "5000000000"),
        Ty::USInt => ("USINT", "0", "200"),
        Ty::UInt => ("UINT", "1", "60000"),
        Ty::UDInt => ("UDINT", "2", "4000000000"),
        Ty::ULInt => ("ULINT", "3", "100"),
        _ => unreachable!(),
    }
}

/// One statement that changes `v` deterministically; `gate` is a BOOL expression.
fn update(ty: Ty, v: &str, gate: &str, r: &mut Reader<'_>, int_src: Option<&str>) -> String {
    let step = 1 + r.pick(9);
    match ty {
        Ty::Bool => match r.pick(3) {
            0 => format!("{v} := NOT {v};"),
            1 => format!("{v} := {gate};"),
            _ => format!("{v} := {v} XOR ({gate});"),
        },
        Ty::Int | Ty::DInt | Ty::SInt | Ty::LInt | Ty::USInt | Ty::UInt | Ty::UDInt | Ty::ULInt => {
            let (p, lo, hi) = int_bounds(ty);
            if ty == Ty::Int && int_src.is_some() && r.chance(1, 3) {
                return format!("{v} := {};", int_src.unwrap());
            }
            format!("IF {v} < {p}#{hi} THEN {v} := {v} + {p}#{step}; ELSE {v} := {p}#{lo}; END_IF;")
        }
        Ty::Real => format!(
            "IF {v} < REAL#1000.0 THEN {v} := {v} + REAL#0.25; ELSE {v} := REAL#-3.5; END_IF;"
        ),
        Ty::LReal => format!(
            "IF {v} < LREAL#1000.0 THEN {v} := {v} + LREAL#0.125; ELSE {v} := LREAL#-7.5; END_IF;"
        ),
        Ty::Byte | Ty::Word | Ty::DWord | Ty::LWord => {
            let l = ty.lits();
            match r.pick(2) {
                0 => format!("IF {gate} THEN {v} := {}; ELSE {v} := ROL({v}, {step}); END_IF;", l[1]),
                _ => format!("IF {v} = {} THEN {v} := {}; ELSE {v} := {}; END_IF;", l[1], l[2], l[1]),
            }
        }
        Ty::Time => format!(
            "IF {v} < T#10s THEN {v} := ADD_TIME({v}, T#{step}ms); ELSE {v} := T#3ms; END_IF;"
        ),
        Ty::LTime => format!(
            "IF {v} < LTIME#10s THEN {v} := ADD_LTIME({v}, LTIME#{step}ms); ELSE {v} := LTIME#2ms; END_IF;"
        ),
        Ty::Date | Ty::Tod | Ty::Dt | Ty::LDate | Ty::LTod | Ty::Ldt => {
            let l = ty.lits();
            format!("IF {v} = {} THEN {v} := {}; ELSE {v} := {}; END_IF;", l[0], l[1], l[0])
        }
        Ty::Str => format!(
            "IF LEN({v}) < INT#8 THEN {v} := CONCAT({v}, 'x'); ELSE {v} := 'r'; END_IF;"
        ),
        Ty::WStr | Ty::Char | Ty::WChar => {
            let l = ty.lits();
            format!("IF {gate} THEN {v} := {}; ELSE {v} := {}; END_IF;", l[1], l[0])
        }
        Ty::Enum => format!(
            "IF {v} = Color#Red THEN {v} := Color#Green; ELSIF {v} = Color#Green THEN {v} := Color#Blue; ELSE {v} := Color#Red; END_IF;"
        ),
        Ty::ArrInt => {
            let i = r.pick(4) as i64 - 1;
            let j = r.pick(4) as i64 - 1;
            format!(
                "IF {v}[{i}] < INT#1000 THEN {v}[{i}] := {v}[{i}] + INT#{step}; ELSE {v}[{i}] := INT#0; END_IF; {v}[{j}] := {v}[{i}];"
            )
        }
        Ty::Arr2D => {
            let i = r.pick(2);
            let j = 1 + r.pick(2);
            format!("{v}[{i},{j}] := {v}[{i},{j}] + DINT#{step};")
        }
        Ty::ArrStruct => {
            // elements can only be assigned as a whole: a helper struct variable is updated
            // and copied in
            let i = 1 + r.pick(2);
            format!(
                "IF {v}_h.a < INT#1000 THEN {v}_h.a := {v}_h.a + INT#{step}; ELSE {v}_h.a := INT#0; END_IF; {v}_h.b := {gate}; {v}[{i}] := {v}_h;"
            )
        }
        Ty::Struct => match r.pick(4) {
            0 => format!("IF {v}.a < INT#1000 THEN {v}.a := {v}.a + INT#{step}; ELSE {v}.a := INT#0; END_IF; {v}.b := NOT {v}.b;"),
            1 => format!("IF {v}.t < T#10s THEN {v}.t := ADD_TIME({v}.t, T#{step}ms); ELSE {v}.t := T#0ms; END_IF;"),
            2 => format!("IF LEN({v}.s) < INT#6 THEN {v}.s := CONCAT({v}.s, 'k'); ELSE {v}.s := ''; END_IF; {v}.b := {gate};"),
            _ => format!("IF {v}.r < REAL#100.0 THEN {v}.r := {v}.r + REAL#0.5; ELSE {v}.r := REAL#0.0; END_IF;"),
        },
        Ty::FbAcc => format!("{v}(inc := INT#{step});"),
        Ty::FbTon => format!("{v}(IN := {gate}, PT := T#{}ms);", 5 * step),
        Ty::FbCtu => format!("{v}(CU := {gate}, R := FALSE, PV := INT#{step});"),
        Ty::FbTrig => format!("{v}(CLK := {gate});"),
        Ty::FbIo => format!("{v}(en := {gate});"),
        Ty::FbNest => format!("{v}(amt := INT#{step}, go := {gate});"),
        Ty::ClassDer => format!(
            "IF {v}.bv < INT#1000 THEN {v}.bv := {v}.bv + INT#{step}; ELSE {v}.bv := INT#0; END_IF; {v}.Bump();"
        ),
    }
}

fn pick_qual(r: &mut Reader<'_>) -> Qual {
    match spread(r, 11) {
        0..=2 => Qual::None,
        3..=6 => Qual::Retain,
        7..=8 => Qual::NonRetain,
        _ => Qual::Persistent,
    }
}

/// 0 maps to the simplest type (shrinking target); every other word is spread evenly, so the
/// boundary-heavy tape distribution does not starve the types in the middle of the list.
fn spread(r: &mut Reader<'_>, n: usize) -> usize {
    let w = r.word();
    if w == 0 {
        return 0;
    }
    let h = (w as u64 ^ 0x9E37_79B9).wrapping_mul(0x2545_F491_4F6C_DD1D);
    ((h >> 33) % n as u64) as usize
}

fn pick_value_type(r: &mut Reader<'_>) -> Ty {
    VALUE_TYPES[spread(r, VALUE_TYPES.len())]
}

fn decl_line(v: &Var) -> String {
    let at = match &v.at {
        Some(a) => format!(" AT {a}"),
        None => String::new(),
    };
    let init = match &v.init {
        Some(i) => format!(" := {i}"),
        None => String::new(),
    };
    format!("    {}{} : {}{};\n", v.name, at, v.ty.text(), init)
}

fn blocks(kw: &str, vars: &[Var], out: &mut String) {
    let mut i = 0;
    while i < vars.len() {
        let q = vars[i].qual;
        out.push_str(&format!("{kw}{}\n", q.kw()));
        while i < vars.len() && vars[i].qual == q {
            out.push_str(&decl_line(&vars[i]));
            i += 1;
        }
        out.push_str("END_VAR\n");
    }
}

struct InPool {
    addr: &'static str,
    bits: u8,
    ty: Ty,
}

const IN_POOL: &[InPool] = &[
    InPool { addr: "%IX0.0", bits: 1, ty: Ty::Bool },
    InPool { addr: "%IW2", bits: 16, ty: Ty::Int },
    InPool { addr: "%IX0.1", bits: 1, ty: Ty::Bool },
    InPool { addr: "%ID4", bits: 32, ty: Ty::DInt },
    InPool { addr: "%IX0.5", bits: 1, ty: Ty::Bool },
    InPool { addr: "%IB1", bits: 8, ty: Ty::USInt },
    InPool { addr: "%IL8", bits: 64, ty: Ty::LInt },
];

const OUT_POOL: &[(&str, Ty)] = &[
    ("%QX0.0", Ty::Bool),
    ("%QW2", Ty::Int),
    ("%QX0.1", Ty::Bool),
    ("%QD4", Ty::DInt),
    ("%QB1", Ty::Byte),
    ("%QL8", Ty::LInt),
    ("%QX0.6", Ty::Bool),
];

const DT_CHOICES: &[i64] = &[
    10_000_000,
    0,
    1_000_000,
    25_000_000,
    100_000_000,
    1,
    1_000_000_000,
    7_000_000,
];

fn input_word(r: &mut Reader<'_>, bits: u8) -> u64 {
    if bits == 1 {
        return r.flag() as u64;
    }
    let max = if bits >= 64 { u64::MAX } else { (1u64 << bits) - 1 };
    match r.pick(8) {
        0 => 0,
        1 => 1,
        2 => 2,
        3 => max,
        4 => max >> 1,
        5 => (max >> 1) + 1,
        6 => 5,
        _ => r.u64() & max,
    }
}

pub fn scenario(tape: &Tape, open: Open) -> Scenario {
    build(tape, open, false)
}

/// Same generator, but the history is guaranteed to contain a PowerCycle.
pub fn scenario_with_power(tape: &Tape, open: Open) -> Scenario {
    build(tape, open, true)
}

fn build(tape: &Tape, open: Open, force_power: bool) -> Scenario {
    let mut r = Reader::new(tape);
    let mut excluded: Vec<String> = Vec::new();
    let mut labels: BTreeSet<String> = BTreeSet::new();

    // ---- tasks
    let n_tasks = r.pick(4);
    let n_progs = 1 + r.pick(3);
    let mut globals: Vec<Var> = Vec::new();
    let mut tasks: Vec<TaskDef> = Vec::new();
    for t in 0..n_tasks {
        let kind = r.pick(3); // 0 interval, 1 single, 2 both
        let interval_ms = if kind != 1 {
            Some([10u32, 20, 50, 5][r.pick(4)])
        } else {
            None
        };
        let single = if kind != 0 {
            let name = format!("g_trig{t}");
            let init_true = r.flag();
            // SINGLE triggers are non-retained (see assumptions)
            globals.push(Var {
                name: name.clone(),
                ty: Ty::Bool,
                qual: if r.flag() { Qual::NonRetain } else { Qual::None },
                init: if init_true {
                    Some("TRUE".into())
                } else if r.flag() {
                    Some("FALSE".into())
                } else {
                    None
                },
                at: None,
            });
            labels.insert("task=single".into());
            if init_true {
                labels.insert("task=single_initially_true".into());
            }
            Some(name)
        } else {
            None
        };
        if interval_ms.is_some() {
            labels.insert("task=interval".into());
        }
        tasks.push(TaskDef {
            name: format!("T{t}"),
            interval_ms,
            single,
            prio: r.pick(3) as u32,
        });
    }

    // ---- programs (shells)
    let mut progs: Vec<Prog> = Vec::new();
    for k in 0..n_progs {
        let task = if n_tasks > 0 {
            let c = r.pick(n_tasks + 1);
            if c == 0 {
                None
            } else {
                Some(c - 1)
            }
        } else {
            let _ = r.word();
            None
        };
        let inst_qual = match r.weighted(&[9, 2, 1]) {
            0 => Qual::None,
            1 => Qual::Retain,
            _ => Qual::NonRetain,
        };
        if inst_qual != Qual::None {
            labels.insert(format!("program_instance_qualifier={}", inst_qual.name()));
        }
        if task.is_none() {
            labels.insert("program=background".into());
        }
        let ph = format!("p{k}_ph");
        progs.push(Prog {
            type_name: format!("Prog{k}"),
            inst: format!("P{k}"),
            vars: vec![Var {
                name: ph.clone(),
                ty: Ty::Bool,
                qual: Qual::None,
                init: None,
                at: None,
            }],
            stmts: vec![format!("{ph} := NOT {ph};")],
            task,
            inst_qual,
            fb_tasks: Vec::new(),
            gates: vec![ph],
            int_in: None,
            dint_in: None,
        });
    }

    // ---- inputs
    let mut inputs: Vec<InputSpec> = Vec::new();
    let mut global_gates: Vec<String> = Vec::new();
    let mut global_int_in: Option<String> = None;
    let mut global_dint_in: Option<String> = None;
    let n_in = 1 + r.pick(IN_POOL.len());
    for (idx, ip) in IN_POOL.iter().enumerate().take(n_in) {
        let qual = if r.chance(1, 4) { pick_qual(&mut r) } else { Qual::None };
        let place = r.pick(n_progs + 1); // 0 = global
        let name = if place == 0 {
            format!("g_in{idx}")
        } else {
            format!("p{}_in{idx}", place - 1)
        };
        let var = Var {
            name: name.clone(),
            ty: ip.ty,
            qual,
            init: None,
            at: Some(ip.addr.to_string()),
        };
        let gate = match ip.ty {
            Ty::Bool => Some(name.clone()),
            Ty::Int => Some(format!("({name} > INT#5)")),
            Ty::USInt => Some(format!("({name} > USINT#3)")),
            _ => None,
        };
        if place == 0 {
            globals.push(var);
            if let Some(g) = gate {
                global_gates.push(g);
            }
            if ip.ty == Ty::Int {
                global_int_in = Some(name.clone());
            }
            if ip.ty == Ty::DInt {
                global_dint_in = Some(name.clone());
            }
            labels.insert("input=global".into());
        } else {
            let p = &mut progs[place - 1];
            p.vars.push(var);
            if let Some(g) = gate {
                p.gates.push(g);
            }
            if ip.ty == Ty::Int {
                p.int_in = Some(name.clone());
            }
            if ip.ty == Ty::DInt {
                p.dint_in = Some(name.clone());
            }
            labels.insert("input=program".into());
        }
        inputs.push(InputSpec {
            addr: ip.addr.to_string(),
            bits: ip.bits,
        });
    }
    for p in progs.iter_mut() {
        p.gates.extend(global_gates.iter().cloned());
        if p.int_in.is_none() {
            p.int_in = global_int_in.clone();
        }
        if p.dint_in.is_none() {
            p.dint_in = global_dint_in.clone();
        }
    }

    // ---- global value variables (updated by one of the programs)
    let mut retained: Vec<String> = Vec::new();
    let mut global_retained_instance = false;
    let n_glob = r.pick(6);
    let mut global_updates: Vec<(usize, String, Ty)> = Vec::new(); // (program, var, ty)
    for gi in 0..n_glob {
        let ty = if r.chance(1, 6) {
            FB_TYPES[spread(&mut r, FB_TYPES.len())]
        } else {
            pick_value_type(&mut r)
        };
        let mut qual = pick_qual(&mut r);
        if ty.is_fb() && qual.keeps() {
            if force_power {
                // the history will contain a power cycle, which a retained global instance
                // does not survive (open finding): not declared retaining here
                if open.retain_fb {
                    excluded.push(K_RETAIN_FB.to_string());
                }
                qual = Qual::None;
            } else {
                // global level: kept as a whole by a warm restart, reset by a cold restart
                global_retained_instance = true;
                labels.insert("decl=global_retained_instance".into());
            }
        }
        let name = format!("g_{gi}");
        let lits = ty.lits();
        let init = if !lits.is_empty() && r.chance(3, 4) {
            Some(lits[r.pick(lits.len())].to_string())
        } else {
            let _ = r.word();
            None
        };
        if ty == Ty::ArrStruct {
            globals.push(Var {
                name: format!("{name}_h"),
                ty: Ty::Struct,
                qual,
                init: None,
                at: None,
            });
            if qual.keeps() {
                retained.push(format!("g:{name}_h"));
            }
        }
        globals.push(Var {
            name: name.clone(),
            ty,
            qual,
            init,
            at: None,
        });
        if qual.keeps() {
            retained.push(format!("g:{name}"));
        }
        labels.insert(format!("decl=global/{}/{}", qual.name(), ty.class()));
        global_updates.push((r.pick(n_progs), name, ty));
    }

    // ---- program value variables
    for k in 0..n_progs {
        let n_vars = 1 + r.pick(7);
        for vi in 0..n_vars {
            let ty = if r.chance(1, 6) {
                FB_TYPES[spread(&mut r, FB_TYPES.len())]
            } else {
                pick_value_type(&mut r)
            };
            let mut qual = pick_qual(&mut r);
            let inst_qual = progs[k].inst_qual;
            if ty.is_fb() {
                let effective_keep = qual.keeps() || (qual == Qual::None && inst_qual == Qual::Retain);
                if effective_keep {
                    if open.retain_fb {
                        excluded.push(K_RETAIN_FB.to_string());
                    }
                    qual = if inst_qual == Qual::Retain { Qual::NonRetain } else { Qual::None };
                }
            }
            let name = format!("p{k}_{vi}");
            let lits = ty.lits();
            let init = if !lits.is_empty() && r.chance(3, 4) {
                Some(lits[r.pick(lits.len())].to_string())
            } else {
                let _ = r.word();
                None
            };
            let keeps = qual.keeps() || (qual == Qual::None && inst_qual == Qual::Retain);
            if ty == Ty::ArrStruct {
                progs[k].vars.push(Var {
                    name: format!("{name}_h"),
                    ty: Ty::Struct,
                    qual,
                    init: None,
                    at: None,
                });
                if keeps {
                    retained.push(format!("p:P{k}.{name}_h"));
                }
            }
            progs[k].vars.push(Var {
                name: name.clone(),
                ty,
                qual,
                init,
                at: None,
            });
            if keeps {
                retained.push(format!("p:P{k}.{name}"));
            }
            labels.insert(format!("decl=program/{}/{}", qual.name(), ty.class()));
            let gate = progs[k].gates[r.pick(progs[k].gates.len())].clone();
            let int_src = progs[k].int_in.clone();
            let mut stmt = update(ty, &name, &gate, &mut r, int_src.as_deref());
            // FB task association instead of (or in addition to) the call in the body
            if ty == Ty::FbAcc && n_tasks > 0 && r.chance(1, 2) {
                let t = r.pick(n_tasks);
                progs[k].fb_tasks.push((name.clone(), t));
                labels.insert("task=fb_association".into());
                if r.flag() {
                    stmt = String::new();
                }
            }
            if matches!(ty, Ty::FbTon | Ty::FbCtu | Ty::FbTrig | Ty::FbNest)
                && n_tasks > 0
                && r.chance(1, 3)
            {
                let t = r.pick(n_tasks);
                let path = if ty == Ty::FbNest && r.flag() {
                    format!("{name}.tm")
                } else {
                    name.clone()
                };
                progs[k].fb_tasks.push((path, t));
                labels.insert("task=standard_fb_association".into());
            }
            if r.chance(1, 4) && !ty.is_fb() {
                let g2 = progs[k].gates[r.pick(progs[k].gates.len())].clone();
                stmt = format!("IF {g2} THEN {stmt} END_IF;");
            }
            if !stmt.is_empty() {
                progs[k].stmts.push(stmt);
            }
        }
        // phase-toggle variable is program-level data too
        if progs[k].inst_qual == Qual::Retain {
            retained.push(format!("p:P{k}.p{k}_ph"));
        }
        // input-bound program variables
        let inst_qual = progs[k].inst_qual;
        for v in &progs[k].vars {
            if v.at.is_some() && (v.qual.keeps() || (v.qual == Qual::None && inst_qual == Qual::Retain)) {
                retained.push(format!("p:P{k}.{}", v.name));
                labels.insert("input=retained_declaration".into());
            }
        }
    }
    for v in &globals {
        if v.at.is_some() && v.qual.keeps() {
            retained.push(format!("g:{}", v.name));
            labels.insert("input=retained_declaration".into());
        }
    }

    // ---- updates of globals, trigger assignments
    for (k, name, ty) in global_updates {
        let gate = progs[k].gates[r.pick(progs[k].gates.len())].clone();
        let int_src = progs[k].int_in.clone();
        let stmt = update(ty, &name, &gate, &mut r, int_src.as_deref());
        progs[k].stmts.push(stmt);
    }
    for t in &tasks {
        if let Some(trig) = &t.single {
            let k = r.pick(n_progs);
            let gate = progs[k].gates[r.pick(progs[k].gates.len())].clone();
            progs[k].stmts.push(format!("{trig} := {gate};"));
        }
    }

    // ---- outputs
    let mut outputs: Vec<String> = Vec::new();
    let n_out = 1 + r.pick(OUT_POOL.len());
    for (idx, (addr, ty)) in OUT_POOL.iter().enumerate().take(n_out) {
        let qual = pick_qual(&mut r);
        let place = r.pick(n_progs + 1);
        let k = if place == 0 { r.pick(n_progs) } else { place - 1 };
        let name = if place == 0 {
            format!("g_out{idx}")
        } else {
            format!("p{k}_out{idx}")
        };
        let var = Var {
            name: name.clone(),
            ty: *ty,
            qual,
            init: None,
            at: Some(addr.to_string()),
        };
        let gate = progs[k].gates[r.pick(progs[k].gates.len())].clone();
        let stmt = match ty {
            Ty::Bool => format!("{name} := {gate};"),
            Ty::Int if progs[k].int_in.is_some() && r.flag() => {
                format!("{name} := {};", progs[k].int_in.clone().unwrap())
            }
            Ty::DInt if progs[k].dint_in.is_some() && r.flag() => {
                format!("{name} := {};", progs[k].dint_in.clone().unwrap())
            }
            _ => {
                let int_src = progs[k].int_in.clone();
                update(*ty, &name, &gate, &mut r, int_src.as_deref())
            }
        };
        if place == 0 {
            if qual.keeps() {
                retained.push(format!("g:{name}"));
            }
            globals.push(var);
            labels.insert("output=global".into());
        } else {
            let keeps = qual.keeps() || (qual == Qual::None && progs[k].inst_qual == Qual::Retain);
            if keeps {
                retained.push(format!("p:P{k}.{name}"));
            }
            progs[k].vars.push(var);
            labels.insert("output=program".into());
        }
        progs[k].stmts.push(stmt);
        outputs.push(addr.to_string());
    }
    // FB with an internal %Q binding (at most one instance: the address is fixed)
    if r.chance(1, 3) {
        let place = r.pick(n_progs + 1);
        let k = if place == 0 { r.pick(n_progs) } else { place - 1 };
        let name = if place == 0 { "g_iofb".to_string() } else { format!("p{k}_iofb") };
        let global_qual = match r.pick(3) {
            0 => Qual::None,
            1 => Qual::Retain,
            _ => Qual::Persistent,
        };
        let var = Var {
            name: name.clone(),
            ty: Ty::FbIo,
            qual: if place == 0 {
                if force_power {
                    Qual::None
                } else {
                    global_qual
                }
            } else if progs[k].inst_qual == Qual::Retain {
                Qual::NonRetain
            } else {
                Qual::None
            },
            init: None,
            at: None,
        };
        if place == 0 && var.qual.keeps() {
            retained.push("g:g_iofb".to_string());
            global_retained_instance = true;
            labels.insert("decl=global_retained_instance".into());
        }
        let gate = progs[k].gates[r.pick(progs[k].gates.len())].clone();
        progs[k].stmts.push(format!("{name}(en := {gate});"));
        if place == 0 {
            globals.push(var);
            labels.insert("output=fb_member_global".into());
        } else {
            progs[k].vars.push(var);
            labels.insert("output=fb_member_program".into());
        }
        outputs.push("%QX16.0".to_string());
    }
    // %M binding (known finding while open)
    if r.chance(1, 6) {
        if open.mem_binding {
            excluded.push(K_MEM.to_string());
        } else {
            let k = r.pick(n_progs);
            let name = format!("p{k}_mem");
            progs[k].vars.push(Var {
                name: name.clone(),
                ty: Ty::Int,
                qual: Qual::None,
                init: None,
                at: Some("%MW0".into()),
            });
            if progs[k].inst_qual == Qual::Retain {
                retained.push(format!("p:P{k}.{name}"));
            }
            progs[k].stmts.push(format!(
                "IF {name} < INT#1000 THEN {name} := {name} + INT#1; ELSE {name} := INT#0; END_IF;"
            ));
            labels.insert("binding=marker_memory".into());
        }
    }
    // value-dependent fault: divides by a DINT input when a gate is true
    for k in 0..n_progs {
        if let Some(d) = progs[k].dint_in.clone() {
            if r.chance(1, 4) {
                let gate = progs[k].gates[r.pick(progs[k].gates.len())].clone();
                let name = format!("p{k}_quot");
                progs[k].vars.push(Var {
                    name: name.clone(),
                    ty: Ty::DInt,
                    qual: Qual::NonRetain,
                    init: None,
                    at: None,
                });
                progs[k]
                    .stmts
                    .push(format!("IF {gate} THEN {name} := DINT#1000 / {d}; END_IF;"));
                labels.insert("stmt=division_by_input".into());
            }
        }
    }

    // ---- VAR_ACCESS
    let mut access_decls: Vec<String> = Vec::new();
    let mut access: Vec<String> = Vec::new();
    let use_resource = r.flag();
    let n_acc = r.pick(5);
    for ai in 0..n_acc {
        let from_global = r.chance(1, 3);
        let prefix_res = use_resource && r.flag();
        let (path, ty_text) = if from_global {
            let cands: Vec<&Var> = globals.iter().collect();
            if cands.is_empty() {
                continue;
            }
            let v = cands[r.pick(cands.len())];
            access_path(v, None, &mut r)
        } else {
            let k = r.pick(n_progs);
            let cands: Vec<&Var> = progs[k].vars.iter().collect();
            if cands.is_empty() {
                continue;
            }
            let v = cands[r.pick(cands.len())];
            let inst = progs[k].inst.clone();
            let (p, t) = access_path(v, Some(&inst), &mut r);
            (
                if prefix_res { format!("R.{p}") } else { p },
                t,
            )
        };
        let name = format!("A{ai}");
        let dir = if r.flag() { "READ_WRITE" } else { "READ_ONLY" };
        access_decls.push(format!("    {name} : {path} : {ty_text} {dir};\n"));
        access.push(name);
        labels.insert("binding=var_access".into());
    }

    // dedicated paths INTO instances of standard blocks (directly or nested in a user FB): the
    // reference is resolved at build time to the instance that holds the lazily created
    // hidden state, so it shows whether a restart keeps addressing the live instance
    {
        let has_std = |t: Ty| matches!(t, Ty::FbTon | Ty::FbCtu | Ty::FbTrig | Ty::FbNest);
        let mut targets: Vec<(Option<String>, usize, usize)> = Vec::new(); // (inst, prog, var idx)
        for (gi, v) in globals.iter().enumerate() {
            if has_std(v.ty) {
                targets.push((None, 0, gi));
            }
        }
        for (k, p) in progs.iter().enumerate() {
            for (vi, v) in p.vars.iter().enumerate() {
                if has_std(v.ty) {
                    targets.push((Some(p.inst.clone()), k, vi));
                }
            }
        }
        for (n, (inst, k, vi)) in targets.into_iter().enumerate().take(5) {
            if !r.chance(2, 3) {
                continue;
            }
            let v = match &inst {
                None => &globals[vi],
                Some(_) => &progs[k].vars[vi],
            };
            let (path, ty_text) = if v.ty == Ty::FbNest {
                let base = match &inst {
                    Some(i) => format!("{i}.{}", v.name),
                    None => v.name.clone(),
                };
                if r.flag() {
                    (format!("{base}.tm.Q"), "BOOL".to_string())
                } else {
                    (format!("{base}.tm.ET"), "TIME".to_string())
                }
            } else {
                access_path(v, inst.as_deref(), &mut r)
            };
            let name = format!("SB{n}");
            access_decls.push(format!("    {name} : {path} : {ty_text} READ_ONLY;\n"));
            access.push(name);
            labels.insert("binding=var_access_into_standard_fb".into());
        }
    }

    // ---- VAR_CONFIG initial value (known finding while open)
    let mut var_config: Vec<String> = Vec::new();
    if r.chance(1, 6) {
        if open.varconfig_init {
            excluded.push(K_VARCONFIG.to_string());
        } else {
            let k = r.pick(n_progs);
            if let Some(v) = progs[k].vars.iter().find(|v| v.ty == Ty::Int && v.at.is_none()) {
                var_config.push(format!("    P{k}.{} : INT := INT#4242;\n", v.name));
                labels.insert("config=var_config_initial_value".into());
            }
        }
    }

    // ---- print
    let mut src = String::from(PREAMBLE);
    for p in &progs {
        src.push_str(&format!("PROGRAM {}\n", p.type_name));
        blocks("VAR", &p.vars, &mut src);
        if !globals.is_empty() {
            src.push_str("VAR_EXTERNAL\n");
            for g in &globals {
                src.push_str(&format!("    {} : {};\n", g.name, g.ty.text()));
            }
            src.push_str("END_VAR\n");
        }
        for s in &p.stmts {
            src.push_str(s);
            src.push('\n');
        }
        src.push_str("END_PROGRAM\n\n");
    }
    src.push_str("CONFIGURATION Conf\n");
    // globals: either at configuration level or inside the resource
    let globals_in_resource = use_resource && r.flag();
    if !globals_in_resource {
        blocks("VAR_GLOBAL", &globals, &mut src);
    }
    if use_resource {
        src.push_str("RESOURCE R ON CPU\n");
        labels.insert("config=resource".into());
        if globals_in_resource {
            blocks("VAR_GLOBAL", &globals, &mut src);
        }
    }
    for t in &tasks {
        let mut parts = Vec::new();
        if let Some(s) = &t.single {
            parts.push(format!("SINGLE := {s}"));
        }
        if let Some(i) = t.interval_ms {
            parts.push(format!("INTERVAL := T#{i}ms"));
        }
        parts.push(format!("PRIORITY := {}", t.prio));
        src.push_str(&format!("TASK {} ({});\n", t.name, parts.join(", ")));
    }
    for p in &progs {
        let with = match p.task {
            Some(t) => format!(" WITH {}", tasks[t].name),
            None => String::new(),
        };
        let fbs = if p.fb_tasks.is_empty() {
            String::new()
        } else {
            format!(
                " ({})",
                p.fb_tasks
                    .iter()
                    .map(|(v, t)| format!("{v} WITH {}", tasks[*t].name))
                    .collect::<Vec<_>>()
                    .join(", ")
            )
        };
        src.push_str(&format!(
            "PROGRAM{} {}{} : {}{};\n",
            p.inst_qual.kw(),
            p.inst,
            with,
            p.type_name,
            fbs
        ));
    }
    if use_resource {
        src.push_str("END_RESOURCE\n");
    }
    if !access_decls.is_empty() {
        src.push_str("VAR_ACCESS\n");
        for a in &access_decls {
            src.push_str(a);
        }
        src.push_str("END_VAR\n");
    }
    if !var_config.is_empty() {
        src.push_str("VAR_CONFIG\n");
        for a in &var_config {
            src.push_str(a);
        }
        src.push_str("END_VAR\n");
    }
    src.push_str("END_CONFIGURATION\n");

    // ---- history
    let store_interval_ms = if r.chance(1, 2) {
        labels.insert("store=configured_from_start".into());
        // periodic save: none, every cycle, small, large, very large (simulated time)
        let ms = [-1i64, -1, 0, 20, 100, 1000][spread(&mut r, 6)];
        labels.insert(format!("store_interval_ms={ms}"));
        Some(ms)
    } else {
        let _ = r.word();
        None
    };
    let mut ops: Vec<Op> = Vec::new();
    let n_ops = 4 + r.pick(14);
    for _ in 0..n_ops {
        let op = match r.weighted(&[12, 2, 3, 2, 2, 1, 2, 3, 3]) {
            0 => Op::Cycle {
                inputs: inputs.iter().map(|s| input_word(&mut r, s.bits)).collect(),
                dt_ns: DT_CHOICES[r.pick(DT_CHOICES.len())],
            },
            1 => {
                let index = r.pick(inputs.len());
                Op::Input {
                    index,
                    value: input_word(&mut r, inputs[index].bits),
                }
            }
            2 => Op::Restart { cold: true },
            3 => Op::Restart { cold: false },
            4 => {
                if global_retained_instance && open.retain_fb {
                    // a retained global FB/class instance does not survive a power cycle
                    // (open finding): no power cycle in such a history
                    excluded.push(K_RETAIN_FB.to_string());
                    Op::Restart { cold: false }
                } else {
                    Op::PowerCycle
                }
            }
            5 => Op::Fault,
            6 => {
                let cold = r.flag();
                if open.rwr {
                    excluded.push(K_RWR.to_string());
                    Op::Restart { cold }
                } else {
                    Op::RestartWithRetain { cold }
                }
            }
            7 => {
                if global_retained_instance && open.retain_fb {
                    // the store cannot hold a retained global instance (open finding)
                    excluded.push(K_RETAIN_FB.to_string());
                    Op::Restart { cold: false }
                } else {
                    Op::PowerLoss
                }
            }
            _ => Op::Restart { cold: false },
        };
        ops.push(op);
    }
    // power loss right after a store-synchronising restart: the state the store is left in
    if !(global_retained_instance && open.retain_fb) && r.chance(1, 3) {
        if let Some(at) = ops
            .iter()
            .position(|o| matches!(o, Op::RestartWithRetain { .. }))
        {
            ops.insert(at + 1, Op::PowerLoss);
        }
    }
    let is_restart = |o: &Op| {
        matches!(
            o,
            Op::Restart { .. } | Op::PowerCycle | Op::RestartWithRetain { .. } | Op::PowerLoss
        )
    };
    if !ops.iter().any(is_restart) {
        let at = (ops.len() * 2) / 3;
        let kind = r.pick(3);
        ops.insert(
            at,
            match kind {
                0 => Op::Restart { cold: true },
                1 => Op::Restart { cold: false },
                _ if global_retained_instance && open.retain_fb => Op::Restart { cold: false },
                _ => Op::PowerCycle,
            },
        );
    }
    if force_power && !ops.iter().any(|o| matches!(o, Op::PowerCycle)) {
        let at = (ops.len() * 2) / 3;
        ops.insert(at, Op::PowerCycle);
    }
    // most histories run at least one cycle before the first restart, so that instances of
    // standard blocks have executed (and created their hidden state) when it happens
    let first = ops.iter().position(is_restart).unwrap_or(0);
    if !ops[..first].iter().any(|o| matches!(o, Op::Cycle { .. })) && r.chance(3, 4) {
        ops.insert(
            0,
            Op::Cycle {
                inputs: inputs
                    .iter()
                    .map(|s| if s.bits == 1 { 1 } else { input_word(&mut r, s.bits) | 1 })
                    .collect(),
                dt_ns: 10_000_000,
            },
        );
        ops.insert(
            1,
            Op::Cycle {
                inputs: inputs.iter().map(|s| input_word(&mut r, s.bits)).collect(),
                dt_ns: 25_000_000,
            },
        );
    }
    // a continuation after the last restart: at least two cycles with live inputs
    let last = ops.iter().rposition(is_restart).unwrap_or(0);
    let after = ops[last + 1..]
        .iter()
        .filter(|o| matches!(o, Op::Cycle { .. }))
        .count();
    for _ in after..2 {
        ops.push(Op::Cycle {
            inputs: inputs
                .iter()
                .map(|s| if s.bits == 1 { 1 } else { input_word(&mut r, s.bits) | 1 })
                .collect(),
            dt_ns: DT_CHOICES[r.pick(DT_CHOICES.len())],
        });
    }
    retained.sort();
    retained.dedup();

    Scenario {
        source: src,
        retained,
        inputs,
        outputs,
        access,
        ops,
        store_interval_ms,
        labels: labels.into_iter().collect(),
        excluded,
    }
}

/// An access path into `v` and the type text of the accessed element.
fn access_path(v: &Var, inst: Option<&str>, r: &mut Reader<'_>) -> (String, String) {
    let base = match inst {
        Some(i) => format!("{i}.{}", v.name),
        None => v.name.clone(),
    };
    match v.ty {
        Ty::ArrInt => {
            let i = r.pick(4) as i64 - 1;
            (format!("{base}[{i}]"), "INT".into())
        }
        Ty::Arr2D => {
            let i = r.pick(2);
            let j = 1 + r.pick(2);
            (format!("{base}[{i},{j}]"), "DINT".into())
        }
        Ty::Struct => match r.pick(3) {
            0 => (format!("{base}.a"), "INT".into()),
            1 => (format!("{base}.t"), "TIME".into()),
            _ => (base, "S1".into()),
        },
        Ty::ArrStruct => {
            let i = 1 + r.pick(2);
            (format!("{base}[{i}]"), "S1".into())
        }
        Ty::FbAcc => (format!("{base}.total"), "INT".into()),
        Ty::FbNest => match r.pick(4) {
            0 => (format!("{base}.cnt"), "DINT".into()),
            1 => (format!("{base}.tm.Q"), "BOOL".into()),
            2 => (format!("{base}.inner.total"), "INT".into()),
            _ => (format!("{base}.tm.ET"), "TIME".into()),
        },
        // standard blocks create hidden `__ST_*` members on first execution; CTU.CV is
        // ANY_INT-typed and not accepted as an access type
        Ty::FbTon => match r.pick(2) {
            0 => (format!("{base}.Q"), "BOOL".into()),
            _ => (format!("{base}.ET"), "TIME".into()),
        },
        Ty::FbCtu | Ty::FbTrig => (format!("{base}.Q"), "BOOL".into()),
        Ty::FbIo => (format!("{base}.cnt"), "DINT".into()),
        Ty::ClassDer => (format!("{base}.cv"), "DINT".into()),
        other => (base, other.text().to_string()),
    }
}
