//! C13 - incremental analysis equals from-scratch analysis after any edit history.
//!
//! A case is a history of 1..40 operations `set(f, text)`, `remove(f)`, `query(kind, f)` over
//! FileId 1..5 (see `c13/gen.rs`). The history is run twice against `trust_hir::Database`:
//!
//! * **full** pass: after EVERY operation every query kind is asked for ALL five files
//!   (present or not) and the canonical, id-free rendering (`c13/render.rs`) is compared with
//!   the rendering obtained from a brand-new `Database` into which the current texts were
//!   loaded in FileId order. Everything is therefore memoised before every edit.
//! * **pure** pass: a second `Database` sees only the operations of the history (so the set
//!   of memoised queries before an edit is whatever the history asked); every query answer
//!   is compared with the fresh database's answer to the same query; for up to eight
//!   prefixes of the history (all of them for short histories) the prefix is replayed
//!   into yet another `Database` and all files / all kinds are compared there.
//!
//! A second search (`c13/project.rs`) drives `trust_hir::Project` - the SourceKey-addressed
//! wrapper (source registry + database) through which the language server adds, edits,
//! removes, renames and re-adds files - with the same oracle per live key plus the registry
//! invariants (distinct keys have distinct ids, `source_text(id_of(key))` is the key's text,
//! as many file ids as live keys).
//!
//! A third search (`c13/boundary.rs`) is aimed at the clause "no query panics for any file
//! contents": 44 templates put numeric boundary literals wherever the front end computes
//! with numbers from the source (enum values, subrange / array bounds, string lengths,
//! typed / based / real / time / date literals, constants, direct addresses, task
//! priorities / intervals, CASE labels, FOR bounds, bit positions); all queries are asked,
//! type_of at every token, and an edit to the neighbouring boundary value is compared with a
//! brand-new database. The templates are also an item kind of the project generator.
//!
//! A fourth search (`c13/readers.rs`) shares one `&Database` between 2-4 reader threads
//! (as the language server does under `project.read()`): after a sequential edit history the
//! readers issue generated read-only queries at the same time, cold and warm; every answer
//! must equal the sequential answer of a brand-new database. It is the only
//! schedule-dependent part, and its oracle involves no timing.
//!
//! In both passes every query is issued twice in a row and must return an equal answer, and
//! any panic (in the incremental or the fresh database) is a violation.

use std::collections::BTreeMap;
use std::sync::atomic::{AtomicBool, AtomicU32, AtomicU64, Ordering};
use std::sync::Arc;

use proptest::prelude::*;
use serde_json::json;
use trust_hir::db::{Database, FileId, SemanticDatabase, SourceDatabase};
use trust_hir::types::TypeId;

use crate::engine::tape::Tape;
use crate::engine::{Probe, PropertyInfo, RunCtx};

mod boundary;
mod gen;
mod project;
mod readers;
mod render;

use gen::{History, Op, QueryKind, NFILES};

pub fn info() -> PropertyInfo {
    PropertyInfo {
        id: "C13",
        level: "exploration",
        rule: "search `history`: case = history of 1..40 ops {set, remove, query(diagnostics|analyze|file_symbols|type_of|expr_id_at_offset)} over FileId 1..5 with small edits of a cross-referencing generated project, run against trust_hir::Database; non-trivial = the history contains an edit (set/remove) of file A after which the from-scratch answers for another, textually unchanged file B differ from before the edit while B had already been queried by the history since B's last own change, or it removes a file and later re-adds it. Search `project`: case = history of 1..40 ops {set, remove, rename (remove old, remove new, set new), query} over 8 source keys (<= 6 live) run against trust_hir::Project; non-trivial = some key gets a file id allocated (new key or re-add) after another key was removed while >= 2 other keys are live. Search `boundary`: case = (template 0..43, three indices into pools of numeric boundary literals, type) -> one text with boundary numbers where the front end computes with source numbers, analysed in a new database (type_of at every token), imported by a second file and edited to the neighbouring boundary value; non-trivial = the text has no syntax error (the analysis reaches the numbers), distinct by text. Search `readers`: case = edit history (<= 20 ops, one thread) + 2-4 scripts of 5-13 read-only queries (diagnostics, analyze, file_symbols, type_of, expr_id_at_offset, resolve_name over FileId 1..5) run concurrently on one &Database at up to 4 points of the history (cold pass, barrier, warm pass), the case repeated 8 (quick) / 12 (thorough) times with a new Database; non-trivial = at least two files are present at the end. Otherwise distinct by SHA-256 of the op list",
        assumptions: &[
            "edits are exclusive (one thread, as &mut self demands); concurrent use is exercised for readers only: 2-4 threads querying one &Database between edits; no query runs concurrently with an edit and trigger_salsa_cancellation is not called; the Project search is single-threaded",
            "the number of overlapping concurrent queries depends on the OS schedule (evidence only): the verdict compares every concurrent answer with the sequential from-scratch answer and involves no timing",
            "the from-scratch Database is loaded in ascending FileId order; the from-scratch Project is loaded in the order of the incremental project's FileIds (name clashes are resolved by FileId order, so the relative order is part of the input)",
            "files are FileId 1..5 resp. 8 source keys (virtual and non-existing paths), texts <= ~3 KB (generated project) or mutated repository .st files <= 2.5 KB",
        ],
        workers_quick: 8,
        workers_thorough: 16,
        address_space_limit: 4 << 30,
        watchdog_quick_s: 900,
        watchdog_thorough_s: 7200,
        run,
    }
}

fn fid(f: usize) -> FileId {
    FileId(f as u32 + 1)
}

// ---------------------------------------------------------------------------------------
// answers

#[derive(Clone, Debug, PartialEq, Eq)]
enum Raw {
    Diags(Arc<Vec<trust_hir::Diagnostic>>),
    /// `FileAnalysis` is not nameable from outside the crate: keep its two public fields
    Analysis(Arc<Vec<trust_hir::Diagnostic>>, Arc<trust_hir::symbols::SymbolTable>),
    Symbols(Arc<trust_hir::symbols::SymbolTable>),
    TypeAt(Option<u32>, Option<TypeId>),
    Type(TypeId),
    Expr(Option<u32>),
    /// `resolve_name`: the symbol found, by name and range (not by SymbolId)
    Resolved(Option<Option<(String, u32, u32)>>),
}

fn ask(db: &Database, kind: QueryKind, f: FileId, arg: u32) -> Raw {
    match kind {
        QueryKind::Diagnostics => Raw::Diags(db.diagnostics(f)),
        QueryKind::Analyze => {
            let a = db.analyze(f);
            Raw::Analysis(a.diagnostics.clone(), a.symbols.clone())
        }
        QueryKind::FileSymbols => Raw::Symbols(db.file_symbols(f)),
        QueryKind::TypeOfAt => {
            let id = db.expr_id_at_offset(f, arg);
            Raw::TypeAt(id, id.map(|id| db.type_of(f, id)))
        }
        QueryKind::TypeOfId => Raw::Type(db.type_of(f, arg)),
        QueryKind::ExprAt => Raw::Expr(db.expr_id_at_offset(f, arg)),
        QueryKind::ResolveName => {
            let name = gen::RESOLVE_NAMES[arg as usize % gen::RESOLVE_NAMES.len()];
            let id = db.resolve_name(f, name);
            let table = db.file_symbols(f);
            Raw::Resolved(id.map(|i| {
                table.get(i).map(|s| {
                    (
                        s.name.to_string(),
                        u32::from(s.range.start()),
                        u32::from(s.range.end()),
                    )
                })
            }))
        }
    }
}

/// Ask twice; the two answers must be equal (no edit in between).
fn ask_twice(db: &Database, kind: QueryKind, f: FileId, arg: u32, who: &str) -> Result<Raw, String> {
    let a = ask(db, kind, f, arg);
    let b = ask(db, kind, f, arg);
    if a != b {
        return Err(format!(
            "{who}: repeating {kind:?}(file {}, {arg}) without an intervening edit gives a different answer:\n first: {}\n second: {}",
            f.0,
            short(&render_raw(&a, None)),
            short(&render_raw(&b, None))
        ));
    }
    Ok(a)
}

/// Type without a table: builtin name or an opaque marker (user type numbering is internal).
fn type_opaque(t: TypeId) -> String {
    if t == TypeId::UNKNOWN {
        "?".into()
    } else if t == TypeId::VOID {
        "VOID".into()
    } else if let Some(n) = t.builtin_name() {
        n.into()
    } else if t.0 < TypeId::USER_TYPES_START {
        format!("builtin#{}", t.0)
    } else {
        "<user type>".into()
    }
}

/// Canonical rendering of one answer. `table` (the file's own analysis table in the same
/// database) renders user types structurally; without it they are opaque.
fn render_raw(raw: &Raw, table: Option<&trust_hir::symbols::SymbolTable>) -> Vec<String> {
    render_raw_with(raw, table, &render::by_file_id)
}

fn render_raw_with(
    raw: &Raw,
    table: Option<&trust_hir::symbols::SymbolTable>,
    namer: render::FileNamer,
) -> Vec<String> {
    let ty = |t: TypeId| match table {
        Some(tab) => render::type_str(tab, t, 3),
        None => type_opaque(t),
    };
    match raw {
        Raw::Diags(d) => render::diagnostics(d),
        Raw::Analysis(d, s) => {
            let mut v = render::diagnostics(d);
            v.push("--symbols--".into());
            v.extend(render::symbol_table_with(s, namer));
            v
        }
        Raw::Symbols(s) => render::symbol_table_with(s, namer),
        Raw::TypeAt(id, t) => vec![format!(
            "expr={id:?} type={}",
            t.map(ty).unwrap_or_else(|| "-".into())
        )],
        Raw::Type(t) => vec![format!("type={}", ty(*t))],
        Raw::Expr(id) => vec![format!("expr={id:?}")],
        Raw::Resolved(r) => vec![format!("resolved={r:?}")],
    }
}

fn short(lines: &[String]) -> String {
    let mut s = lines.iter().take(6).cloned().collect::<Vec<_>>().join(" | ");
    if s.len() > 700 {
        let mut end = 700;
        while !s.is_char_boundary(end) {
            end -= 1;
        }
        s.truncate(end);
        s.push_str("...");
    }
    s
}

/// Lines only on one side (both lists sorted or at least comparable as multisets).
fn diff_lines(inc: &[String], fresh: &[String]) -> String {
    let mut count: BTreeMap<&str, i64> = BTreeMap::new();
    for l in inc {
        *count.entry(l.as_str()).or_default() += 1;
    }
    for l in fresh {
        *count.entry(l.as_str()).or_default() -= 1;
    }
    let only_inc: Vec<&str> = count.iter().filter(|(_, c)| **c > 0).map(|(l, _)| *l).take(3).collect();
    let only_fresh: Vec<&str> = count.iter().filter(|(_, c)| **c < 0).map(|(l, _)| *l).take(3).collect();
    let cut = |s: &str| {
        if s.len() > 400 {
            let mut end = 400;
            while !s.is_char_boundary(end) {
                end -= 1;
            }
            format!("{}...", &s[..end])
        } else {
            s.to_string()
        }
    };
    let mut out = String::new();
    for l in only_inc {
        out.push_str(&format!("\n   only incremental: {}", cut(l)));
    }
    for l in only_fresh {
        out.push_str(&format!("\n   only from-scratch: {}", cut(l)));
    }
    if out.is_empty() {
        out.push_str("\n   (same lines, different multiplicity or order)");
    }
    out
}

// ---------------------------------------------------------------------------------------
// snapshots of all files

#[derive(Clone, Debug, PartialEq, Eq, Default)]
struct FileSnap {
    diags: Vec<String>,
    an_diags: Vec<String>,
    an_syms: Vec<String>,
    file_syms: Vec<String>,
    exprs: Vec<String>,
}

#[derive(Clone, Debug, PartialEq, Eq, Default)]
struct Snapshot {
    files: Vec<FileSnap>,
}

/// Offsets probed for expression types in a full comparison: a function of the text only.
fn probe_offsets(text: Option<&String>) -> Vec<u32> {
    let Some(text) = text else {
        return vec![0, 7];
    };
    let starts = gen::token_starts(text);
    let mut out = Vec::new();
    let want = 6usize;
    if starts.len() <= want {
        out.extend(starts.iter().copied());
    } else {
        for k in 0..want {
            // from the end of the file backwards (statement parts are at the end of a POU)
            out.push(starts[starts.len() - 1 - k * (starts.len() - 1) / (want - 1)]);
        }
    }
    out.push(text.len() as u32);
    out
}

/// Ask everything about one file (each query twice). `reverse` flips the order of the kinds.
fn file_snapshot(
    db: &Database,
    id: FileId,
    text: Option<&String>,
    reverse: bool,
    who: &str,
    namer: render::FileNamer,
) -> Result<FileSnap, String> {
    let mut snap = FileSnap::default();
    let kinds: [u8; 4] = if reverse { [3, 2, 1, 0] } else { [0, 1, 2, 3] };
    let mut table: Option<Arc<trust_hir::symbols::SymbolTable>> = None;
    let mut pending_exprs: Vec<(u32, Raw)> = Vec::new();
    for k in kinds {
        match k {
            0 => {
                let r = ask_twice(db, QueryKind::Diagnostics, id, 0, who)?;
                snap.diags = render_raw(&r, None);
            }
            1 => {
                let r = ask_twice(db, QueryKind::Analyze, id, 0, who)?;
                if let Raw::Analysis(d, s) = &r {
                    snap.an_diags = render::diagnostics(d);
                    snap.an_syms = render::symbol_table_with(s, namer);
                    table = Some(s.clone());
                }
            }
            2 => {
                let r = ask_twice(db, QueryKind::FileSymbols, id, 0, who)?;
                snap.file_syms = render_raw_with(&r, None, namer);
            }
            _ => {
                for off in probe_offsets(text) {
                    let r = ask_twice(db, QueryKind::TypeOfAt, id, off, who)?;
                    pending_exprs.push((off, r));
                }
                let r = ask_twice(db, QueryKind::TypeOfId, id, 0, who)?;
                pending_exprs.push((u32::MAX, r));
            }
        }
    }
    let table = match table {
        Some(t) => t,
        None => db.analyze(id).symbols.clone(),
    };
    for (off, r) in pending_exprs {
        snap.exprs.push(format!("@{off}: {}", render_raw(&r, Some(&table)).join(" ")));
    }
    Ok(snap)
}

/// Ask everything about every file. `rot` varies the order in which files and kinds are
/// asked (it decides which memoised result is revalidated first after an edit).
fn snapshot(db: &Database, texts: &[Option<String>], rot: usize, who: &str) -> Result<Snapshot, String> {
    let mut files = vec![FileSnap::default(); NFILES];
    for i in 0..NFILES {
        let f = (i + rot) % NFILES;
        files[f] = file_snapshot(
            db,
            fid(f),
            texts[f].as_ref(),
            (rot / NFILES) % 2 == 1,
            who,
            &render::by_file_id,
        )?;
    }
    Ok(Snapshot { files })
}

/// Evidence counters (per worker process): answers compared with the from-scratch side.
static COMPARED_SNAPSHOT_PARTS: AtomicU64 = AtomicU64::new(0);
static COMPARED_QUERIES: AtomicU64 = AtomicU64::new(0);
static FRESH_DATABASES: AtomicU64 = AtomicU64::new(0);

fn compare_file_snaps(a: &FileSnap, b: &FileSnap, ctx: &str, file: &str) -> Result<(), String> {
    COMPARED_SNAPSHOT_PARTS.fetch_add(5, Ordering::Relaxed);
    let parts: [(&str, &Vec<String>, &Vec<String>); 5] = [
        ("diagnostics()", &a.diags, &b.diags),
        ("analyze().diagnostics", &a.an_diags, &b.an_diags),
        ("analyze().symbols", &a.an_syms, &b.an_syms),
        ("file_symbols()", &a.file_syms, &b.file_syms),
        ("type_of(expr_id_at_offset())", &a.exprs, &b.exprs),
    ];
    for (what, x, y) in parts {
        if x != y {
            return Err(format!(
                "{ctx}: {what} of {file} differs from a brand-new database with the same texts:{}",
                diff_lines(x, y)
            ));
        }
    }
    Ok(())
}

fn compare_snapshots(inc: &Snapshot, fresh: &Snapshot, ctx: &str) -> Result<(), String> {
    for f in 0..NFILES {
        compare_file_snaps(&inc.files[f], &fresh.files[f], ctx, &format!("file {}", f + 1))?;
    }
    Ok(())
}

// ---------------------------------------------------------------------------------------
// from-scratch side, one per distinct text state of the history

struct Fresh {
    texts: Vec<Option<String>>,
    db: Database,
    snap: Option<Snapshot>,
}

impl Fresh {
    fn new(texts: &[Option<String>]) -> Fresh {
        FRESH_DATABASES.fetch_add(1, Ordering::Relaxed);
        let mut db = Database::new();
        for (f, t) in texts.iter().enumerate() {
            if let Some(t) = t {
                db.set_source_text(fid(f), t.clone());
            }
        }
        Fresh {
            texts: texts.to_vec(),
            db,
            snap: None,
        }
    }

    fn snapshot(&mut self) -> Result<&Snapshot, String> {
        if self.snap.is_none() {
            self.snap = Some(snapshot(&self.db, &self.texts, 0, "from-scratch database")?);
        }
        Ok(self.snap.as_ref().unwrap())
    }
}

/// States of a history: `state_after[k]` = index into `states` after op k.
struct States {
    states: Vec<Fresh>,
    state_after: Vec<usize>,
}

fn apply_to_texts(texts: &mut [Option<String>], op: &Op) -> bool {
    match op {
        Op::Set { f, text } => {
            let f = *f as usize % NFILES;
            if texts[f].as_ref() == Some(text) {
                false
            } else {
                texts[f] = Some(text.clone());
                true
            }
        }
        Op::Remove { f } => texts[*f as usize % NFILES].take().is_some(),
        Op::Query { .. } => false,
    }
}

fn build_states(h: &History) -> States {
    let mut texts: Vec<Option<String>> = vec![None; NFILES];
    let mut states = vec![Fresh::new(&texts)];
    let mut state_after = Vec::with_capacity(h.ops.len());
    for op in &h.ops {
        if apply_to_texts(&mut texts, op) {
            states.push(Fresh::new(&texts));
        }
        state_after.push(states.len() - 1);
    }
    States { states, state_after }
}

fn apply_to_db(db: &mut Database, op: &Op) {
    match op {
        Op::Set { f, text } => db.set_source_text(fid(*f as usize % NFILES), text.clone()),
        Op::Remove { f } => db.remove_source_text(fid(*f as usize % NFILES)),
        Op::Query { .. } => {}
    }
}

fn describe(op: &Op) -> String {
    describe_with(op, &|f| format!("file {}", f % NFILES + 1))
}

fn describe_with(op: &Op, name: &dyn Fn(usize) -> String) -> String {
    match op {
        Op::Set { f, text } => format!("set({}, {} bytes)", name(*f as usize), text.len()),
        Op::Remove { f } => format!("remove({})", name(*f as usize)),
        Op::Query { kind, f, arg } => format!("query({kind:?}, {}, {arg})", name(*f as usize)),
    }
}

/// Run one query of the history against the incremental database and the fresh one.
fn check_query(
    db: &Database,
    fresh: &Fresh,
    kind: QueryKind,
    f: usize,
    arg: u32,
    structural: bool,
    ctx: &str,
) -> Result<Raw, String> {
    let id = fid(f);
    let a = ask_twice(db, kind, id, arg, "incremental database")?;
    let b = ask_twice(&fresh.db, kind, id, arg, "from-scratch database")?;
    let (ra, rb) = if structural && matches!(kind, QueryKind::TypeOfAt | QueryKind::TypeOfId) {
        let ta = db.analyze(id).symbols.clone();
        let tb = fresh.db.analyze(id).symbols.clone();
        (render_raw(&a, Some(&ta)), render_raw(&b, Some(&tb)))
    } else {
        (render_raw(&a, None), render_raw(&b, None))
    };
    COMPARED_QUERIES.fetch_add(1, Ordering::Relaxed);
    if ra != rb {
        return Err(format!(
            "{ctx}: answer of {kind:?}(file {}, {arg}) differs from a brand-new database with the same texts:{}",
            f + 1,
            diff_lines(&ra, &rb)
        ));
    }
    // source_text is the input itself; it must read back
    let t = db.source_text(id);
    let expect = fresh.texts[f].clone().unwrap_or_default();
    if *t != expect {
        return Err(format!("{ctx}: source_text(file {}) is not the text last set", f + 1));
    }
    Ok(a)
}

/// Full pass: after every op ask everything about every file on the same database.
fn full_pass(h: &History, st: &mut States) -> Result<(), String> {
    let mut db = Database::new();
    for (k, op) in h.ops.iter().enumerate() {
        let ctx = format!("[full pass] after op {k} = {}", describe(op));
        apply_to_db(&mut db, op);
        let fresh = &mut st.states[st.state_after[k]];
        if let Op::Query { kind, f, arg } = op {
            let _ = check_query(&db, fresh, *kind, *f as usize % NFILES, *arg, true, &ctx)?;
        }
        let texts = fresh.texts.clone();
        let inc = snapshot(&db, &texts, k, "incremental database")?;
        compare_snapshots(&inc, fresh.snapshot()?, &ctx)?;
    }
    Ok(())
}

/// Pure pass: the database sees only the history's own operations.
fn pure_pass(h: &History, st: &mut States) -> Result<(), String> {
    let n = h.ops.len();
    let mut db = Database::new();
    // answers given since the last set/remove: the same query must give the same answer
    // again, however many other queries were asked in between
    let mut since_edit: Vec<((QueryKind, usize, u32), usize, Raw)> = Vec::new();
    for (k, op) in h.ops.iter().enumerate() {
        let ctx = format!("[pure pass] op {k} = {}", describe(op));
        apply_to_db(&mut db, op);
        match op {
            Op::Query { kind, f, arg } => {
                let f = *f as usize % NFILES;
                let fresh = &st.states[st.state_after[k]];
                let a = check_query(&db, fresh, *kind, f, *arg, false, &ctx)?;
                let key = (*kind, f, *arg);
                if let Some((_, k0, old)) = since_edit.iter().find(|(q, _, _)| *q == key) {
                    if *old != a {
                        return Err(format!(
                            "{ctx}: the same query was answered differently at op {k0} and no set/remove happened in between:\n first: {}\n now: {}",
                            short(&render_raw(old, None)),
                            short(&render_raw(&a, None))
                        ));
                    }
                } else {
                    since_edit.push((key, k, a));
                }
            }
            _ => since_edit.clear(),
        }
    }
    // all files / all kinds at the end of selected prefixes, each on a database that has
    // seen nothing but that prefix
    let prefixes: Vec<usize> = if n <= 8 {
        (1..=n).collect()
    } else {
        let mut v: Vec<usize> = (1..=8).map(|i| i * n / 8).collect();
        v.dedup();
        v
    };
    for p in prefixes {
        let ctx = format!(
            "[pure pass] prefix of {p} ops (last = {})",
            describe(&h.ops[p - 1])
        );
        let replayed;
        let dbp: &Database = if p == n {
            &db
        } else {
            let mut d = Database::new();
            for op in &h.ops[..p] {
                apply_to_db(&mut d, op);
                if let Op::Query { kind, f, arg } = op {
                    let _ = ask(&d, *kind, fid(*f as usize % NFILES), *arg);
                }
            }
            replayed = d;
            &replayed
        };
        let fresh = &mut st.states[st.state_after[p - 1]];
        let texts = fresh.texts.clone();
        let inc = snapshot(dbp, &texts, p, "incremental database")?;
        compare_snapshots(&inc, fresh.snapshot()?, &ctx)?;
    }
    Ok(())
}

fn classify(h: &History, st: &mut States, probe: &mut Probe) -> Result<(), String> {
    let n = h.ops.len();
    probe.label(format!(
        "ops={}",
        match n {
            0..=5 => "1-5",
            6..=15 => "6-15",
            16..=30 => "16-30",
            _ => "31-40",
        }
    ));
    for w in &h.how {
        if w != "query" {
            probe.label(format!("edit={w}"));
        }
    }
    let mut queried_since_change = [false; NFILES];
    let mut removed_once = [false; NFILES];
    let mut readd = false;
    let mut cross = 0u32;
    let mut cross_on_queried = 0u32;
    let mut prev_state = 0usize;
    let mut partial = false;
    for (k, op) in h.ops.iter().enumerate() {
        let s = st.state_after[k];
        match op {
            Op::Query { kind, f, .. } => {
                let f = *f as usize % NFILES;
                queried_since_change[f] = true;
                probe.label(format!("query={kind:?}"));
                if st.states[s].texts[f].is_none() {
                    probe.label("query_absent_file");
                }
            }
            Op::Set { f, .. } | Op::Remove { f } => {
                let f = *f as usize % NFILES;
                if s != prev_state {
                    let before = st.states[prev_state].snapshot()?.clone();
                    let after = st.states[s].snapshot()?.clone();
                    let mut hit = false;
                    let mut hit_queried = false;
                    for b in 0..NFILES {
                        if b == f || st.states[s].texts[b].is_none() {
                            continue;
                        }
                        if before.files[b] != after.files[b] {
                            hit = true;
                            if queried_since_change[b] {
                                hit_queried = true;
                            }
                        }
                    }
                    if hit {
                        cross += 1;
                    }
                    if hit_queried {
                        cross_on_queried += 1;
                    }
                    if matches!(op, Op::Remove { .. }) {
                        removed_once[f] = true;
                    } else if removed_once[f] && st.states[prev_state].texts[f].is_none() {
                        readd = true;
                    }
                    queried_since_change[f] = false;
                }
            }
        }
        prev_state = s;
    }
    for s in &st.states {
        for t in s.texts.iter().flatten() {
            if !trust_syntax::parser::parse(t).ok() {
                partial = true;
            }
        }
    }
    if cross > 0 {
        probe.label("cross_file_effect");
    }
    if cross_on_queried > 0 {
        probe.label("cross_file_effect_on_queried_file");
    }
    if readd {
        probe.label("remove_then_readd");
    }
    if partial {
        probe.label("has_partially_parsing_file");
    }
    let max_files = st
        .states
        .iter()
        .map(|s| s.texts.iter().flatten().count())
        .max()
        .unwrap_or(0);
    probe.label(format!("max_files={max_files}"));
    if cross_on_queried > 0 || readd {
        let key = serde_json::to_vec(&h.ops).unwrap_or_default();
        probe.nontrivial(&key);
        probe.sample(json!({
            "ops": h.ops.iter().map(describe).collect::<Vec<_>>(),
            "how": h.how,
            "cross_file_effects": cross,
            "on_already_queried_file": cross_on_queried,
            "remove_then_readd": readd,
        }));
    }
    Ok(())
}

/// Shrinking budget. After the first failing generated case of this worker every further
/// call is a shrink candidate (the engine stops generating); a candidate costs up to 0.5 s
/// and proptest would try 4096 of them, so only the first `SHRINK_BUDGET` candidates are
/// really evaluated - later ones are declared "not simpler" (Ok), which ends the shrinking
/// with the smallest case that really failed. Count-based, hence deterministic.
struct ShrinkBudget {
    failed: AtomicBool,
    calls: AtomicU32,
}
static DB_BUDGET: ShrinkBudget = ShrinkBudget {
    failed: AtomicBool::new(false),
    calls: AtomicU32::new(0),
};
static PROJECT_BUDGET: ShrinkBudget = ShrinkBudget {
    failed: AtomicBool::new(false),
    calls: AtomicU32::new(0),
};
static READERS_BUDGET: ShrinkBudget = ShrinkBudget {
    failed: AtomicBool::new(false),
    calls: AtomicU32::new(0),
};
const SHRINK_BUDGET: u32 = 500;

fn budgeted(
    budget: &ShrinkBudget,
    h: &History,
    probe: &mut Probe,
    inner: fn(&History, &mut Probe) -> Result<(), String>,
) -> Result<(), String> {
    if h.ops.is_empty() {
        return Ok(());
    }
    if h.generated
        && budget.failed.load(Ordering::Relaxed)
        && budget.calls.fetch_add(1, Ordering::Relaxed) >= SHRINK_BUDGET
    {
        return Ok(());
    }
    let res = crate::engine::catch(|| inner(h, probe)).and_then(|r| r);
    if res.is_err() && h.generated {
        budget.failed.store(true, Ordering::Relaxed);
    }
    res
}

fn check_history(h: &History, probe: &mut Probe) -> Result<(), String> {
    budgeted(&DB_BUDGET, h, probe, check_history_inner)
}

fn check_project_history(h: &History, probe: &mut Probe) -> Result<(), String> {
    budgeted(&PROJECT_BUDGET, h, probe, project::check_project_history)
}

fn check_history_inner(h: &History, probe: &mut Probe) -> Result<(), String> {
    let mut st = build_states(h);
    full_pass(h, &mut st)?;
    pure_pass(h, &mut st)?;
    classify(h, &mut st, probe)?;
    Ok(())
}

fn history_strategy() -> impl Strategy<Value = History> {
    history_strategy_cfg(&gen::DB_CFG)
}

fn history_strategy_cfg(cfg: &'static gen::GenCfg) -> impl Strategy<Value = History> {
    // own word mix: a history needs ~10 words per op, so the tape has a minimum length, and
    // the boundary words (0, MAX, k<<28) are rarer than in the shared tape strategy
    let word = prop_oneof![
        12 => any::<u32>(),
        2 => (0u32..16).prop_map(|v| v << 28),
        1 => Just(0u32),
        1 => Just(u32::MAX),
    ];
    (
        // first component = shrunk first; shrinks towards `false` = drop the op (any op list
        // is a valid history)
        proptest::collection::vec(proptest::bool::weighted(1.0), gen::MAX_OPS),
        proptest::collection::vec(word, 120..900).prop_map(|data| Tape { data }),
    )
        .prop_map(move |(keep, tape)| {
            let h = gen::history_from_tape_cfg(&tape, cfg);
            let mut ops = Vec::new();
            let mut how = Vec::new();
            for (i, op) in h.ops.into_iter().enumerate() {
                if keep.get(i).copied().unwrap_or(true) {
                    ops.push(op);
                    how.push(h.how.get(i).cloned().unwrap_or_default());
                }
            }
            History {
                ops,
                how,
                generated: true,
            }
        })
}

fn run(ctx: &mut RunCtx) {
    let tier = ctx.tier;
    // development / acceptance knob: run one search only (e.g. TPV_C13_ONLY=readers)
    let only = std::env::var("TPV_C13_ONLY").ok();
    let wanted = |name: &str| only.as_deref().map(|o| o == name).unwrap_or(true);
    if wanted("history") {
        ctx.search(
            "history",
            history_strategy(),
            tier.pick(400, 20_000),
            check_history,
        );
    }
    // third search: numeric boundary literals wherever the front end computes with
    // numbers from the source ("no query panics for any file contents")
    let bcase = (0u8..boundary::N_TEMPLATES as u8, any::<u8>(), any::<u8>(), any::<u8>(), 0u8..22)
        .prop_map(|(tpl, a, b, c, ty)| boundary::BoundaryCase { tpl, a, b, c, ty });
    if wanted("boundary") {
        ctx.search("boundary", bcase, tier.pick(1000, 60_000), check_boundary);
    }
    // second search: the same property through trust_hir::Project (keys, allocated ids)
    if wanted("project") {
        ctx.search(
            "project",
            history_strategy_cfg(&gen::PROJECT_CFG),
            tier.pick(200, 8_000),
            check_project_history,
        );
    }
    // fourth search: concurrent readers of one &Database (the only schedule-dependent part;
    // its oracle is the sequential from-scratch answer, so a correct tree cannot flake)
    let repetitions = tier.pick(8, 12) as usize;
    let rcase = (
        history_strategy_cfg(&gen::READERS_CFG),
        proptest::collection::vec(
            proptest::collection::vec((0u8..7, 0u8..NFILES as u8, any::<u32>()), 5..14),
            2..=4,
        ),
        proptest::collection::vec(any::<u32>(), 0..3),
    )
        .prop_map(|(history, scripts, phases)| readers::ReadersCase {
            history,
            scripts,
            phases,
            generated: true,
        });
    let rcases = if wanted("readers") { tier.pick(96, 3_000) } else { 0 };
    ctx.search("readers", rcase, rcases, move |c: &readers::ReadersCase, p: &mut Probe| {
        if c.generated
            && READERS_BUDGET.failed.load(Ordering::Relaxed)
            && READERS_BUDGET.calls.fetch_add(1, Ordering::Relaxed) >= 120
        {
            return Ok(());
        }
        // a replayed case (regression file) gets more repetitions: it is a known shape
        let reps = if c.generated { repetitions } else { repetitions * 3 };
        let res = crate::engine::catch(|| readers::check_readers(c, reps, p)).and_then(|r| r);
        if res.is_err() && c.generated {
            READERS_BUDGET.failed.store(true, Ordering::Relaxed);
        }
        res
    });
    {
        let asked = readers::QUERIES_ASKED.load(Ordering::Relaxed);
        let over = readers::QUERIES_OVERLAPPED.load(Ordering::Relaxed);
        let cold = readers::COLD_QUERIES_OVERLAPPED.load(Ordering::Relaxed);
        let phases = readers::PHASES.load(Ordering::Relaxed);
        let cold_phases = readers::PHASES_WITH_COLD_OVERLAP.load(Ordering::Relaxed);
        ctx.note(format!(
            "worker {} readers (schedule dependent): {asked} concurrent queries asked, {over} overlapped another reader's query ({cold} of them in a cold pass); {cold_phases} of {phases} read phases had overlapping cold queries",
            ctx.worker
        ));
    }
    if !DB_BUDGET.failed.load(Ordering::Relaxed) && !PROJECT_BUDGET.failed.load(Ordering::Relaxed) {
        ctx.note(format!(
            "worker {}: {} per-file answer groups (diagnostics / analyze diagnostics / analyze symbols / file symbols / expression types) and {} single query answers compared with {} brand-new databases / projects",
            ctx.worker,
            COMPARED_SNAPSHOT_PARTS.load(Ordering::Relaxed),
            COMPARED_QUERIES.load(Ordering::Relaxed),
            FRESH_DATABASES.load(Ordering::Relaxed)
        ));
    }
}

/// Third search: numeric boundary literals (see `c13/boundary.rs`).
fn check_boundary(case: &boundary::BoundaryCase, probe: &mut Probe) -> Result<(), String> {
    let t1 = boundary::text(case);
    let t2 = boundary::text(&boundary::neighbour(case));
    // a user of the pool names the templates declare, so that the odd types are imported
    let consumer = "PROGRAM Aux\nVAR\n    c : TColor;\n    l : TLevel;\n    p : TPoint;\n    k : INT;\nEND_VAR\nVAR_EXTERNAL\n    gCount : INT;\nEND_VAR\nc := Red;\nl := 5;\nk := AddOne(1);\nk := gCount;\nk := p[1];\nEND_PROGRAM\n";
    // every token of the text: expr_id_at_offset + type_of, twice
    {
        let mut db = Database::new();
        db.set_source_text(fid(0), t1.clone());
        for off in gen::token_starts(&t1).into_iter().take(120) {
            ask_twice(&db, QueryKind::TypeOfAt, fid(0), off, "new database")?;
        }
        let _ = ask_twice(&db, QueryKind::Diagnostics, fid(0), 0, "new database")?;
    }
    let h = History {
        ops: vec![
            Op::Set { f: 0, text: t1.clone() },
            Op::Set { f: 1, text: consumer.to_string() },
            Op::Set { f: 0, text: t2 },
        ],
        how: Vec::new(),
        generated: false,
    };
    let mut st = build_states(&h);
    full_pass(&h, &mut st)?;
    probe.label(format!("boundary_tpl={}", case.tpl as usize % boundary::N_TEMPLATES));
    let parsed = trust_syntax::parser::parse(&t1).ok();
    if parsed {
        let errors = st.states[1]
            .db
            .diagnostics(fid(0))
            .iter()
            .filter(|d| d.is_error())
            .count();
        probe.label(if errors == 0 { "boundary=accepted" } else { "boundary=rejected_by_analysis" });
        probe.nontrivial(format!("boundary:{t1}").as_bytes());
        probe.sample(json!({"search": "boundary", "text": t1, "error_diagnostics": errors}));
    } else {
        probe.label("boundary=syntax_errors");
    }
    Ok(())
}

/// Helper subcommands (child processes of this check); None = not mine.
/// `tpv c13-dump <seed-cases>`: print a few generated histories (development aid).
pub fn helper(args: &[String]) -> Option<i32> {
    if args.first().map(|s| s.as_str()) == Some("c13-diag") {
        // development aid: diagnostics of one text file as FileId 1
        let text = std::fs::read_to_string(args.get(1)?).ok()?;
        let mut db = Database::new();
        db.set_source_text(fid(0), text);
        for d in db.diagnostics(fid(0)).iter() {
            println!("{d}");
        }
        return Some(0);
    }
    if args.first().map(|s| s.as_str()) == Some("c13-boundary-templates") {
        // development aid: every template with benign values - does it parse, what is reported
        for tpl in 0..boundary::N_TEMPLATES {
            let case = boundary::BoundaryCase { tpl: tpl as u8, a: 1, b: 3, c: 4, ty: 0 };
            let t = boundary::text(&case);
            let p = trust_syntax::parser::parse(&t);
            let mut db = Database::new();
            db.set_source_text(fid(0), t.clone());
            let d = db.diagnostics(fid(0));
            println!("--- tpl {tpl}: parse ok={} errors={:?}", p.ok(), p.errors().iter().map(|e| format!("{e}")).take(3).collect::<Vec<_>>());
            for x in d.iter().filter(|d| d.is_error()).take(6) {
                println!("     {x}");
            }
            if !p.ok() {
                println!("{t}");
            }
        }
        return Some(0);
    }
    if args.first().map(|s| s.as_str()) == Some("c13-boundary-sweep") {
        // development aid: enumerate boundary cases, aggregate failures by message head
        crate::engine::install_quiet_panic_hook();
        let part: usize = args.get(1).and_then(|s| s.parse().ok()).unwrap_or(0);
        let parts: usize = args.get(2).and_then(|s| s.parse().ok()).unwrap_or(1);
        let mut seen: BTreeMap<String, (u64, String)> = BTreeMap::new();
        let mut n = 0u64;
        for tpl in 0..boundary::N_TEMPLATES {
            if tpl % parts != part {
                continue;
            }
            for a in 0..96u32 {
                for k in 0..4u32 {
                    let case = boundary::BoundaryCase {
                        tpl: tpl as u8,
                        a: a as u8,
                        b: ((a * 7 + 3 + k * 29) % 96) as u8,
                        c: ((a * 13 + 5 + k * 41) % 96) as u8,
                        ty: ((a + k * 5 + tpl as u32) % 22) as u8,
                    };
                    n += 1;
                    let mut probe = Probe::default();
                    let res = crate::engine::catch(|| check_boundary(&case, &mut probe)).and_then(|r| r);
                    if let Err(m) = res {
                        let head: String = m.lines().next().unwrap_or("").chars().take(160).collect();
                        let e = seen.entry(head).or_insert((0, boundary::text(&case)));
                        e.0 += 1;
                    }
                }
            }
        }
        println!("{n} cases");
        for (k, (c, ex)) in &seen {
            println!("=== {c} x {k}\n{ex}");
        }
        return Some(0);
    }
    if args.first().map(|s| s.as_str()) != Some("c13-dump") {
        return None;
    }
    use proptest::strategy::ValueTree;
    use proptest::test_runner::{Config, RngSeed, TestRunner};
    let n: usize = args.get(1).and_then(|s| s.parse().ok()).unwrap_or(3);
    let verbose = args.get(2).map(|s| s == "-v").unwrap_or(false);
    let mut runner = TestRunner::new(Config {
        rng_seed: RngSeed::Fixed(7),
        ..Config::default()
    });
    let strat = history_strategy();
    let started = std::time::Instant::now();
    let mut clean = 0;
    let mut total_files = 0;
    for i in 0..n {
        let h = strat.new_tree(&mut runner).unwrap().current();
        for (k, op) in h.ops.iter().enumerate() {
            if let Op::Set { text, .. } = op {
                total_files += 1;
                if trust_syntax::parser::parse(text).ok() {
                    clean += 1;
                }
                if verbose {
                    println!("--- case {i} op {k} {} [{}]\n{text}", describe(op), h.how[k]);
                }
            } else if verbose {
                println!("--- case {i} op {k} {}", describe(op));
            }
        }
        let t0 = std::time::Instant::now();
        let mut probe = Probe::default();
        let res = crate::engine::catch(|| check_history(&h, &mut probe)).and_then(|r| r);
        println!(
            "case {i}: {} ops, {:?}, {} ms, labels {:?}",
            h.ops.len(),
            res,
            t0.elapsed().as_millis(),
            if verbose { probe.labels.clone() } else { Vec::new() }
        );
        if verbose {
            // final state diagnostics, to see what the generator's project looks like
            let st = build_states(&h);
            if let Some(last) = st.states.last() {
                for f in 0..NFILES {
                    if last.texts[f].is_some() {
                        for d in last.db.diagnostics(fid(f)).iter() {
                            println!("   file {} {}", f + 1, d);
                        }
                    }
                }
            }
        }
    }
    println!(
        "{n} cases in {} ms; {clean}/{total_files} set texts parse without errors",
        started.elapsed().as_millis()
    );
    Some(0)
}
