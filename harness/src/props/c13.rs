//! C13 - not built yet.
use crate::engine::{PropertyInfo, RunCtx};

pub fn info() -> PropertyInfo {
    PropertyInfo {
        id: "C13",
        level: "exploration",
        rule: "not built yet",
        assumptions: &[],
        workers_quick: 1,
        workers_thorough: 1,
        address_space_limit: 0,
        watchdog_quick_s: 600,
        watchdog_thorough_s: 3600,
        run,
    }
}

/// Helper subcommands (child processes of this check); None = not mine.
pub fn helper(_args: &[String]) -> Option<i32> {
    None
}

fn run(ctx: &mut RunCtx) {
    ctx.inconclusive("check not built yet");
}
