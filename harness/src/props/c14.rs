//! C14 - the language server keeps the same document text as the editor.
//!
//! Black box over stdio against the real `trust-lsp` binary. The harness plays the editor
//! of a document that is a real file (`unit.st`) in a scratch workspace folder announced
//! at initialize: it keeps its own buffer, picks ranges on character boundaries, expresses
//! them as LSP positions (line, UTF-16 column), applies each change to its buffer and sends
//! it (incremental, multi-change and full-text notifications; columns past the end of a
//! line, which LSP says clamp to the line end). The session also contains what an editor's
//! session contains besides typing: another tool rewrites or deletes the document's file
//! and the client forwards `workspace/didChangeWatchedFiles` (Created / Changed / Deleted,
//! also late echoes), the same for `lib.st`, another file of the workspace that the
//! document references, `didSave`, and `didClose` + re-open (which loads the file's text).
//! For an open document the editor's BUFFER is authoritative; the disk text must never
//! leak into answers. Differential oracle: document A after the session, document B = a
//! fresh directory with the same folder contents (lib.st and unit.st as they are on disk at
//! the end) and one didOpen(final buffer); semanticTokens/full, documentSymbol,
//! foldingRange, formatting and pull diagnostics of A and B must be equal modulo the
//! directory URI (published diagnostics are collected and labelled only: the server writes
//! them independently of responses and may truncate them, see `query`). Absolute oracle
//! (offset -> position direction): every semantic token, symbol range, formatting range and
//! diagnostic position the server reports must denote, in UTF-16 units, the place in the
//! editor's text that the harness computes with its own reference conversion.

pub mod editor;
pub mod lspc;

use std::cell::Cell;

use proptest::prelude::*;
use serde::{Deserialize, Serialize};
use serde_json::{json, Value as J};
use trust_syntax::lexer::lex;

use crate::engine::tape::{tape_strategy, Reader, Tape};
use crate::engine::{Probe, PropertyInfo, RunCtx, Tier};

use lspc::{
    line_content_end, line_starts, offset_to_position, position_to_offset, scrub_uri, settle,
    utf16_len, LspError, Pool, Server, StartOpts,
};

pub fn info() -> PropertyInfo {
    PropertyInfo {
        id: "C14",
        level: "exploration",
        rule: "case = initial text of the file unit.st in a scratch workspace folder (ST snippets with ASCII/Latin-1/CJK/combining/astral characters in comments, strings and stray code, optionally referencing FUNCTION LibF / TYPE LibT of the sibling file lib.st; LF, CRLF, mixed; with/without final newline) + a session of 1-12 steps sent to the real trust-lsp binary: didChange notifications of 1-3 changes (insert/delete/replace on char boundaries expressed in UTF-16 columns, columns past end of line, full-text changes), the file rewritten or deleted by another tool + workspace/didChangeWatchedFiles for it (Created/Changed/Deleted, late echoes), lib.st rewritten (5 variants) or deleted + watcher event, didSave, didClose + re-open; non-trivial = an incremental change whose start lies on a line after a character with len_utf8 != 1, or a watcher event for the open document's file while the file differs from the buffer or is deleted, or a change of lib.st; distinct by SHA-256 of the case",
        assumptions: &[
            "line terminators are LF and CRLF only (no lone CR; VS Code normalises those on load); every generated position is on a character boundary and never between CR and LF; lines beyond the last line are not generated (LSP leaves them undefined)",
            "a column beyond the end of a line denotes the end of the line's content, before CR LF (LSP 3.17 Position: 'defaults back to the line length'; line endings are not part of the line)",
            "only what the server reveals through answers is compared (tokens, symbols, folding ranges, formatting echo, pulled diagnostics); documents A and B live one after the other in the same server process and workspace folder, in directories that are removed (and reported deleted) afterwards (thorough: B also in a second process with its own folder)",
            "identifiers are ASCII (the lexer rejects others); non-ASCII text sits in comments, string literals, pragmas and as stray characters in code",
            "editor model: the buffer of an open document is authoritative whatever happens to its file; every disk change is followed by its watcher event (the server reads the file when it handles the event); re-opening loads the file's text; the workspace's background indexer runs only at server start and the client waits for its end before the first document",
        ],
        workers_quick: 8,
        workers_thorough: 8,
        address_space_limit: 0,
        watchdog_quick_s: 900,
        watchdog_thorough_s: 7200,
        run,
    }
}

/// Helper subcommands (child processes of this check); None = not mine.
pub fn helper(_args: &[String]) -> Option<i32> {
    None
}

// ---- case ------------------------------------------------------------------------------

#[derive(Clone, Debug, Serialize, Deserialize, PartialEq, Eq)]
pub struct Pos {
    pub line: u32,
    pub ch: u32,
}

#[derive(Clone, Debug, Serialize, Deserialize, PartialEq, Eq)]
pub enum Change {
    Full { text: String },
    Edit {
        start: Pos,
        end: Pos,
        text: String,
        /// The deprecated `rangeLength` field, as sent (None = field absent). VS Code sends
        /// the length of the replaced range in UTF-16 code units.
        #[serde(default)]
        range_length: Option<u32>,
    },
}

/// One step of an editor session on the document (file `unit.st` of a workspace folder)
/// and on `lib.st`, another file of the workspace that the document references.
#[derive(Clone, Debug, Serialize, Deserialize, PartialEq, Eq)]
pub enum Op {
    /// didChange with these content changes (applied in order to the evolving text).
    Note(Vec<Change>),
    /// Another tool rewrites the document's file; the client forwards the watcher event
    /// (1 = Created, 2 = Changed). The editor's buffer is not touched.
    DiskWrite { text: String, event: u8 },
    /// The document's file is deleted (watcher event Deleted); the editor keeps its buffer.
    DiskDelete,
    /// A (late / duplicate) watcher event for the document's file without a disk change.
    WatchEcho { event: u8 },
    /// `lib.st` is (re)written with one of the library variants + watcher event.
    LibWrite { variant: u8, event: u8 },
    /// `lib.st` is deleted + watcher event Deleted.
    LibDelete,
    /// The editor saves: buffer written to the file, didSave (with text), optionally
    /// followed by the watcher's Changed echo.
    Save { echo: bool },
    /// The editor closes the document (after saving it, or discarding the buffer) and opens
    /// it again, which loads the file's text.
    CloseReopen { save: bool },
}

#[derive(Clone, Debug, Serialize, Deserialize, PartialEq, Eq)]
pub struct Case {
    /// Text of the document's file when the editor opens it (= first buffer).
    pub s0: String,
    /// Older replay files: a history of didChange notifications only.
    #[serde(default)]
    pub notes: Vec<Vec<Change>>,
    /// The session (when empty, `notes` is the session).
    #[serde(default)]
    pub ops: Vec<Op>,
    /// Variant of `lib.st` present in the workspace when the session starts.
    #[serde(default)]
    pub lib0: Option<u8>,
    /// `languageId` sent with didOpen (None = "structured-text").
    #[serde(default)]
    pub language_id: Option<String>,
    /// Document version of the first didOpen and the steps by which the following
    /// didChange versions grow (cycled; empty = 1, +1, +1, ...). Versions only have to
    /// increase, editors skip numbers.
    #[serde(default)]
    pub versions: Vec<u16>,
    /// What the editor asks after each op (cycled): (mask, r1, r2). Mask bits: 1 = semantic
    /// tokens (full the first time, then full/delta applied to the editor's array), 2 =
    /// verify that array against semanticTokens/full and check semanticTokens/range for the
    /// range derived from r1/r2, 4 = textDocument/diagnostic with previousResultId, 8 =
    /// verify the kept items against a fresh pull, 16 = workspace/diagnostic with
    /// previousResultIds.
    #[serde(default)]
    pub probes: Vec<(u8, u8, u8)>,
}

impl Case {
    pub fn session(&self) -> Vec<Op> {
        if self.ops.is_empty() {
            self.notes.iter().cloned().map(Op::Note).collect()
        } else {
            self.ops.clone()
        }
    }
}

/// Variants of the referenced library file: same names, different declarations, layout
/// and characters, so that what the document's analysis sees depends on which one the
/// server has indexed.
pub fn lib_text(variant: u8) -> String {
    match variant % 5 {
        0 => "FUNCTION LibF : INT\nVAR_INPUT\n  a : INT;\nEND_VAR\nLibF := a;\nEND_FUNCTION\nTYPE LibT : STRUCT\n  f : INT;\nEND_STRUCT\nEND_TYPE\n".into(),
        1 => "(* \u{1F600} v1 *)\nFUNCTION LibF : INT\nVAR_INPUT\n  a : BOOL;\n  b : INT;\nEND_VAR\nLibF := b;\nEND_FUNCTION\nTYPE LibT : STRUCT\n  g : REAL;\nEND_STRUCT\nEND_TYPE\n".into(),
        2 => "TYPE LibT : (LibA, LibB); END_TYPE\n".into(),
        3 => "FUNCTION LibF : BOOL\r\nVAR_INPUT a : INT; END_VAR\r\nLibF := a > 0;\r\nEND_FUNCTION\r\n".into(),
        _ => String::new(),
    }
}

// ---- generator -------------------------------------------------------------------------

const ASTRAL: &[&str] = &["\u{1F600}", "\u{1D4B3}", "\u{20000}", "\u{1F1F8}\u{1F1EA}", "\u{1F469}\u{200D}\u{1F4BB}", "\u{1F9EA}"];
const BMP3: &[&str] = &["\u{4E2D}", "\u{6587}", "\u{65E5}\u{672C}\u{8A9E}", "\u{20AC}", "\u{2028}", "\u{FEFF}", "\u{D55C}"];
const BMP2: &[&str] = &["\u{E9}", "\u{FC}", "\u{DF}", "\u{3A9}", "\u{436}", "\u{D7}", "\u{A0}"];
const COMBINING: &[&str] = &["e\u{301}", "a\u{308}\u{323}", "\u{301}", "n\u{303}"];
const PLAIN: &[&str] = &["a", "note", "x1", " ", "~", "TODO"];

pub fn uni_run(r: &mut Reader) -> String {
    let n = 1 + r.pick(4);
    let mut s = String::new();
    for _ in 0..n {
        let piece = match r.weighted(&[2, 2, 3, 2, 4]) {
            0 => *r.choose(PLAIN),
            1 => *r.choose(BMP2),
            2 => *r.choose(BMP3),
            3 => *r.choose(COMBINING),
            _ => *r.choose(ASTRAL),
        };
        s.push_str(piece);
    }
    s
}

fn lead(r: &mut Reader) -> String {
    match r.weighted(&[3, 4, 1]) {
        0 => String::new(),
        1 => format!("(* {} *) ", uni_run(r)),
        _ => format!("{{{}}} ", uni_run(r)),
    }
}

fn trail(r: &mut Reader) -> String {
    match r.weighted(&[3, 2, 2]) {
        0 => String::new(),
        1 => format!(" // {}", uni_run(r)),
        _ => format!(" (* {} *)", uni_run(r)),
    }
}

fn decl_line(r: &mut Reader, i: usize) -> String {
    match r.pick(6) {
        0 => format!("  x{i} : INT;"),
        1 => format!("  {}y{i} : INT := 1;{}", lead(r), trail(r)),
        2 => format!("  s{i} : STRING := '{}'; {}z{i} : BOOL;", uni_run(r), lead(r)),
        3 => format!("  w{i} : WSTRING := \"{}\";{}", uni_run(r), trail(r)),
        4 => format!("  a{i} : ARRAY[0..3] OF INT;{}", trail(r)),
        _ => format!("  {}b{i} : BOOL; c{i} : REAL := 1.5;{}", lead(r), trail(r)),
    }
}

fn stmt_lines(r: &mut Reader, i: usize, out: &mut Vec<String>) {
    match r.pick(9) {
        0 => out.push(format!("x{i} := x{i} + 1;")),
        1 => out.push(format!("{}x{i} := 2; {}y{i} := x{i};{}", lead(r), lead(r), trail(r))),
        2 => out.push(format!("s{i} := '{}'; x{i} := LEN(s{i});{}", uni_run(r), trail(r))),
        3 => {
            out.push(format!("IF x{i} > 0 THEN{}", trail(r)));
            out.push(format!("  {}y{i} := 1;{}", lead(r), trail(r)));
            out.push("END_IF;".to_string());
        }
        4 => {
            out.push(format!("{}FOR x{i} := 1 TO 3 DO", lead(r)));
            out.push(format!("  y{i} := y{i} + x{i};{}", trail(r)));
            out.push(format!("END_FOR;{}", trail(r)));
        }
        5 => out.push(format!("{} x{i} := 1;", uni_run(r))), // stray characters in code
        6 => {
            out.push(format!("(* {}", uni_run(r)));
            out.push(format!(" {} *) x{i} := 4;{}", uni_run(r), trail(r)));
        }
        7 => out.push(format!("{}b{i} := NOT b{i}; (* {} *) c{i} := c{i} * 2.0;", lead(r), uni_run(r))),
        _ => out.push(format!("w{i} := \"{}\";{}", uni_run(r), trail(r))),
    }
}

fn gen_lines(r: &mut Reader) -> Vec<String> {
    let mut out = Vec::new();
    let pous = 1 + r.pick(2);
    for p in 0..pous {
        match r.weighted(&[4, 2, 2, 2]) {
            0 | 1 => {
                let (kw, end, name) = if r.flag() {
                    ("PROGRAM", "END_PROGRAM", format!("P{p}"))
                } else {
                    ("FUNCTION_BLOCK", "END_FUNCTION_BLOCK", format!("FB{p}"))
                };
                out.push(format!("{}{kw} {name}{}", lead(r), trail(r)));
                out.push(format!("VAR{}", trail(r)));
                for i in 0..1 + r.pick(3) {
                    out.push(decl_line(r, i));
                }
                out.push("END_VAR".to_string());
                for i in 0..1 + r.pick(4) {
                    stmt_lines(r, i, &mut out);
                }
                out.push(format!("{}{end}{}", lead(r), trail(r)));
            }
            2 => {
                out.push(format!("{}FUNCTION F{p} : INT{}", lead(r), trail(r)));
                out.push("VAR_INPUT".to_string());
                out.push(decl_line(r, 0));
                out.push("END_VAR".to_string());
                out.push(format!("{}F{p} := 1;{}", lead(r), trail(r)));
                out.push("END_FUNCTION".to_string());
            }
            _ => {
                if r.flag() {
                    out.push(format!(
                        "TYPE {}E{p} : (A{p}, {}B{p}); END_TYPE{}",
                        lead(r),
                        lead(r),
                        trail(r)
                    ));
                } else {
                    out.push(format!("{}TYPE S{p} :", lead(r)));
                    out.push(format!("STRUCT{}", trail(r)));
                    out.push(format!("  {}f{p} : INT;{}", lead(r), trail(r)));
                    out.push("END_STRUCT".to_string());
                    out.push(format!("END_TYPE{}", trail(r)));
                }
            }
        }
        if r.weighted(&[3, 1]) == 1 {
            out.push(String::new());
        }
    }
    out
}

/// eol_mode: 0 = LF, 1 = CRLF, 2 = mixed.
pub fn gen_text(r: &mut Reader, eol_mode: usize) -> String {
    let lines = gen_lines(r);
    let final_newline = r.chance(2, 3);
    let mut s = String::new();
    let n = lines.len();
    for (i, l) in lines.into_iter().enumerate() {
        s.push_str(&l);
        if i + 1 < n || final_newline {
            let crlf = match eol_mode {
                0 => false,
                1 => true,
                _ => r.flag(),
            };
            s.push_str(if crlf { "\r\n" } else { "\n" });
        }
    }
    s
}

fn first_wide(text: &str, start: usize, end: usize) -> Option<usize> {
    text[start..end]
        .char_indices()
        .find(|(_, c)| c.len_utf8() != 1)
        .map(|(i, c)| start + i + c.len_utf8())
}

/// Character boundaries of the line's content within [from, content end].
fn boundaries(text: &str, from: usize, end: usize) -> Vec<usize> {
    let mut v: Vec<usize> = text[from..end].char_indices().map(|(i, _)| from + i).collect();
    v.push(end);
    v
}

/// Advance `k` characters from `at`; never stop between CR and LF.
fn advance_chars(text: &str, at: usize, k: usize) -> usize {
    let mut off = at;
    for c in text[at..].chars().take(k) {
        off += c.len_utf8();
    }
    let b = text.as_bytes();
    if off > 0 && off < text.len() && b[off - 1] == b'\r' && b[off] == b'\n' {
        off += 1;
    }
    off
}

fn lsp_pos(text: &str, offset: usize, r: &mut Reader) -> Pos {
    let (line, mut ch) = offset_to_position(text, offset);
    // a column beyond the end of the line denotes the end of the line
    let ls = line_starts(text)[line as usize];
    if offset == line_content_end(text, ls) && r.weighted(&[2, 1]) == 1 {
        let extra = *r.choose(&[1u32, 2, 7, 100_000, u32::MAX]);
        ch = ch.saturating_add(extra);
    }
    Pos { line, ch }
}

fn insert_text(r: &mut Reader, eol: &str) -> String {
    match r.weighted(&[5, 4, 3, 2, 2]) {
        0 => uni_run(r),
        1 => r
            .choose(&["x", "1", " ", ";", " := ", "y := 2;", "(* c *)", "abc_1", "'", "(*", "*)", "//", "\t"])
            .to_string(),
        2 => match r.pick(3) {
            0 => eol.to_string(),
            1 => format!("{eol}  "),
            _ => format!("{eol}{eol}"),
        },
        3 => format!("IF x THEN (* {} *){eol}  y := 1;{eol}END_IF;", uni_run(r)),
        _ => match r.pick(3) {
            0 => format!("(* {} *)", uni_run(r)),
            1 => format!("'{}'", uni_run(r)),
            _ => format!("// {}{eol}", uni_run(r)),
        },
    }
}

/// The initial text and the change history are drawn from separate tapes, so that a long
/// text cannot starve the history of choices (an exhausted tape yields only the simplest
/// choice: a one-character ASCII insertion).
/// References to the library file: a declaration before the first END_VAR line and a call
/// after it (both with a comment that may hold wide characters).
fn add_lib_references(text: &str, r: &mut Reader) -> String {
    let mut out = String::new();
    let mut done = false;
    for line in text.split_inclusive('\n') {
        let body = line.trim_end_matches(['\r', '\n']);
        let eol = &line[body.len()..];
        let eol = if eol.is_empty() { "\n" } else { eol };
        if !done && body.trim() == "END_VAR" {
            out.push_str(&format!("  lv : LibT; lw : INT;{}{eol}", trail(r)));
            out.push_str(line);
            if !line.ends_with('\n') {
                out.push_str(eol);
            }
            out.push_str(&format!("{}lw := LibF(a := 1);{}{eol}", lead(r), trail(r)));
            done = true;
        } else {
            out.push_str(line);
        }
    }
    out
}

pub fn case_from_tapes(text_tape: &Tape, tape: &Tape) -> Case {
    let mut tr = Reader::new(text_tape);
    let eol_mode = tr.weighted(&[5, 3, 2]);
    // (drawn before the text, which may use up the tape)
    let lib0 = match tr.weighted(&[5, 2, 2, 1]) {
        0 => Some(0u8),
        1 => None,
        2 => Some(1),
        _ => Some(3),
    };
    let with_refs = tr.weighted(&[3, 1]) == 0;
    let mut s0 = gen_text(&mut tr, eol_mode);
    if with_refs {
        s0 = add_lib_references(&s0, &mut tr);
    }
    let mut r = Reader::new(tape);
    let mut buf = s0.clone();
    let mut disk: Option<String> = Some(s0.clone());
    let n_ops = 1 + r.weighted(&[4, 4, 3, 3, 2, 2, 1, 1, 1, 1, 1, 1]);
    let mut ops = Vec::new();
    for _ in 0..n_ops {
        // (rare alternatives in the middle: tape words are biased towards 0 and u32::MAX)
        let op = match r.weighted(&[8, 3, 2, 1, 1, 1, 1, 1, 2]) {
            1 => {
                let text = match r.weighted(&[3, 2, 2, 1, 1]) {
                    0 => format!("(* regenerated {} *)\n{buf}", uni_run(&mut r)),
                    1 => gen_text(&mut r, eol_mode),
                    2 => buf.split_inclusive('\n').skip(1).collect::<String>(),
                    3 => String::new(),
                    _ => buf.clone(),
                };
                disk = Some(text.clone());
                Op::DiskWrite { text, event: if r.weighted(&[3, 1]) == 1 { 1 } else { 2 } }
            }
            2 => Op::LibWrite { variant: r.pick(5) as u8, event: 1 + r.pick(2) as u8 },
            3 => {
                disk = Some(buf.clone());
                Op::Save { echo: r.flag() }
            }
            4 => {
                disk = None;
                Op::DiskDelete
            }
            5 => {
                let save = disk.is_none() || r.flag();
                if save {
                    disk = Some(buf.clone());
                }
                buf = disk.clone().unwrap_or_default();
                Op::CloseReopen { save }
            }
            6 => Op::LibDelete,
            7 => Op::WatchEcho { event: 1 + r.pick(3) as u8 },
            _ => {
                if r.weighted(&[12, 1, 12]) == 1 {
                    // didChange with an empty contentChanges array: allowed, changes nothing
                    Op::Note(Vec::new())
                } else {
                    Op::Note(gen_note(&mut r, &mut buf, eol_mode))
                }
            }
        };
        ops.push(op);
    }
    let language_id = match r.weighted(&[4, 1, 1, 1, 1, 1]) {
        0 => None,
        1 => Some("st"),
        2 => Some("iec-st"),
        3 => Some("plaintext"),
        4 => Some("ST"),
        _ => Some("structured-text"),
    }
    .map(str::to_string);
    let versions: Vec<u16> = if r.flag() {
        Vec::new()
    } else {
        (0..1 + r.pick(5)).map(|_| *r.choose(&[1u16, 1, 2, 3, 7, 100, 0])).collect()
    };
    // (rare alternatives in the middle)
    let probes: Vec<(u8, u8, u8)> = (0..n_ops)
        .map(|_| {
            let mask = *r.choose(&[0u8, 1, 1 | 2, 4, 31, 16, 1 | 4, 4 | 8, 1 | 2 | 4 | 8, 1, 0, 0]);
            (mask, r.pick(256) as u8, r.pick(256) as u8)
        })
        .collect();
    Case { s0, notes: Vec::new(), ops, lib0, language_id, versions, probes }
}

fn gen_note(r: &mut Reader, buf: &mut String, eol_mode: usize) -> Vec<Change> {
    let mut r = r;
    {
        let n_changes = 1 + r.weighted(&[5, 3, 2]);
        let mut changes = Vec::new();
        for _ in 0..n_changes {
            let main_eol = if eol_mode == 1 { "\r\n" } else { "\n" };
            let eol = if r.weighted(&[7, 1]) == 1 {
                if main_eol == "\n" {
                    "\r\n"
                } else {
                    "\n"
                }
            } else {
                main_eol
            };
            // (rare alternative in the middle: tape words are biased towards 0 and u32::MAX)
            if r.weighted(&[17, 1, 13]) == 1 {
                // full-text change: a fresh text, or the buffer with another line-ending style
                let text = if r.flag() {
                    gen_text(&mut r, eol_mode)
                } else if buf.contains("\r\n") {
                    buf.replace("\r\n", "\n")
                } else {
                    buf.replace('\n', "\r\n")
                };
                *buf = text.clone();
                changes.push(Change::Full { text });
                continue;
            }
            let starts = line_starts(&buf);
            let wide: Vec<(usize, usize, usize)> = starts
                .iter()
                .filter_map(|&ls| {
                    let le = line_content_end(&buf, ls);
                    first_wide(&buf, ls, le).map(|fw| (ls, le, fw))
                })
                .collect();
            let start = if !wide.is_empty() && r.chance(2, 3) {
                let (_, le, fw) = wide[r.pick(wide.len())];
                let b = boundaries(&buf, fw, le);
                b[r.pick(b.len())]
            } else {
                let ls = starts[r.pick(starts.len())];
                let le = line_content_end(&buf, ls);
                let b = boundaries(&buf, ls, le);
                b[r.pick(b.len())]
            };
            let op = r.weighted(&[4, 3, 3]); // insert, delete, replace
            let end = if op == 0 {
                start
            } else {
                match r.weighted(&[5, 2, 2, 1]) {
                    0 => {
                        // a few characters, staying on the line
                        let ls = *starts.iter().rev().find(|&&s| s <= start).unwrap_or(&0);
                        let le = line_content_end(&buf, ls);
                        advance_chars(&buf, start, 1 + r.pick(6)).min(le)
                    }
                    1 => {
                        let ls = *starts.iter().rev().find(|&&s| s <= start).unwrap_or(&0);
                        line_content_end(&buf, ls)
                    }
                    2 => advance_chars(&buf, start, 1 + r.pick(60)),
                    _ => buf.len(),
                }
            };
            let text = if op == 1 { String::new() } else { insert_text(&mut r, eol) };
            let sp = lsp_pos(&buf, start, &mut r);
            // an empty range is sent with start == end (an editor never sends start > end)
            let ep = if end == start { sp.clone() } else { lsp_pos(&buf, end, &mut r) };
            // deprecated `rangeLength`: absent, correct (UTF-16 units of the replaced range, as
            // VS Code sends it) or - robustness class, rare, in the middle of the list - wrong
            let correct = utf16_len(&buf[start..end]) as u32;
            let range_length = match r.weighted(&[3, 5, 1, 3]) {
                0 => None,
                2 => Some(match r.pick(4) {
                    0 => 0,
                    1 => buf[start..end].chars().count() as u32,
                    2 => (end - start) as u32,
                    _ => u32::MAX,
                }),
                _ => Some(correct),
            };
            buf.replace_range(start..end, &text);
            changes.push(Change::Edit { start: sp, end: ep, text, range_length });
        }
        changes
    }
}

// ---- model (the editor) -------------------------------------------------------------------

#[derive(Default)]
struct Facts {
    after_astral: bool,
    after_bmp: bool,
    after_combining: bool,
    ascii_line_edit: bool,
    past_eol: bool,
    past_eol_crlf: bool,
    full: bool,
    multi: bool,
    rl_absent: bool,
    rl_correct: bool,
    /// a correct rangeLength for a replaced range that contains an astral character
    rl_correct_astral: bool,
    /// classes of wrong rangeLength values sent (robustness class)
    rl_wrong: Vec<&'static str>,
    empty_note: bool,
    probes: usize,
    disk_write: bool,
    disk_write_differs: bool,
    disk_delete: bool,
    watch_echo: bool,
    lib_write: bool,
    lib_delete: bool,
    save: bool,
    reopen: bool,
    multiline_edit: bool,
    edits: usize,
}

/// Apply one change to the editor buffer per the LSP rules. None = a position names a
/// line that does not exist (not generated; only possible in a hand-written replay).
fn apply_change(buf: &mut String, ch: &Change, facts: &mut Facts) -> Option<()> {
    match ch {
        Change::Full { text } => {
            *buf = text.clone();
            facts.full = true;
        }
        Change::Edit { start, end, text, range_length } => {
            let s = position_to_offset(buf, start.line, start.ch)?;
            let e = position_to_offset(buf, end.line, end.ch)?;
            if s > e {
                return None;
            }
            facts.edits += 1;
            let replaced = &buf[s..e];
            match range_length {
                None => facts.rl_absent = true,
                Some(n) if *n as usize == utf16_len(replaced) => {
                    facts.rl_correct = true;
                    if replaced.chars().any(|c| c.len_utf16() == 2) {
                        facts.rl_correct_astral = true;
                    }
                }
                Some(0) => facts.rl_wrong.push("zero"),
                Some(n) if *n as usize == replaced.chars().count() => facts.rl_wrong.push("chars"),
                Some(n) if *n as usize == replaced.len() => facts.rl_wrong.push("bytes"),
                Some(_) => facts.rl_wrong.push("huge"),
            }
            let ls = line_starts(buf)[start.line as usize];
            let before = &buf[ls..s];
            if before.chars().any(|c| c.len_utf16() == 2) {
                facts.after_astral = true;
            }
            if before.chars().any(|c| c.len_utf8() > 1 && c.len_utf16() == 1) {
                facts.after_bmp = true;
            }
            if before.chars().any(|c| ('\u{300}'..='\u{36f}').contains(&c)) {
                facts.after_combining = true;
            }
            if before.is_ascii() {
                facts.ascii_line_edit = true;
            }
            for p in [start, end] {
                let (_, real) = offset_to_position(buf, position_to_offset(buf, p.line, p.ch)?);
                if p.ch > real {
                    facts.past_eol = true;
                    let off = position_to_offset(buf, p.line, p.ch)?;
                    if buf[off..].starts_with("\r\n") {
                        facts.past_eol_crlf = true;
                    }
                }
            }
            if start.line != end.line || text.contains('\n') {
                facts.multiline_edit = true;
            }
            buf.replace_range(s..e, text);
        }
    }
    Some(())
}

fn change_json(ch: &Change) -> J {
    match ch {
        Change::Full { text } => json!({"text": text}),
        Change::Edit { start, end, text, range_length } => {
            let mut v = json!({
                "range": {
                    "start": {"line": start.line, "character": start.ch},
                    "end": {"line": end.line, "character": end.ch},
                },
                "text": text,
            });
            if let Some(n) = range_length {
                v["rangeLength"] = json!(n);
            }
            v
        }
    }
}

// ---- talking to the server ------------------------------------------------------------------

#[derive(Debug)]
struct Answers {
    tokens: J,
    symbols: J,
    folding: J,
    formatting: J,
    diag_pull: J,
    diag_push: J,
    code_lens: J,
    links: J,
    inlay: J,
    /// first failure of a stateful channel (tokens delta/range, diagnostics with previous
    /// result ids, workspace diagnostics)
    editor_failure: Option<String>,
    range_origin_relative: bool,
    editor_labels: Vec<String>,
    /// push oracle: "match", "nothing", "unjudged" or "mismatch"
    push: &'static str,
}

fn strip_result_id(v: &J) -> J {
    match v {
        J::Object(o) => {
            let mut m = o.clone();
            m.remove("resultId");
            J::Object(m)
        }
        other => other.clone(),
    }
}

/// Push oracle settings of a worker (see `editor::judge_push`).
struct PushCfg {
    quiet: std::time::Duration,
    max: std::time::Duration,
    /// mismatches seen so far in this worker; judging stops at `budget` (every mismatch is
    /// reported; shrinking a failing case otherwise waits `quiet` for each candidate)
    mismatches: Cell<u32>,
    budget: u32,
}

fn query(s: &mut Server, uri: &str, dir_uri: &str, text: &str, ed: &mut editor::EditorState, push: &PushCfg) -> Result<Answers, LspError> {
    // the editor brings its own state up to date first (delta / previousResultId), then the
    // fresh answers are fetched and the two compared
    if ed.tokens.is_some() {
        ed.tokens_incremental(s, uri)?;
    }
    let tokens = ed.tokens_verify(s, uri, "at the end of the session")?;
    let lines = line_starts(text).len() as u32;
    ed.tokens_range(s, uri, text, &tokens, ((lines / 3, 0), (lines.saturating_sub(1), 100_000)))?;
    let symbols = s.doc_request("textDocument/documentSymbol", uri)?;
    let folding = s.doc_request("textDocument/foldingRange", uri)?;
    let formatting = s.request(
        "textDocument/formatting",
        json!({"textDocument": {"uri": uri}, "options": {"tabSize": 4, "insertSpaces": true}}),
    )?;
    if ed.diagnostics.is_some() {
        ed.diagnostics_incremental(s, uri)?;
    }
    let diag_pull = ed.diagnostics_verify(s, uri, "at the end of the session")?;
    let code_lens = s.doc_request("textDocument/codeLens", uri)?;
    let links = s.doc_request("textDocument/documentLink", uri)?;
    let inlay = s.request(
        "textDocument/inlayHint",
        json!({"textDocument": {"uri": uri}, "range": {"start": {"line": 0, "character": 0}, "end": {"line": lines, "character": 0}}}),
    )?;
    // Push channel. All notifications of the session were processed before the requests
    // above were answered, so the server's state is final (see `editor::judge_push`).
    let pulled_items = diag_pull.get("items").cloned().unwrap_or(J::Null);
    let push_outcome = if push.mismatches.get() >= push.budget {
        "unjudged"
    } else {
        match editor::judge_push(s, uri, &pulled_items, push.quiet, push.max)? {
            editor::Push::Match => "match",
            editor::Push::Nothing => "nothing",
            editor::Push::Mismatch(_) => {
                push.mismatches.set(push.mismatches.get() + 1);
                "mismatch"
            }
        }
    };
    let diag_push = s
        .published
        .get(uri)
        .and_then(|(_, p)| p.get("diagnostics").cloned())
        .unwrap_or(J::Null);
    // "equal modulo URI": the directory part is replaced, so that references to the
    // sibling file lib.st compare equal too
    Ok(Answers {
        tokens: scrub_uri(&tokens.get("data").cloned().unwrap_or(tokens.clone()), dir_uri),
        symbols: scrub_uri(&symbols, dir_uri),
        folding: scrub_uri(&folding, dir_uri),
        formatting: scrub_uri(&formatting, dir_uri),
        diag_pull: scrub_uri(&strip_result_id(&diag_pull), dir_uri),
        diag_push: scrub_uri(&diag_push, dir_uri),
        code_lens: scrub_uri(&code_lens, dir_uri),
        links: scrub_uri(&links, dir_uri),
        inlay: scrub_uri(&inlay, dir_uri),
        editor_failure: ed.failure.take(),
        range_origin_relative: ed.range_origin_relative,
        editor_labels: std::mem::take(&mut ed.labels),
        push: push_outcome,
    })
}

/// What the client does, step by step (derived from the session by `simulate`).
#[derive(Debug)]
enum Step {
    Change(J),
    WriteMain(String),
    RemoveMain,
    WriteLib(String),
    RemoveLib,
    /// watcher events: (true = the document's file, false = lib.st; type)
    Watch(Vec<(bool, u8)>),
    DidSave(String),
    Close,
    Open(String),
    /// what the editor asks at this point: mask, range for semanticTokens/range, the
    /// editor's buffer at this point, and a description for messages
    Probe { mask: u8, range: ((u32, u32), (u32, u32)), buffer: String, when: String },
}

/// Range for a `semanticTokens/range` probe, derived from two bytes and the buffer.
fn probe_range(buf: &str, r1: u8, r2: u8) -> ((u32, u32), (u32, u32)) {
    let lines = line_starts(buf).len() as u32;
    let l1 = (r1 as u32 * lines) / 256;
    let l2 = l1 + (r2 as u32 % 8);
    let c1 = if r2 & 0x80 != 0 { r1 as u32 % 20 } else { 0 };
    let c2 = if r2 & 0x40 != 0 { 100_000 } else { 0 };
    ((l1, c1), (l2.min(lines.saturating_sub(1)), if l2 >= lines { 100_000 } else { c2 }))
}

/// The editor's view at the end of the session.
struct Outcome {
    steps: Vec<Step>,
    /// the editor's buffer (authoritative for the open document)
    buffer: String,
    /// the document's file on disk (None = deleted)
    disk: Option<String>,
    /// lib.st on disk
    lib: Option<String>,
    facts: Facts,
}

/// Play the session on the editor's side. None = a position names a line that does not
/// exist (only possible in a hand-written replay).
fn simulate(case: &Case) -> Option<Outcome> {
    let mut buf = case.s0.clone();
    let mut disk = Some(case.s0.clone());
    let mut lib = case.lib0.map(lib_text);
    let mut facts = Facts::default();
    let mut steps = Vec::new();
    for (op_index, op) in case.session().into_iter().enumerate() {
        let op_name = format!("{op:?}");
        match op {
            Op::Note(changes) => {
                if changes.len() > 1 {
                    facts.multi = true;
                }
                if changes.is_empty() {
                    facts.empty_note = true;
                }
                for ch in &changes {
                    apply_change(&mut buf, ch, &mut facts)?;
                }
                steps.push(Step::Change(J::Array(changes.iter().map(change_json).collect())));
            }
            Op::DiskWrite { text, event } => {
                facts.disk_write = true;
                if text != buf {
                    facts.disk_write_differs = true;
                }
                disk = Some(text.clone());
                steps.push(Step::WriteMain(text));
                steps.push(Step::Watch(vec![(true, if event == 1 { 1 } else { 2 })]));
            }
            Op::DiskDelete => {
                facts.disk_delete = true;
                disk = None;
                steps.push(Step::RemoveMain);
                steps.push(Step::Watch(vec![(true, 3)]));
            }
            Op::WatchEcho { event } => {
                facts.watch_echo = true;
                // a Deleted echo is only sent for a file that is really gone
                let event = if event == 3 && disk.is_some() { 2 } else { event.clamp(1, 3) };
                steps.push(Step::Watch(vec![(true, event)]));
            }
            Op::LibWrite { variant, event } => {
                facts.lib_write = true;
                let text = lib_text(variant);
                lib = Some(text.clone());
                steps.push(Step::WriteLib(text));
                steps.push(Step::Watch(vec![(false, if event == 1 { 1 } else { 2 })]));
            }
            Op::LibDelete => {
                facts.lib_delete = true;
                lib = None;
                steps.push(Step::RemoveLib);
                steps.push(Step::Watch(vec![(false, 3)]));
            }
            Op::Save { echo } => {
                facts.save = true;
                disk = Some(buf.clone());
                steps.push(Step::WriteMain(buf.clone()));
                steps.push(Step::DidSave(buf.clone()));
                if echo {
                    steps.push(Step::Watch(vec![(true, 2)]));
                }
            }
            Op::CloseReopen { save } => {
                facts.reopen = true;
                let save = save || disk.is_none();
                if save {
                    disk = Some(buf.clone());
                    steps.push(Step::WriteMain(buf.clone()));
                    steps.push(Step::DidSave(buf.clone()));
                }
                steps.push(Step::Close);
                buf = disk.clone().unwrap_or_default();
                steps.push(Step::Open(buf.clone()));
            }
        }
        if !case.probes.is_empty() {
            let (mask, r1, r2) = case.probes[op_index % case.probes.len()];
            if mask != 0 {
                facts.probes += 1;
                steps.push(Step::Probe {
                    mask,
                    range: probe_range(&buf, r1, r2),
                    buffer: buf.clone(),
                    when: format!("after op {op_index}: {}", clip(&op_name, 60)),
                });
            }
        }
    }
    Some(Outcome { steps, buffer: buf, disk, lib, facts })
}

/// Directory of one document inside the server's workspace folder.
struct Place {
    dir: std::path::PathBuf,
    dir_uri: String,
    uri: String,
    lib_uri: String,
}

impl Place {
    fn new(ws: &std::path::Path, name: &str) -> Place {
        let dir = ws.join(name);
        let dir_uri = format!("file://{}", dir.display());
        Place { uri: format!("{dir_uri}/unit.st"), lib_uri: format!("{dir_uri}/lib.st"), dir_uri, dir }
    }
    fn main_path(&self) -> std::path::PathBuf {
        self.dir.join("unit.st")
    }
    fn lib_path(&self) -> std::path::PathBuf {
        self.dir.join("lib.st")
    }
}

fn io<T>(r: std::io::Result<T>, what: &str) -> Result<T, LspError> {
    r.map_err(|e| LspError::Infra(format!("scratch workspace: {what}: {e}")))
}

/// Close the document, delete the directory and tell the server both files are gone, so
/// that nothing of this document stays in the project.
fn teardown(s: &mut Server, p: &Place) -> Result<(), LspError> {
    s.notify("textDocument/didClose", json!({"textDocument": {"uri": p.uri}}))?;
    let _ = std::fs::remove_dir_all(&p.dir);
    s.watched(&[(&p.uri, 3), (&p.lib_uri, 3)])?;
    s.barrier()
}

fn run_a(s: &mut Server, p: &Place, case: &Case, out: &Outcome, push: &PushCfg) -> Result<Answers, LspError> {
    let mut ed = editor::EditorState::default();
    io(std::fs::create_dir_all(&p.dir), "create directory")?;
    if let Some(v) = case.lib0 {
        io(std::fs::write(p.lib_path(), lib_text(v)), "write lib.st")?;
        s.watched(&[(&p.lib_uri, 1)])?;
    }
    io(std::fs::write(p.main_path(), &case.s0), "write unit.st")?;
    let lang = case.language_id.as_deref().unwrap_or("structured-text");
    let open = |s: &mut Server, version: i64, text: &str| {
        s.notify(
            "textDocument/didOpen",
            json!({"textDocument": {"uri": p.uri, "languageId": lang, "version": version, "text": text}}),
        )
    };
    // versions: start value and steps from the case (monotone; a step of 0 is sent as 1)
    let mut steps_v = case.versions.iter().map(|v| *v as i64);
    let mut version = steps_v.next().unwrap_or(1);
    let mut k = 0usize;
    let mut next_step = move || -> i64 {
        if case.versions.len() < 2 {
            return 1;
        }
        let v = case.versions[1 + k % (case.versions.len() - 1)] as i64;
        k += 1;
        v.max(1)
    };
    let _ = &mut steps_v;
    open(s, version, &case.s0)?;
    for step in &out.steps {
        match step {
            Step::Change(changes) => {
                version += next_step();
                s.did_change(&p.uri, version, changes.clone())?;
            }
            Step::WriteMain(t) => io(std::fs::write(p.main_path(), t), "write unit.st")?,
            Step::RemoveMain => {
                let _ = std::fs::remove_file(p.main_path());
            }
            Step::WriteLib(t) => io(std::fs::write(p.lib_path(), t), "write lib.st")?,
            Step::RemoveLib => {
                let _ = std::fs::remove_file(p.lib_path());
            }
            Step::Watch(events) => {
                let ev: Vec<(&str, u8)> = events
                    .iter()
                    .map(|(main, t)| (if *main { p.uri.as_str() } else { p.lib_uri.as_str() }, *t))
                    .collect();
                s.watched(&ev)?;
            }
            Step::DidSave(t) => {
                s.notify("textDocument/didSave", json!({"textDocument": {"uri": p.uri}, "text": t}))?;
            }
            Step::Close => {
                s.notify("textDocument/didClose", json!({"textDocument": {"uri": p.uri}}))?;
            }
            Step::Open(t) => {
                version += next_step();
                open(s, version, t)?;
            }
            Step::Probe { mask, range, buffer, when } => {
                if mask & 1 != 0 {
                    ed.tokens_incremental(s, &p.uri)?;
                }
                if mask & 2 != 0 {
                    let full = ed.tokens_verify(s, &p.uri, when)?;
                    ed.tokens_range(s, &p.uri, buffer, &full, *range)?;
                }
                if mask & 4 != 0 {
                    ed.diagnostics_incremental(s, &p.uri)?;
                }
                if mask & 8 != 0 {
                    ed.diagnostics_verify(s, &p.uri, when)?;
                }
                if mask & 16 != 0 {
                    ed.workspace_diagnostics(s, &p.uri, when)?;
                }
            }
        }
    }
    let a = query(s, &p.uri, &p.dir_uri, &out.buffer, &mut ed, push);
    teardown(s, p)?;
    a
}

/// The fresh document: same folder contents (lib.st and the document's file as they are
/// on disk at the end of the session), one didOpen with the editor's buffer.
fn run_b(s: &mut Server, p: &Place, out: &Outcome, push: &PushCfg) -> Result<Answers, LspError> {
    let mut ed = editor::EditorState::default();
    io(std::fs::create_dir_all(&p.dir), "create directory")?;
    if let Some(lib) = &out.lib {
        io(std::fs::write(p.lib_path(), lib), "write lib.st")?;
        s.watched(&[(&p.lib_uri, 1)])?;
    }
    if let Some(disk) = &out.disk {
        io(std::fs::write(p.main_path(), disk), "write unit.st")?;
    }
    s.did_open(&p.uri, 1, &out.buffer)?;
    let a = query(s, &p.uri, &p.dir_uri, &out.buffer, &mut ed, push);
    teardown(s, p)?;
    a
}

pub fn clip(s: &str, n: usize) -> String {
    if s.len() <= n {
        return s.to_string();
    }
    let mut end = n;
    while !s.is_char_boundary(end) {
        end -= 1;
    }
    format!("{}...[{} bytes]", &s[..end], s.len())
}

fn first_diff(a: &J, b: &J) -> String {
    match (a, b) {
        (J::Array(x), J::Array(y)) => {
            for (i, (p, q)) in x.iter().zip(y.iter()).enumerate() {
                if p != q {
                    return format!("[{i}] {}", first_diff(p, q));
                }
            }
            format!("lengths {} vs {}", x.len(), y.len())
        }
        (J::Object(x), J::Object(y)) => {
            for (k, p) in x {
                match y.get(k) {
                    Some(q) if p == q => {}
                    Some(q) => return format!(".{k} {}", first_diff(p, q)),
                    None => return format!(".{k} missing on the right"),
                }
            }
            "right side has extra keys".to_string()
        }
        (J::String(x), J::String(y)) => {
            let at = x.bytes().zip(y.bytes()).position(|(p, q)| p != q).unwrap_or(x.len().min(y.len()));
            let lo = {
                let mut i = at.saturating_sub(20);
                while !x.is_char_boundary(i) {
                    i -= 1;
                }
                i
            };
            format!(
                "strings differ at byte {at}: {:?} vs {:?}",
                clip(&x[lo..], 60),
                clip(y.get(lo..).unwrap_or(""), 60)
            )
        }
        _ => format!("{} vs {}", clip(&a.to_string(), 120), clip(&b.to_string(), 120)),
    }
}

// ---- absolute oracle: offset -> position -------------------------------------------------

/// `Some(offset)` when (line, ch) is an exact position of `text` (exists, on a character
/// boundary, not beyond the line's content).
pub fn exact_offset(text: &str, line: u64, ch: u64) -> Option<usize> {
    let (line, ch) = (u32::try_from(line).ok()?, u32::try_from(ch).ok()?);
    let off = position_to_offset(text, line, ch)?;
    (offset_to_position(text, off) == (line, ch)).then_some(off)
}

pub fn pos_of(v: &J) -> Option<(u64, u64)> {
    Some((v.get("line")?.as_u64()?, v.get("character")?.as_u64()?))
}

fn check_absolute(text: &str, ans: &Answers, probe: &mut Probe) -> Result<(), String> {
    let toks: Vec<(usize, usize)> = lex(text)
        .into_iter()
        .map(|t| (usize::from(t.range.start()), usize::from(t.range.end())))
        .collect();
    // semantic tokens
    if let Some(data) = ans.tokens.as_array() {
        if data.len() % 5 != 0 {
            return Err(format!("semanticTokens data length {} is not a multiple of 5", data.len()));
        }
        let (mut line, mut col) = (0u64, 0u64);
        let mut wide_seen = false;
        for (i, t) in data.chunks(5).enumerate() {
            let n: Vec<u64> = t.iter().map(|x| x.as_u64().unwrap_or(u64::MAX)).collect();
            if n[0] > 0 {
                line += n[0];
                col = n[1];
            } else {
                col += n[1];
            }
            let Some(off) = exact_offset(text, line, col) else {
                return Err(format!(
                    "semantic token {i} is reported at line {line} character {col}, which is not a position of the editor's text (line content: {:?})",
                    line_of(text, line)
                ));
            };
            let Ok(ix) = toks.binary_search_by_key(&off, |t| t.0) else {
                return Err(format!(
                    "semantic token {i} at line {line} character {col} (UTF-16) does not start at a token of the editor's text (line content: {:?})",
                    line_of(text, line)
                ));
            };
            let tok_text = &text[toks[ix].0..toks[ix].1];
            if !tok_text.contains('\n') {
                let want = utf16_len(tok_text) as u64;
                if !tok_text.is_ascii() {
                    wide_seen = true;
                }
                if n[2] != want {
                    return Err(format!(
                        "semantic token {i} at line {line} character {col} covers {:?} = {want} UTF-16 units, but its reported length is {}",
                        clip(tok_text, 60),
                        n[2]
                    ));
                }
            }
        }
        if wide_seen {
            probe.label("abs:token-with-non-ascii-text");
        }
    }
    // document symbols (flat SymbolInformation): the range denotes the name in the editor's text
    if let Some(syms) = ans.symbols.as_array() {
        for s in syms {
            let name = s.get("name").and_then(J::as_str).unwrap_or("");
            let head = name.split(" (").next().unwrap_or(name);
            let range = s.pointer("/location/range").or_else(|| s.get("selectionRange"));
            let Some(range) = range else { continue };
            let (Some(st), Some(en)) = (range.get("start").and_then(pos_of), range.get("end").and_then(pos_of)) else {
                continue;
            };
            let so = exact_offset(text, st.0, st.1);
            let eo = exact_offset(text, en.0, en.1);
            let found = match (so, eo) {
                (Some(a), Some(b)) if a <= b => Some(&text[a..b]),
                _ => None,
            };
            match found {
                Some(t) if t.eq_ignore_ascii_case(head) => {
                    let ls = line_starts(text)[st.0 as usize];
                    if !text[ls..so.unwrap()].is_ascii() {
                        probe.label("abs:symbol-after-non-ascii");
                    }
                }
                other => {
                    return Err(format!(
                        "symbol {name:?} is reported at {}:{}-{}:{} (UTF-16), where the editor's text has {:?} (line content: {:?})",
                        st.0, st.1, en.0, en.1, other, line_of(text, st.0)
                    ));
                }
            }
        }
    }
    // formatting: one whole-document edit
    if let Some(edits) = ans.formatting.as_array() {
        if let Some(e) = edits.first() {
            let st = e.pointer("/range/start").and_then(pos_of);
            let en = e.pointer("/range/end").and_then(pos_of);
            let (el, ec) = offset_to_position(text, text.len());
            if st != Some((0, 0)) || en != Some((el as u64, ec as u64)) {
                return Err(format!(
                    "formatting edit covers {st:?}..{en:?}, the editor's document is (0,0)..({el},{ec})"
                ));
            }
        }
    }
    // diagnostics: positions exist in the editor's text (lenient about the column after CR)
    for (what, d) in [("pull", ans.diag_pull.get("items")), ("published", Some(&ans.diag_push))] {
        let Some(items) = d.and_then(J::as_array) else { continue };
        for item in items {
            for end in ["start", "end"] {
                let Some((l, c)) = item.pointer(&format!("/range/{end}")).and_then(pos_of) else {
                    continue;
                };
                let starts = line_starts(text);
                let ok = (l as usize) < starts.len() && {
                    let ls = starts[l as usize];
                    let le = line_content_end(text, ls);
                    let len = utf16_len(&text[ls..le]) as u64;
                    let crlf = text[le..].starts_with("\r\n");
                    exact_offset(text, l, c).is_some() || (crlf && c == len + 1)
                };
                if !ok {
                    return Err(format!(
                        "{what} diagnostic {:?} has its range {end} at line {l} character {c}, which is not a position of the editor's text (line content: {:?})",
                        item.get("message").and_then(J::as_str).unwrap_or(""),
                        line_of(text, l)
                    ));
                }
            }
        }
    }
    Ok(())
}

fn line_of(text: &str, line: u64) -> String {
    let starts = line_starts(text);
    match starts.get(line as usize) {
        Some(&ls) => clip(&text[ls..line_content_end(text, ls)], 100),
        None => format!("<no line {line}; the text has {} lines>", starts.len()),
    }
}

// ---- the property ----------------------------------------------------------------------------

struct Env {
    pool: Pool,
    /// second server process for document B (thorough tier)
    pool_b: Option<Pool>,
    #[allow(dead_code)]
    worker: usize,
    counter: Cell<u64>,
    push: PushCfg,
    /// judge the push channel (false: label only)
    judge_push: bool,
    range_origin_open: bool,
}

fn check_case(case: &Case, probe: &mut Probe, env: &Env) -> Result<(), String> {
    // the editor's side
    let Some(out) = simulate(case) else {
        probe.label("skipped:position-on-missing-line");
        return Ok(());
    };
    let facts = &out.facts;
    let buf = out.buffer.clone();
    let session = case.session();
    let lone_cr = |t: &str| t.replace("\r\n", "").contains('\r');
    if lone_cr(&case.s0) || lone_cr(&buf) {
        probe.label("skipped:lone-cr");
        return Ok(());
    }
    let eol = match (case.s0.contains("\r\n"), case.s0.replace("\r\n", "").contains('\n')) {
        (true, true) => "eol=mixed",
        (true, false) => "eol=crlf",
        _ => "eol=lf",
    };
    probe.label(eol);
    for (flag, name) in [
        (facts.after_astral, "edit:after-astral"),
        (facts.after_bmp, "edit:after-bmp-nonascii"),
        (facts.after_combining, "edit:after-combining"),
        (facts.ascii_line_edit, "edit:on-ascii-prefix"),
        (facts.past_eol, "pos:past-eol"),
        (facts.past_eol_crlf, "pos:past-eol-crlf"),
        (facts.full, "change:full"),
        (facts.multi, "note:multi-change"),
        (facts.multiline_edit, "edit:multi-line"),
        (facts.rl_absent, "rangeLength:absent"),
        (facts.rl_correct, "rangeLength:correct(utf16)"),
        (facts.rl_correct_astral, "rangeLength:correct-over-astral-range"),
        (!facts.rl_wrong.is_empty(), "rangeLength:wrong(robustness-class)"),
        (facts.empty_note, "note:empty-contentChanges"),
        (case.language_id.is_some(), "languageId:variant"),
        (case.versions.len() > 1, "versions:with-gaps"),
        (facts.disk_write, "op:disk-write+watch"),
        (facts.disk_write_differs, "op:disk-write-differs-from-buffer"),
        (facts.disk_delete, "op:disk-delete+watch"),
        (facts.watch_echo, "op:watch-echo"),
        (facts.lib_write, "op:lib-write+watch"),
        (facts.lib_delete, "op:lib-delete+watch"),
        (facts.save, "op:save"),
        (facts.reopen, "op:close-reopen"),
        (out.disk.as_deref() != Some(buf.as_str()), "end:disk-differs-from-buffer"),
        (out.disk.is_none(), "end:file-deleted"),
        (out.lib.is_some(), "end:lib-present"),
        (case.s0.contains("LibF"), "text:references-lib"),
    ] {
        if flag {
            probe.label(name);
        }
    }
    probe.label(format!("ops={}", match session.len() {
        0 => "0",
        1 => "1",
        2..=4 => "2-4",
        _ => "5-12",
    }));

    // A failure of a session that contains a wrong rangeLength names that class.
    let class_note = if facts.rl_wrong.is_empty() {
        String::new()
    } else {
        let mut kinds = facts.rl_wrong.clone();
        kinds.sort();
        kinds.dedup();
        for k in &kinds {
            probe.label(format!("rangeLength:wrong={k}"));
        }
        format!(
            "[robustness class: the session contains a change whose deprecated rangeLength is wrong ({}); LSP 3.17: rangeLength is deprecated, the range is authoritative] ",
            kinds.join(", ")
        )
    };
    let k = env.counter.get();
    env.counter.set(k + 1);
    let Some(ws_a) = env.pool.workspace_dir() else {
        probe.label("skipped:infrastructure");
        return Ok(());
    };
    let place_a = Place::new(&ws_a, &format!("k{k}a"));

    let res_a = env.pool.with(|s| run_a(s, &place_a, case, &out, &env.push));
    // whatever happened: nothing of this case may be left for the indexer of a restarted server
    let _ = std::fs::remove_dir_all(&place_a.dir);
    let Some(a) = settle(res_a).map_err(|m| format!("{class_note}{m}"))? else {
        probe.label("skipped:infrastructure");
        return Ok(());
    };
    let b_pool = match &env.pool_b {
        Some(p) if k % 2 == 1 => {
            probe.label("b=second-process");
            p
        }
        _ => &env.pool,
    };
    let place_b = Place::new(&b_pool.workspace_dir().unwrap_or(ws_a), &format!("k{k}b"));
    let res_b = b_pool.with(|s| run_b(s, &place_b, &out, &env.push));
    let _ = std::fs::remove_dir_all(&place_b.dir);
    let Some(b) = settle(res_b)? else {
        probe.label("skipped:infrastructure");
        return Ok(());
    };

    if facts.after_astral
        || facts.after_bmp
        || facts.after_combining
        || facts.disk_write_differs
        || facts.disk_delete
        || facts.lib_write
        || facts.lib_delete
    {
        let key = serde_json::to_vec(case).unwrap_or_default();
        probe.nontrivial(&key);
        probe.sample(json!({
            "s0": clip(&case.s0, 160),
            "ops": session.iter().map(|o| clip(&format!("{o:?}"), 80)).collect::<Vec<_>>(),
            "final_buffer": clip(&buf, 160),
        }));
    }
    for (who, ans) in [("a", &a), ("b", &b)] {
        probe.label(format!("push({who}):{}", ans.push));
        for l in &ans.editor_labels {
            probe.label(format!("editor({who}):{l}"));
        }
    }
    if facts.probes > 0 {
        probe.label("session:with-editor-probes");
    }
    // stateful channels: the editor's reconstructed state against the fresh answers
    for (who, ans) in [("edited document", &a), ("freshly opened document", &b)] {
        if let Some(msg) = &ans.editor_failure {
            return Err(format!("{class_note}{who}: {msg}\n  editor buffer: {:?}", clip(&buf, 300)));
        }
        if ans.range_origin_relative {
            if env.range_origin_open {
                probe.known(editor::RANGE_ORIGIN_KEY);
            } else {
                return Err(format!(
                    "{who}: semanticTokens/range encodes its first token relative to the start of the requested range instead of line 0, column 0"
                ));
            }
        }
    }

    for (what, x, y) in [
        ("textDocument/formatting", &a.formatting, &b.formatting),
        ("textDocument/semanticTokens/full", &a.tokens, &b.tokens),
        ("textDocument/documentSymbol", &a.symbols, &b.symbols),
        ("textDocument/foldingRange", &a.folding, &b.folding),
        ("textDocument/diagnostic", &a.diag_pull, &b.diag_pull),
        ("textDocument/codeLens", &a.code_lens, &b.code_lens),
        ("textDocument/documentLink", &a.links, &b.links),
        ("textDocument/inlayHint", &a.inlay, &b.inlay),
    ] {
        if x != y {
            return Err(format!(
                "{class_note}server text diverged from the editor's: {what} of the document after the session differs from the same request on a freshly opened copy of the editor's buffer (same folder contents): {}\n  editor buffer: {:?}\n  file on disk: {:?}",
                first_diff(x, y),
                clip(&buf, 300),
                out.disk.as_deref().map(|d| clip(d, 120))
            ));
        }
        if x.get("$error").is_some() {
            probe.label(format!("rpc-error:{what}"));
        }
    }
    check_absolute(&buf, &b, probe)?;
    // push channel: the last publishDiagnostics after the server went quiet must equal the
    // pulled diagnostics (which were just found equal for A and B)
    if env.judge_push {
        for (who, ans) in [("edited document", &a), ("freshly opened document", &b)] {
            if ans.push == "mismatch" {
                return Err(format!(
                    "{class_note}{who}: the last textDocument/publishDiagnostics after the server went quiet differs from textDocument/diagnostic for the same text (the editor shows diagnostics of another text): {}\n  editor buffer: {:?}",
                    first_diff(&ans.diag_push, &ans.diag_pull.get("items").cloned().unwrap_or(J::Null)),
                    clip(&buf, 300)
                ));
            }
        }
    }
    Ok(())
}

fn run(ctx: &mut RunCtx) {
    let tier = ctx.tier;
    let tag = format!("c14-w{}", ctx.worker);
    let env = Env {
        pool: Pool::new(StartOpts::plain(&tag)),
        pool_b: (tier == Tier::Thorough).then(|| Pool::new(StartOpts::plain(&format!("{tag}-b")))),
        worker: ctx.worker,
        counter: Cell::new(0),
        push: PushCfg {
            quiet: std::time::Duration::from_millis(
                std::env::var("TPV_C14_PUSH_QUIET_MS").ok().and_then(|v| v.parse().ok()).unwrap_or(4000),
            ),
            max: std::time::Duration::from_secs(120),
            mismatches: Cell::new(0),
            budget: 25,
        },
        judge_push: std::env::var("TPV_C14_PUSH").map(|v| v != "label").unwrap_or(true),
        range_origin_open: ctx.is_open(editor::RANGE_ORIGIN_KEY),
    };
    if !lspc::lsp_bin().is_file() {
        ctx.inconclusive(format!(
            "trust-lsp binary not found at {} (build it: cd /repo && CARGO_TARGET_DIR=/verif/harness/target-repo cargo build --offline -p trust-lsp --bin trust-lsp)",
            lspc::lsp_bin().display()
        ));
        return;
    }

    ctx.search(
        "history",
        (tape_strategy(260), tape_strategy(700)).prop_map(|(t, h)| case_from_tapes(&t, &h)),
        tier.pick(2_000, 60_000),
        |case: &Case, probe| check_case(case, probe, &env),
    );

    for p in [Some(&env.pool), env.pool_b.as_ref()].into_iter().flatten() {
        if let Some(why) = p.infra() {
            ctx.inconclusive(format!("LSP infrastructure failure, remaining cases skipped: {why}"));
        }
        p.shutdown();
    }
    ctx.note(format!(
        "server processes started by worker {}: {}",
        ctx.worker,
        env.pool.starts.get() + env.pool_b.as_ref().map(|p| p.starts.get()).unwrap_or(0)
    ));
}
