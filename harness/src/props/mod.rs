//! One module per property. `registry()` lists what `tpv check` knows.
use crate::engine::PropertyInfo;

pub mod c12;

pub fn registry() -> Vec<PropertyInfo> {
    vec![c12::info()]
}

/// Helper subcommands used by individual properties (child processes). Returns
/// Some(exit code) when `args[0]` named one.
pub fn helper_subcommand(_args: &[String]) -> Option<i32> {
    None
}
