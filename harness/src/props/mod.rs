//! One module per property. `registry()` lists what `tpv check` knows.
use crate::engine::PropertyInfo;

pub mod c01;
pub mod c02;
pub mod c03;
pub mod c04;
pub mod c05;
pub mod c06;
pub mod c07;
pub mod c08;
pub mod c09;
pub mod c10;
pub mod c11;
pub mod c12;
pub mod c13;
pub mod c14;
pub mod c15;
pub mod c16;
pub mod c17;
pub mod c18;
pub mod c19;
pub mod c20;

pub fn registry() -> Vec<PropertyInfo> {
    vec![c01::info(), c02::info(), c03::info(), c04::info(), c05::info(), c06::info(), c07::info(), c08::info(), c09::info(), c10::info(), c11::info(), c12::info(), c13::info(), c14::info(), c15::info(), c16::info(), c17::info(), c18::info(), c19::info(), c20::info()]
}

/// Helper subcommands used by individual properties (child processes). Returns
/// Some(exit code) when `args[0]` named one.
pub fn helper_subcommand(args: &[String]) -> Option<i32> {
    if let Some(c) = c01::helper(args) {
        return Some(c);
    }
    if let Some(c) = c02::helper(args) {
        return Some(c);
    }
    if let Some(c) = c03::helper(args) {
        return Some(c);
    }
    if let Some(c) = c04::helper(args) {
        return Some(c);
    }
    if let Some(c) = c05::helper(args) {
        return Some(c);
    }
    if let Some(c) = c06::helper(args) {
        return Some(c);
    }
    if let Some(c) = c07::helper(args) {
        return Some(c);
    }
    if let Some(c) = c08::helper(args) {
        return Some(c);
    }
    if let Some(c) = c09::helper(args) {
        return Some(c);
    }
    if let Some(c) = c10::helper(args) {
        return Some(c);
    }
    if let Some(c) = c11::helper(args) {
        return Some(c);
    }
    if let Some(c) = c13::helper(args) {
        return Some(c);
    }
    if let Some(c) = c14::helper(args) {
        return Some(c);
    }
    if let Some(c) = c15::helper(args) {
        return Some(c);
    }
    if let Some(c) = c16::helper(args) {
        return Some(c);
    }
    if let Some(c) = c17::helper(args) {
        return Some(c);
    }
    if let Some(c) = c18::helper(args) {
        return Some(c);
    }
    if let Some(c) = c19::helper(args) {
        return Some(c);
    }
    if let Some(c) = c20::helper(args) {
        return Some(c);
    }
    None
}
