//! C19 search "conc": k sessions write one file from real threads.
//!
//! Each thread follows the browser client's protocol (open -> write(expected version) -> on a
//! conflict re-open) or a generated deviation (re-use a stale version, skip the re-open,
//! blindly adopt the version named in the conflict reply, write while writes are disabled,
//! write from a viewer session), with generated yields and spins between the calls. A
//! script is repeated 20-100 times; all threads are joined before a repetition is judged.

use std::path::Path;
use std::sync::atomic::{AtomicU64, Ordering};
use std::sync::{Arc, Barrier};

use serde::{Deserialize, Serialize};
use serde_json::json;
use trust_runtime::web::ide::{IdeErrorKind, IdeRole, WebIdeState};

use crate::engine::tape::{Reader, Tape};
use crate::engine::{digest64, Probe, Tier};

#[derive(Clone, Copy, Debug, Serialize, Deserialize, PartialEq, Eq)]
pub enum Dev {
    /// expected = the version this session last obtained (open or own write); after a
    /// conflict the file is re-opened first
    Protocol,
    /// expected = the version held before the last refresh
    ReuseStale,
    /// after a conflict: retry with the same version, no re-open
    SkipReopen,
    /// after a conflict: adopt the `current_version` of the conflict reply without reading
    Blind,
    /// call with write_enabled = false
    WriteDisabled,
}

#[derive(Clone, Debug, Serialize, Deserialize)]
pub struct WStep {
    pub dev: Dev,
    pub yields: u8,
    pub spin: u16,
    pub reopen_first: bool,
}

#[derive(Clone, Debug, Serialize, Deserialize)]
pub struct ThreadPlan {
    pub viewer: bool,
    pub steps: Vec<WStep>,
}

#[derive(Clone, Debug, Serialize, Deserialize)]
pub struct RenamerPlan {
    /// semantic renames of the function `main.st` calls, per repetition
    pub renames: u8,
    pub yields: u8,
    pub spin: u16,
    /// call lines in `main.st` (the analysis the rename runs grows with them)
    pub call_lines: u16,
}

#[derive(Clone, Debug, Serialize, Deserialize)]
pub struct ConcCase {
    pub threads: Vec<ThreadPlan>,
    pub reps: u16,
    /// Some = "marker mode": besides the apply_source writers one more editor session keeps
    /// renaming a function that `main.st` calls (rename_symbol rewrites the contended file);
    /// the writers append one marker line per save instead of replacing the content.
    #[serde(default)]
    pub renamer: Option<RenamerPlan>,
    /// true = recorded reproducer in the replay tier
    #[serde(default)]
    pub raw: bool,
}

pub fn case_from_tape(tape: &Tape, _tier: Tier) -> ConcCase {
    let mut r = Reader::new(tape);
    // decided first (an exhausted tape reads 0 = whole-content mode); about half of the scripts
    let renamer = if r.pick(2) == 1 {
        Some(RenamerPlan {
            renames: 3 + r.pick(6) as u8,
            yields: r.pick(3) as u8,
            spin: r.pick(400) as u16,
            call_lines: 60 + r.pick(181) as u16,
        })
    } else {
        None
    };
    let k = 2 + r.pick(5);
    let reps = 20 + r.pick(81) as u16;
    let mut threads = Vec::new();
    for t in 0..k {
        let viewer = t >= 2 && r.chance(1, 8);
        let m = 5 + r.pick(36);
        let mut steps = Vec::new();
        for _ in 0..m {
            let dev = match r.weighted(&[12, 2, 2, 2, 1]) {
                0 => Dev::Protocol,
                1 => Dev::ReuseStale,
                2 => Dev::SkipReopen,
                3 => Dev::Blind,
                _ => Dev::WriteDisabled,
            };
            let yields = r.pick(4) as u8;
            let spin = match r.weighted(&[5, 3, 1]) {
                0 => 0,
                1 => r.pick(60) as u16,
                _ => r.pick(3000) as u16,
            };
            let reopen_first = r.chance(1, 6);
            steps.push(WStep {
                dev,
                yields,
                spin,
                reopen_first,
            });
        }
        threads.push(ThreadPlan { viewer, steps });
    }
    ConcCase {
        threads,
        reps,
        renamer,
        raw: false,
    }
}

#[derive(Clone, Debug)]
#[allow(dead_code)]
enum Res {
    Ok(u64),
    Conflict(u64),
    Other(String),
}

#[derive(Clone, Debug)]
struct Ev {
    thread: usize,
    step: usize,
    dev: Dev,
    expected: u64,
    /// digest of the content this session was given together with `expected`
    base: Option<u64>,
    content: String,
    res: Res,
    t0: u64,
    t1: u64,
}

pub const FILE: &str = "main.st";

#[allow(clippy::too_many_arguments)]
fn writer(
    ide: &WebIdeState,
    tok: &str,
    plan: &ThreadPlan,
    thread: usize,
    rep: usize,
    ticket: &AtomicU64,
    barrier: &Barrier,
) -> Vec<Ev> {
    let mut events = Vec::new();
    let mut known: Option<(u64, u64)> = ide
        .open_source(tok, FILE)
        .ok()
        .map(|s| (s.version, digest64(s.content.as_bytes())));
    let mut stale: Option<(u64, u64)> = None;
    let mut need_reopen = known.is_none();
    let mut blind: Option<u64> = None;
    barrier.wait();
    for (i, st) in plan.steps.iter().enumerate() {
        for _ in 0..st.yields {
            std::thread::yield_now();
        }
        let mut acc = 0u64;
        for n in 0..st.spin {
            acc = std::hint::black_box(acc.wrapping_add(n as u64));
        }
        std::hint::black_box(acc);
        let skip = matches!(st.dev, Dev::SkipReopen | Dev::Blind);
        if st.reopen_first || (need_reopen && !skip) {
            if let Ok(s) = ide.open_source(tok, FILE) {
                if known.is_some() {
                    stale = known;
                }
                known = Some((s.version, digest64(s.content.as_bytes())));
                need_reopen = false;
                blind = None;
            }
        }
        let (expected, base) = match st.dev {
            Dev::ReuseStale => stale.or(known),
            _ => known,
        }
        .map(|(v, b)| (v, Some(b)))
        .unwrap_or((1, None));
        let (expected, base) = match (st.dev, blind) {
            (Dev::Blind, Some(v)) => (v, None),
            _ => (expected, base),
        };
        let content = format!(
            "(* rep {rep} thread {thread} step {i} *)\nPROGRAM Main\nVAR\n    w : INT;\nEND_VAR\nw := {};\nEND_PROGRAM\n",
            thread * 1000 + i
        );
        let we = st.dev != Dev::WriteDisabled;
        let t0 = ticket.fetch_add(1, Ordering::SeqCst);
        let r = ide.apply_source(tok, FILE, expected, content.clone(), we);
        let t1 = ticket.fetch_add(1, Ordering::SeqCst);
        let res = match r {
            Ok(w) => {
                if known.is_some() {
                    stale = known;
                }
                known = Some((w.version, digest64(content.as_bytes())));
                need_reopen = false;
                blind = None;
                Res::Ok(w.version)
            }
            Err(e) if e.kind() == IdeErrorKind::Conflict => {
                need_reopen = true;
                let cur = e.current_version().unwrap_or(0);
                if st.dev == Dev::Blind {
                    blind = Some(cur);
                }
                Res::Conflict(cur)
            }
            Err(e) => Res::Other(format!("{:?}: {e}", e.kind())),
        };
        events.push(Ev {
            thread,
            step: i,
            dev: st.dev,
            expected,
            base,
            content,
            res,
            t0,
            t1,
        });
    }
    events
}

fn first_line(s: &str) -> &str {
    s.lines().next().unwrap_or("")
}

fn judge(case: &ConcCase, rep: usize, initial: &str, events: &[Ev], disk: &str) -> Result<(), String> {
    let mut succ: Vec<&Ev> = Vec::new();
    for e in events {
        if let Res::Ok(v) = e.res {
            if case.threads[e.thread].viewer {
                return Err(format!(
                    "rep {rep}: a viewer session's write succeeded (thread {} step {}, expected {}, new version {v})",
                    e.thread, e.step, e.expected
                ));
            }
            if e.dev == Dev::WriteDisabled {
                return Err(format!(
                    "rep {rep}: a write with write_enabled=false succeeded (thread {} step {})",
                    e.thread, e.step
                ));
            }
            if v != e.expected.wrapping_add(1) {
                return Err(format!(
                    "rep {rep}: successful write with expected version {} returned version {v}, not {} (thread {} step {})",
                    e.expected,
                    e.expected.wrapping_add(1),
                    e.thread,
                    e.step
                ));
            }
            succ.push(e);
        }
    }
    succ.sort_by_key(|e| e.expected);
    for w in succ.windows(2) {
        if w[0].expected == w[1].expected {
            return Err(format!(
                "rep {rep}: two writes based on the same version {} both succeeded: thread {} step {} ({:?}) and thread {} step {} ({:?}) - one of them is silently overwritten",
                w[0].expected,
                w[0].thread,
                w[0].step,
                first_line(&w[0].content),
                w[1].thread,
                w[1].step,
                first_line(&w[1].content)
            ));
        }
    }
    let last_content = succ.last().map(|e| e.content.as_str()).unwrap_or(initial);
    if disk != last_content {
        return Err(format!(
            "rep {rep}: file on disk is {:?} ({} bytes) but the successful write with the highest version ({}) wrote {:?}",
            first_line(disk),
            disk.len(),
            succ.last().map(|e| e.expected + 1).unwrap_or(1),
            first_line(last_content)
        ));
    }
    // no success silently overwritten: the content a successful writer was given together
    // with its expected version is the content of the previous success
    let mut prev = digest64(initial.as_bytes());
    let mut prev_desc = "the initial content".to_string();
    for e in &succ {
        if let Some(b) = e.base {
            if b != prev {
                return Err(format!(
                    "rep {rep}: lost update: thread {} step {} ({:?}) succeeded with expected version {}, but the content it had been given for that version is not {prev_desc}, the latest successful write before it",
                    e.thread, e.step, e.dev, e.expected
                ));
            }
        }
        prev = digest64(e.content.as_bytes());
        prev_desc = format!("{:?} (thread {} step {})", first_line(&e.content), e.thread, e.step);
    }
    Ok(())
}

// ---------------------------------------------------------------------------------------
// marker mode: apply_source writers + a rename_symbol racer

const DECL: &str = "decl.st";

#[derive(Clone, Debug)]
struct MEv {
    thread: usize,
    step: usize,
    dev: Dev,
    marker: String,
    expected: u64,
    accepted: Option<u64>,
    conflict: bool,
    t0: u64,
    t1: u64,
}

#[allow(clippy::too_many_arguments)]
fn marker_writer(
    ide: &WebIdeState,
    tok: &str,
    plan: &ThreadPlan,
    thread: usize,
    rep: usize,
    ticket: &AtomicU64,
    barrier: &Barrier,
) -> Vec<MEv> {
    let mut events = Vec::new();
    // (version, content) pairs exactly as the server handed them out
    let mut known: Option<(u64, String)> = ide.open_source(tok, FILE).ok().map(|s| (s.version, s.content));
    let mut stale: Option<(u64, String)> = None;
    let mut need_reopen = known.is_none();
    barrier.wait();
    for (i, st) in plan.steps.iter().enumerate() {
        for _ in 0..st.yields {
            std::thread::yield_now();
        }
        let mut acc = 0u64;
        for n in 0..st.spin {
            acc = std::hint::black_box(acc.wrapping_add(n as u64));
        }
        std::hint::black_box(acc);
        // Blind (adopting a version without its content) legitimately overwrites: a client that
        // lies about its base is outside the property; it is run as Protocol here
        let skip = st.dev == Dev::SkipReopen;
        if st.reopen_first || (need_reopen && !skip) || matches!(st.dev, Dev::Protocol | Dev::Blind) {
            if let Ok(s) = ide.open_source(tok, FILE) {
                if known.is_some() {
                    stale = known.take();
                }
                known = Some((s.version, s.content));
                need_reopen = false;
            }
        }
        let base = match st.dev {
            Dev::ReuseStale => stale.clone().or(known.clone()),
            _ => known.clone(),
        };
        let Some((expected, base_content)) = base else {
            continue;
        };
        let marker = format!("// marker r{rep} t{thread} s{i}");
        let content = format!("{base_content}{marker}\n");
        let we = st.dev != Dev::WriteDisabled;
        let t0 = ticket.fetch_add(1, Ordering::SeqCst);
        let r = ide.apply_source(tok, FILE, expected, content.clone(), we);
        let t1 = ticket.fetch_add(1, Ordering::SeqCst);
        let (accepted, conflict) = match r {
            Ok(w) => {
                if known.is_some() {
                    stale = known.take();
                }
                known = Some((w.version, content));
                need_reopen = false;
                (Some(w.version), false)
            }
            Err(e) => {
                need_reopen = true;
                (None, e.kind() == IdeErrorKind::Conflict)
            }
        };
        events.push(MEv {
            thread,
            step: i,
            dev: st.dev,
            marker,
            expected,
            accepted,
            conflict,
            t0,
            t1,
        });
    }
    events
}

fn run_marker_case(case: &ConcCase, rp: &RenamerPlan, scratch: &Path, probe: &mut Probe) -> Result<(), String> {
    for t in [FILE, DECL] {
        super::guard::check_template(t).map_err(|why| format!("unsafe: {t:?}: {why}"))?;
    }
    let root = scratch.join("conc");
    let _ = std::fs::remove_dir_all(&root);
    let project = root.join("project");
    std::fs::create_dir_all(&project).map_err(|e| format!("fixture: mkdir: {e}"))?;
    let k = case.threads.len();
    let reps = (case.reps as usize / 6).clamp(4, 12);
    let renames = rp.renames.clamp(1, 20) as usize;
    let call_lines = rp.call_lines.clamp(10, 400) as usize;
    let mut result = Ok(());
    let (mut accepted_total, mut conflicts_total, mut renames_ok_total, mut overlap_reps, mut nontrivial_reps) = (0usize, 0usize, 0usize, 0usize, 0usize);
    for rep in 0..reps {
        std::fs::write(
            project.join(DECL),
            "FUNCTION Helper : INT\nVAR_INPUT\n    v : INT;\nEND_VAR\nHelper := v + 1;\nEND_FUNCTION\n",
        )
        .map_err(|e| format!("fixture: write: {e}"))?;
        let mut main = format!("(* rep {rep} *)\nPROGRAM Main\nVAR\n    x : INT;\nEND_VAR\n");
        for _ in 0..call_lines {
            main.push_str("x := Helper(x);\n");
        }
        main.push_str("END_PROGRAM\n");
        std::fs::write(project.join(FILE), &main).map_err(|e| format!("fixture: write: {e}"))?;
        let ide = Arc::new(WebIdeState::with_clock_for_verif(Some(project.clone()), Arc::new(|| 1_000)));
        let mut tokens = Vec::new();
        for plan in &case.threads {
            let role = if plan.viewer { IdeRole::Viewer } else { IdeRole::Editor };
            tokens.push(
                ide.create_session(role)
                    .map_err(|e| format!("infrastructure: create_session: {e}"))?
                    .token,
            );
        }
        let renamer_tok = ide
            .create_session(IdeRole::Editor)
            .map_err(|e| format!("infrastructure: create_session: {e}"))?
            .token;
        let ticket = AtomicU64::new(0);
        let barrier = Barrier::new(k + 1);
        let mut all: Vec<MEv> = Vec::new();
        // (new name, accepted, t0, t1) in call order
        let mut rename_log: Vec<(String, bool, u64, u64)> = Vec::new();
        let mut panicked = false;
        std::thread::scope(|s| {
            let handles: Vec<_> = case
                .threads
                .iter()
                .enumerate()
                .map(|(t, plan)| {
                    let ide = &ide;
                    let tok = tokens[t].as_str();
                    let ticket = &ticket;
                    let barrier = &barrier;
                    s.spawn(move || marker_writer(ide, tok, plan, t, rep, ticket, barrier))
                })
                .collect();
            let rh = {
                let ide = &ide;
                let tok = renamer_tok.as_str();
                let ticket = &ticket;
                let barrier = &barrier;
                s.spawn(move || {
                    let mut log = Vec::new();
                    barrier.wait();
                    for n in 0..renames {
                        for _ in 0..rp.yields {
                            std::thread::yield_now();
                        }
                        let mut acc = 0u64;
                        for q in 0..rp.spin {
                            acc = std::hint::black_box(acc.wrapping_add(q as u64));
                        }
                        std::hint::black_box(acc);
                        let name = format!("Helper{}", (b'A' + (n % 26) as u8) as char);
                        let position = serde_json::from_value(json!({"line": 0, "character": 10})).expect("position");
                        let t0 = ticket.fetch_add(1, Ordering::SeqCst);
                        let r = ide.rename_symbol(tok, DECL, None, position, &name, true);
                        let t1 = ticket.fetch_add(1, Ordering::SeqCst);
                        log.push((name, r.is_ok(), t0, t1));
                    }
                    log
                })
            };
            for h in handles {
                match h.join() {
                    Ok(evs) => all.extend(evs),
                    Err(_) => panicked = true,
                }
            }
            match rh.join() {
                Ok(l) => rename_log = l,
                Err(_) => panicked = true,
            }
        });
        if panicked {
            result = Err(format!("rep {rep}: a thread panicked inside the web IDE API (marker mode)"));
            break;
        }
        if let Err(why) = super::moat().intact() {
            result = Err(format!("rep {rep}: a call reached above the scratch project: {why}"));
            break;
        }
        let disk = std::fs::read_to_string(project.join(FILE)).map_err(|e| format!("infrastructure: read back: {e}"))?;
        let lines: std::collections::BTreeSet<&str> = disk.lines().collect();
        let verdict = (|| -> Result<(), String> {
            let mut seen_expected = std::collections::BTreeMap::new();
            for e in &all {
                if let Some(v) = e.accepted {
                    if case.threads[e.thread].viewer {
                        return Err(format!("a viewer session's write was accepted (thread {} step {})", e.thread, e.step));
                    }
                    if e.dev == Dev::WriteDisabled {
                        return Err(format!("a write with write_enabled=false was accepted (thread {} step {})", e.thread, e.step));
                    }
                    if v != e.expected.wrapping_add(1) {
                        return Err(format!(
                            "accepted write with expected version {} returned version {v} (thread {} step {})",
                            e.expected, e.thread, e.step
                        ));
                    }
                    if let Some((t, st)) = seen_expected.insert(e.expected, (e.thread, e.step)) {
                        return Err(format!(
                            "two writes based on the same version {} were both accepted: thread {t} step {st} and thread {} step {}",
                            e.expected, e.thread, e.step
                        ));
                    }
                }
            }
            // every accepted save is still in the file: each later accepted write - the other
            // sessions' saves and the rename's rewrites alike - was based on it
            let accepted: Vec<&MEv> = all.iter().filter(|e| e.accepted.is_some()).collect();
            let lost: Vec<&&MEv> = accepted.iter().filter(|e| !lines.contains(e.marker.as_str())).collect();
            if !lost.is_empty() {
                let e = lost[0];
                let during: Vec<String> = rename_log
                    .iter()
                    .filter(|(_, _, t0, t1)| *t0 < e.t1 && e.t0 < *t1)
                    .map(|(n, ok, _, _)| format!("rename_symbol -> {n} ({})", if *ok { "Ok" } else { "refused" }))
                    .collect();
                return Err(format!(
                    "lost update: {} of {} accepted saves are no longer in {FILE} after all threads finished, e.g. {:?} (thread {} step {}, {:?}, expected version {} -> accepted as {}); calls overlapping that save: {:?}; {} of {} rename_symbol calls were accepted",
                    lost.len(),
                    accepted.len(),
                    e.marker,
                    e.thread,
                    e.step,
                    e.dev,
                    e.expected,
                    e.accepted.unwrap_or(0),
                    during,
                    rename_log.iter().filter(|r| r.1).count(),
                    rename_log.len()
                ));
            }
            if let Some(e) = all.iter().find(|e| e.accepted.is_none() && lines.contains(e.marker.as_str())) {
                return Err(format!(
                    "the marker of a REFUSED write is in the file: {:?} (thread {} step {}, {:?})",
                    e.marker, e.thread, e.step, e.dev
                ));
            }
            // the calls in the file use the name of the last accepted rename, all of them
            let last = rename_log.iter().rev().find(|r| r.1).map(|r| r.0.as_str()).unwrap_or("Helper");
            let want = format!("x := {last}(x);");
            let calls: Vec<&str> = disk.lines().filter(|l| l.starts_with("x := ")).collect();
            if calls.len() != call_lines || calls.iter().any(|l| *l != want) {
                let odd = calls.iter().find(|l| **l != want).copied().unwrap_or("<missing>");
                return Err(format!(
                    "after the last accepted rename ({last}) {FILE} has {} call lines, expected {call_lines} x {want:?}; first deviating line {odd:?} - a write based on text from before a rename was accepted",
                    calls.len()
                ));
            }
            Ok(())
        })();
        if let Err(e) = verdict {
            result = Err(format!("rep {rep} (marker mode, {k} writers + rename_symbol racer): {e}"));
            break;
        }
        let conflicts = all.iter().filter(|e| e.conflict).count();
        let overlap = all.iter().any(|e| e.t1 != e.t0 + 1) || rename_log.iter().any(|r| r.3 != r.2 + 1);
        accepted_total += all.iter().filter(|e| e.accepted.is_some()).count();
        conflicts_total += conflicts;
        renames_ok_total += rename_log.iter().filter(|r| r.1).count();
        if overlap {
            overlap_reps += 1;
            if conflicts > 0 {
                nontrivial_reps += 1;
            }
        }
    }
    let _ = std::fs::remove_dir_all(&root);
    result?;
    probe.label("conc_mode=markers+rename_symbol");
    probe.label(format!("conc_threads={k}"));
    probe.label(if overlap_reps > 0 { "conc_overlap=yes" } else { "conc_overlap=no" });
    probe.label(if conflicts_total > 0 { "conc_conflicts=yes" } else { "conc_conflicts=no" });
    probe.label(if renames_ok_total > 0 { "conc_rename_symbol_accepted=yes" } else { "conc_rename_symbol_accepted=no" });
    if nontrivial_reps > 0 && renames_ok_total > 0 && accepted_total > 0 {
        let key = serde_json::to_vec(case).unwrap_or_default();
        probe.nontrivial(&key);
        probe.sample(json!({
            "search": "conc", "mode": "markers + rename_symbol racer", "writers": k, "reps": reps,
            "renames_per_rep": renames, "call_lines": call_lines, "accepted_saves": accepted_total,
            "conflicts": conflicts_total, "accepted_renames": renames_ok_total,
            "reps_with_overlap_and_conflict": nontrivial_reps,
        }));
    }
    Ok(())
}

pub fn run_case(case: &ConcCase, scratch: &Path, probe: &mut Probe) -> Result<(), String> {
    if case.threads.len() < 2 || case.threads.len() > 8 {
        return Ok(());
    }
    if let Some(rp) = &case.renamer {
        return run_marker_case(case, rp, scratch, probe);
    }
    super::guard::check_template(FILE).map_err(|why| format!("unsafe: {FILE:?}: {why}"))?;
    let root = scratch.join("conc");
    let _ = std::fs::remove_dir_all(&root);
    let project = root.join("project");
    std::fs::create_dir_all(&project).map_err(|e| format!("fixture: mkdir: {e}"))?;
    let file = project.join(FILE);
    let k = case.threads.len();
    let mut conflicts_total = 0usize;
    let mut successes_total = 0usize;
    let mut overlap_reps = 0usize;
    let mut nontrivial_reps = 0usize;
    let mut other_errors = 0usize;
    let mut result = Ok(());
    for rep in 0..case.reps as usize {
        let initial = format!("(* initial content of rep {rep} *)\nPROGRAM Main\nEND_PROGRAM\n");
        std::fs::write(&file, &initial).map_err(|e| format!("fixture: write: {e}"))?;
        let ide = Arc::new(WebIdeState::with_clock_for_verif(
            Some(project.clone()),
            Arc::new(|| 1_000),
        ));
        let mut tokens = Vec::new();
        for plan in &case.threads {
            let role = if plan.viewer { IdeRole::Viewer } else { IdeRole::Editor };
            let s = ide
                .create_session(role)
                .map_err(|e| format!("infrastructure: create_session: {e}"))?;
            tokens.push(s.token);
        }
        let ticket = AtomicU64::new(0);
        let barrier = Barrier::new(k);
        let mut all: Vec<Ev> = Vec::new();
        let mut panicked = None;
        std::thread::scope(|s| {
            let handles: Vec<_> = case
                .threads
                .iter()
                .enumerate()
                .map(|(t, plan)| {
                    let ide = &ide;
                    let tok = tokens[t].as_str();
                    let ticket = &ticket;
                    let barrier = &barrier;
                    s.spawn(move || writer(ide, tok, plan, t, rep, ticket, barrier))
                })
                .collect();
            for (t, h) in handles.into_iter().enumerate() {
                match h.join() {
                    Ok(evs) => all.extend(evs),
                    Err(_) => panicked = Some(t),
                }
            }
        });
        if let Some(t) = panicked {
            result = Err(format!("rep {rep}: writer thread {t} panicked inside the web IDE API"));
            break;
        }
        if let Err(why) = super::moat().intact() {
            result = Err(format!("rep {rep}: a call reached above the scratch project: {why}"));
            break;
        }
        let disk = std::fs::read_to_string(&file).map_err(|e| format!("infrastructure: read back: {e}"))?;
        if let Err(e) = judge(case, rep, &initial, &all, &disk) {
            result = Err(e);
            break;
        }
        let conflicts = all.iter().filter(|e| matches!(e.res, Res::Conflict(_))).count();
        let successes = all.iter().filter(|e| matches!(e.res, Res::Ok(_))).count();
        other_errors += all
            .iter()
            .filter(|e| matches!(e.res, Res::Other(_)) && e.dev != Dev::WriteDisabled && !case.threads[e.thread].viewer)
            .count();
        // overlap: tickets are only drawn around write calls and a thread's own writes are
        // sequential, so a write whose two tickets are not consecutive contained (part of)
        // another thread's write call
        let overlap = all.iter().any(|e| e.t1 != e.t0 + 1);
        conflicts_total += conflicts;
        successes_total += successes;
        if overlap {
            overlap_reps += 1;
            if conflicts > 0 {
                nontrivial_reps += 1;
            }
        }
    }
    let _ = std::fs::remove_dir_all(&root);
    result?;
    probe.label("conc_mode=whole-content writers");
    probe.label(format!("conc_threads={k}"));
    if case.threads.iter().any(|t| t.viewer) {
        probe.label("conc_has_viewer_writer");
    }
    for d in [Dev::ReuseStale, Dev::SkipReopen, Dev::Blind, Dev::WriteDisabled] {
        if case.threads.iter().any(|t| t.steps.iter().any(|s| s.dev == d)) {
            probe.label(format!("conc_deviation={d:?}"));
        }
    }
    probe.label(if overlap_reps > 0 { "conc_overlap=yes" } else { "conc_overlap=no" });
    probe.label(if conflicts_total > 0 { "conc_conflicts=yes" } else { "conc_conflicts=no" });
    if other_errors > 0 {
        probe.label("conc_editor_write_failed_other_than_conflict");
    }
    if nontrivial_reps > 0 {
        let key = serde_json::to_vec(case).unwrap_or_default();
        probe.nontrivial(&key);
        probe.sample(json!({
            "search": "conc", "threads": k, "reps": case.reps,
            "writes_per_thread": case.threads.iter().map(|t| t.steps.len()).collect::<Vec<_>>(),
            "successes": successes_total, "conflicts": conflicts_total,
            "reps_with_overlap": overlap_reps, "reps_with_overlap_and_conflict": nontrivial_reps,
        }));
    }
    Ok(())
}
