//! C19 search "history": sequential, model-based check of the lost-update clause ACROSS the
//! other file operations.
//!
//! 2-3 editor sessions run a generated history of 5-25 calls (open, apply_source with the
//! session's latest / an older / a freshly re-opened / a guessed version, create_entry,
//! delete_entry and rename_entry of files and directories, listing / search / analysis calls
//! as noise) on a small tree whose names deliberately share string prefixes (`pump/`,
//! `pump_control.st`, `pump2/x.st`, `lib/`, `lib2/util.st`, `a.st`, `a.st.bak`, `src/a/`,
//! `src/a.st`, `src/ab.st`, `lib/util.st.orig`, `src/a/b.st2`).
//!
//! Reference model (written from the property's rule, not from the server's version
//! arithmetic): per file the content of the last successful write / creation, a *stamp* that
//! changes with every such event and the number of successful writes since the file came into
//! being; per session and path the (version, stamp) pairs the server handed out (open, own
//! successful write, own creation, own rename_symbol). Rules:
//!  * a write whose expected version the session obtained at stamp s succeeds only if s is
//!    still the file's stamp (nothing was written to that file since) - whatever happened to
//!    OTHER entries in between;
//!  * a write with the guessed version 1 succeeds only if no write succeeded on the file since
//!    it came into being (initial tree, creation);
//!  * rename_entry of a file or of a folder moves content, stamp, write count and everything
//!    the sessions remember to the new path (the server re-keys its tracked documents and the
//!    sessions' open paths): a version that was out of date before the rename must be refused at
//!    the new path as well. Only a path NAME that ceased to exist (deleted, renamed away) and
//!    is re-created later is under the open finding F32; what the sessions remember is not kept
//!    for it (exclusion by construction, counted);
//!  * rename_symbol (the function every content calls is declared in `decl/helper.st`) is a
//!    write like any other: every file it reports as changed must be its LATEST accepted content
//!    with the identifier replaced, and versions handed out before it are out of date;
//!  * a successful write returns expected + 1; open returns the model content;
//!  * after every call the files on disk are exactly the model's files with the model's
//!    contents (a refused call changes nothing).

use std::collections::BTreeMap;
use std::path::Path;
use std::sync::Arc;

use serde::{Deserialize, Serialize};
use serde_json::json;
use trust_runtime::web::ide::{IdeErrorKind, IdeRole, WebIdeState};

use crate::engine::tape::{Reader, Tape};
use crate::engine::Probe;

#[derive(Clone, Copy, Debug, Serialize, Deserialize, PartialEq, Eq)]
pub enum Basis {
    /// the version this session obtained last for the path (guess 1 if it holds none)
    Latest,
    /// the oldest version this session still remembers for the path (up to three are kept)
    Older,
    /// open the file first, then write with what the open returned
    Reopen,
    /// expected version 1 without having opened the file
    Guess1,
}

#[derive(Clone, Debug, Serialize, Deserialize, PartialEq, Eq)]
pub enum Tgt {
    Path(String),
    /// A file whose path merely starts with the characters of the entry that was deleted /
    /// renamed last (not inside it); `fallback` if there is none.
    Victim { fallback: String },
    /// The file that was written successfully last; `fallback` if there is none (any more).
    Hot { fallback: String },
    /// A file that arrived under a new path by the last successful rename_entry (the file
    /// itself or one below a renamed directory); `fallback` if there is none.
    Moved { fallback: String },
}

#[derive(Clone, Debug, Serialize, Deserialize)]
pub enum HOp {
    Open { s: u8, path: Tgt },
    Apply { s: u8, path: Tgt, basis: Basis },
    CreateFile { s: u8, path: String },
    CreateDir { s: u8, path: String },
    Delete { s: u8, path: String },
    Rename { s: u8, path: String, to: String },
    Noise { s: u8, kind: u8, path: Tgt },
    /// Semantic rename of the function every file calls (declared in `decl/helper.st`): the
    /// server rewrites every file that references it.
    RenameSymbol { s: u8, name: u8 },
}

#[derive(Clone, Debug, Serialize, Deserialize)]
pub struct HistCase {
    pub sessions: u8,
    pub ops: Vec<HOp>,
    /// true = recorded reproducer: no known-finding exclusion is applied
    #[serde(default)]
    pub raw: bool,
}

pub const INITIAL_FILES: &[&str] = &[
    "pump_control.st",
    "pump/motor.st",
    "pump/scratch.st",
    "pump2/x.st",
    "lib/util.st",
    "lib2/util.st",
    "a.st",
    "a.st.bak",
    "src/a/b.st",
    "src/ab.st",
    "src/a.st",
    "lib/util.st.orig",
    "src/a/b.st2",
];

const EXTRA_FILES: &[&str] = &[
    "pump_control2.st",
    "pump/new.st",
    "lib2/extra.st",
    "src/a/c.st",
    "a.st.old",
    "pumpx.st",
    "lib.st",
];

/// Declares the function all generated contents call; never a target of the other operations.
pub const DECL_FILE: &str = "decl/helper.st";
const FN_NAMES: &[&str] = &["HelperA", "HelperB", "Helper", "HelperC", "Helper2"];

fn decl_text(name: &str) -> String {
    format!("FUNCTION {name} : INT\nVAR_INPUT\n    v : INT;\nEND_VAR\n{name} := v + 1;\nEND_FUNCTION\n")
}

fn body_text(comment: &str, program: &str, fn_name: &str) -> String {
    format!("(* {comment} *)\nPROGRAM {program}\nVAR\n    x : INT;\nEND_VAR\nx := {fn_name}(x);\nEND_PROGRAM\n")
}

/// Replace the identifier `from` (whole identifiers only) by `to`.
fn replace_ident(text: &str, from: &str, to: &str) -> String {
    let is_id = |c: char| c.is_alphanumeric() || c == '_';
    let mut out = String::with_capacity(text.len());
    let mut i = 0;
    while i < text.len() {
        if text[i..].starts_with(from) {
            let before_ok = text[..i].chars().next_back().map_or(true, |c| !is_id(c));
            let after_ok = text[i + from.len()..].chars().next().map_or(true, |c| !is_id(c));
            if before_ok && after_ok {
                out.push_str(to);
                i += from.len();
                continue;
            }
        }
        let c = text[i..].chars().next().unwrap();
        out.push(c);
        i += c.len_utf8();
    }
    out
}

const DIRS: &[&str] = &["pump", "lib", "src/a", "pump2", "lib2", "src"];

const NEW_DIRS: &[&str] = &["pum", "pump_old", "lib3", "src/a2", "src/ab", "p"];

const RENAME_TARGETS: &[&str] = &[
    "pump_old",
    "pumps",
    "pum",
    "lib3",
    "li",
    "src/a2",
    "src/ab2.st",
    "a.st.old",
    "a.s",
    "pump_control.st.bak",
    "pump_control2.st",
    "lib2/moved.st",
    "src/a/moved.st",
    "pump2/motor.st",
    "motor",
    "pump",
    "lib",
    "src/a",
    "a.st",
    "pump_control.st",
];

fn gen_file(r: &mut Reader) -> String {
    if r.chance(4, 5) {
        INITIAL_FILES[r.pick(INITIAL_FILES.len())].to_string()
    } else {
        EXTRA_FILES[r.pick(EXTRA_FILES.len())].to_string()
    }
}

fn gen_tgt(r: &mut Reader) -> Tgt {
    if r.chance(2, 3) {
        Tgt::Path(gen_file(r))
    } else {
        Tgt::Hot { fallback: gen_file(r) }
    }
}

fn gen_noise_tgt(r: &mut Reader) -> Tgt {
    if r.chance(1, 3) {
        Tgt::Path(gen_file(r))
    } else {
        Tgt::Hot { fallback: gen_file(r) }
    }
}

pub fn case_from_tape(tape: &Tape) -> HistCase {
    let mut r = Reader::new(tape);
    let sessions = 2 + r.pick(2) as u8;
    let n = 5 + r.pick(21);
    let mut ops = Vec::new();
    for _ in 0..n {
        let s = r.pick(sessions as usize) as u8;
        // first alternative = open, last = write to a "victim" (the tape is biased to 0 / MAX)
        let op = match r.weighted(&[10, 14, 4, 1, 5, 6, 6, 3, 8]) {
            0 => HOp::Open { s, path: gen_tgt(&mut r) },
            1 => HOp::Apply {
                s,
                path: gen_tgt(&mut r),
                basis: match r.weighted(&[6, 3, 2, 3]) {
                    0 => Basis::Latest,
                    1 => Basis::Older,
                    2 => Basis::Reopen,
                    _ => Basis::Guess1,
                },
            },
            2 => HOp::CreateFile { s, path: gen_file(&mut r) },
            3 => HOp::CreateDir {
                s,
                path: if r.chance(1, 2) {
                    NEW_DIRS[r.pick(NEW_DIRS.len())].to_string()
                } else {
                    DIRS[r.pick(DIRS.len())].to_string()
                },
            },
            4 => HOp::Delete {
                s,
                path: if r.chance(3, 5) {
                    DIRS[r.pick(DIRS.len())].to_string()
                } else {
                    gen_file(&mut r)
                },
            },
            5 => HOp::Rename {
                s,
                path: if r.chance(1, 2) {
                    DIRS[r.pick(DIRS.len())].to_string()
                } else {
                    gen_file(&mut r)
                },
                to: RENAME_TARGETS[r.pick(RENAME_TARGETS.len())].to_string(),
            },
            6 => HOp::Noise {
                s,
                // list, tree, search, diagnostics, diagnostics with an unsaved buffer, format,
                // symbols, diagnostics with an unsaved buffer + plain diagnostics by the next session
                kind: r.weighted(&[1, 1, 1, 3, 3, 1, 2, 3]) as u8,
                path: gen_noise_tgt(&mut r),
            },
            7 => HOp::RenameSymbol {
                s,
                name: r.pick(FN_NAMES.len()) as u8,
            },
            _ => HOp::Apply {
                s,
                path: if r.chance(1, 2) {
                    Tgt::Victim { fallback: gen_file(&mut r) }
                } else {
                    Tgt::Moved { fallback: gen_file(&mut r) }
                },
                basis: match r.weighted(&[5, 3, 3]) {
                    0 => Basis::Latest,
                    1 => Basis::Older,
                    _ => Basis::Guess1,
                },
            },
        };
        ops.push(op);
    }
    HistCase {
        sessions,
        ops,
        raw: false,
    }
}

#[derive(Clone, Debug)]
struct FileM {
    content: String,
    /// changes with every successful write / creation / arrival
    stamp: u64,
    /// successful apply_source calls since the file came into being under this path
    saves: u32,
    /// what established the current content (for messages)
    by: String,
    /// an entry whose path is a plain string prefix of this file's path (without containing
    /// the file) was deleted / renamed since this file's content was last established
    prefix_op_since: bool,
    /// the file reached its current path by rename_entry (itself or an ancestor directory)
    moved: bool,
}

struct Model {
    files: BTreeMap<String, FileM>,
    next_stamp: u64,
    /// per session: path -> up to three (version, stamp) pairs, oldest first
    held: Vec<BTreeMap<String, Vec<(u64, u64)>>>,
    last_removed: Option<String>,
    last_written: Option<String>,
    /// new paths of the files moved by the last successful rename_entry
    last_moved: Vec<String>,
    /// current name of the function declared in DECL_FILE
    fn_name: String,
}

fn under(path: &str, dir: &str) -> bool {
    path.len() > dir.len() + 1 && path.starts_with(dir) && path.as_bytes()[dir.len()] == b'/'
}

impl Model {
    fn stamp(&mut self) -> u64 {
        self.next_stamp += 1;
        self.next_stamp
    }

    fn hold(&mut self, s: usize, path: &str, pair: (u64, u64)) {
        let v = self.held[s].entry(path.to_string()).or_default();
        if v.last() != Some(&pair) {
            v.push(pair);
        }
        if v.len() > 3 {
            v.remove(0);
        }
    }

    /// Paths of the model's files that `entry` denotes (itself, or everything inside it).
    fn covered(&self, entry: &str) -> Vec<String> {
        self.files
            .keys()
            .filter(|p| p.as_str() == entry || under(p, entry))
            .cloned()
            .collect()
    }

    /// Files that only share the characters of `entry` as a prefix.
    fn prefix_neighbours(&self, entry: &str) -> Vec<String> {
        self.files
            .keys()
            .filter(|p| p.starts_with(entry) && p.as_str() != entry && !under(p, entry))
            .cloned()
            .collect()
    }

    fn resolve(&self, t: &Tgt) -> String {
        match t {
            Tgt::Path(p) => p.clone(),
            Tgt::Victim { fallback } => {
                if let Some(e) = &self.last_removed {
                    let n = self.prefix_neighbours(e);
                    // prefer a neighbour somebody has written or still remembers
                    if let Some(p) = n.iter().find(|p| {
                        self.files[*p].saves > 0 || self.held.iter().any(|h| h.contains_key(*p))
                    }) {
                        return p.clone();
                    }
                    if let Some(p) = n.first() {
                        return p.clone();
                    }
                }
                fallback.clone()
            }
            Tgt::Hot { fallback } => match &self.last_written {
                Some(p) if self.files.contains_key(p) => p.clone(),
                _ => fallback.clone(),
            },
            Tgt::Moved { fallback } => {
                let live: Vec<&String> = self.last_moved.iter().filter(|p| self.files.contains_key(*p)).collect();
                if let Some(p) = live.iter().find(|p| {
                    self.files[**p].saves > 0 || self.held.iter().any(|h| h.contains_key(**p))
                }) {
                    return (*p).clone();
                }
                live.first().map(|p| (*p).clone()).unwrap_or_else(|| fallback.clone())
            }
        }
    }
}

fn disk_files(dir: &Path, rel: &str, out: &mut BTreeMap<String, String>) -> Result<(), String> {
    let rd = std::fs::read_dir(dir).map_err(|e| format!("infrastructure: read_dir: {e}"))?;
    for e in rd.flatten() {
        let name = e.file_name().to_string_lossy().to_string();
        let child = if rel.is_empty() { name.clone() } else { format!("{rel}/{name}") };
        let ft = e.file_type().map_err(|e| format!("infrastructure: file_type: {e}"))?;
        if ft.is_dir() {
            disk_files(&e.path(), &child, out)?;
        } else {
            let text = std::fs::read(e.path()).map_err(|e| format!("infrastructure: read: {e}"))?;
            out.insert(child, String::from_utf8_lossy(&text).to_string());
        }
    }
    Ok(())
}

fn first_line(s: &str) -> &str {
    s.lines().next().unwrap_or("")
}

fn compare_disk(project: &Path, m: &Model) -> Result<(), String> {
    let mut disk = BTreeMap::new();
    disk_files(project, "", &mut disk)?;
    for (p, f) in &m.files {
        match disk.get(p) {
            None => return Err(format!("file {p:?} is gone from disk although no successful call removed it")),
            Some(c) if *c != f.content => {
                return Err(format!(
                    "file {p:?} on disk starts {:?} but the last successful write/creation ({}) was {:?}",
                    first_line(c),
                    f.by,
                    first_line(&f.content)
                ))
            }
            _ => {}
        }
    }
    for p in disk.keys() {
        if !m.files.contains_key(p) {
            return Err(format!("file {p:?} exists on disk although no successful call created it"));
        }
    }
    Ok(())
}

const PROJECT_REL: &str = "hist/project";

/// Every string of the case that is (or resolves to something that is) handed to the API.
pub fn strings_of(case: &HistCase) -> Vec<String> {
    let tgt = |t: &Tgt| match t {
        Tgt::Path(p) => p.clone(),
        Tgt::Victim { fallback } | Tgt::Hot { fallback } | Tgt::Moved { fallback } => fallback.clone(),
    };
    let mut out = Vec::new();
    for op in &case.ops {
        match op {
            HOp::Open { path, .. } | HOp::Apply { path, .. } | HOp::Noise { path, .. } => out.push(tgt(path)),
            HOp::CreateFile { path, .. } | HOp::CreateDir { path, .. } | HOp::Delete { path, .. } => out.push(path.clone()),
            HOp::Rename { path, to, .. } => {
                out.push(path.clone());
                out.push(to.clone());
            }
            HOp::RenameSymbol { .. } => out.push(DECL_FILE.to_string()),
        }
    }
    out
}

/// History strings are plain relative names: no `{S}`, no parent-like component at all.
fn guard_plain(t: &str) -> Result<(), String> {
    super::guard::check_template(t).map_err(|why| format!("unsafe: {t:?}: {why}"))?;
    if t.contains("{S}") || t.contains("..") || t.contains('\\') || t.contains('%') || !t.is_ascii() {
        return Err(format!("unsafe: {t:?}: history paths must be plain relative ASCII names"));
    }
    Ok(())
}

pub fn run_case(case: &HistCase, scratch: &Path, exclude_f32: bool, probe: &mut Probe) -> Result<(), String> {
    // containment: validate the whole case before a single call runs
    for t in strings_of(case) {
        guard_plain(&t)?;
    }
    let strict = case.raw || !exclude_f32;
    let nsess = case.sessions.clamp(1, 4) as usize;
    let root = scratch.join("hist");
    let _ = std::fs::remove_dir_all(&root);
    let project = scratch.join(PROJECT_REL);
    let mut m = Model {
        files: BTreeMap::new(),
        next_stamp: 0,
        held: vec![BTreeMap::new(); nsess],
        last_removed: None,
        last_written: None,
        last_moved: Vec::new(),
        fn_name: "Helper".to_string(),
    };
    let mut initial: Vec<(String, String)> = INITIAL_FILES
        .iter()
        .enumerate()
        .map(|(k, rel)| (rel.to_string(), body_text(&format!("initial content of {rel}"), &format!("Init{k}"), "Helper")))
        .collect();
    initial.push((DECL_FILE.to_string(), decl_text("Helper")));
    for (rel, content) in &initial {
        let (rel, content) = (rel.as_str(), content.clone());
        let path = project.join(rel);
        if let Some(parent) = path.parent() {
            std::fs::create_dir_all(parent).map_err(|e| format!("fixture: mkdir: {e}"))?;
        }
        std::fs::write(&path, &content).map_err(|e| format!("fixture: write: {e}"))?;
        let stamp = m.stamp();
        m.files.insert(
            rel.to_string(),
            FileM {
                content,
                stamp,
                saves: 0,
                by: "the initial tree".into(),
                prefix_op_since: false,
                moved: false,
            },
        );
    }
    let ide = WebIdeState::with_clock_for_verif(Some(project.clone()), Arc::new(|| 5_000));
    let mut tokens = Vec::new();
    for _ in 0..nsess {
        tokens.push(
            ide.create_session(IdeRole::Editor)
                .map_err(|e| format!("infrastructure: create_session: {e}"))?
                .token,
        );
    }

    let mut trace: Vec<String> = Vec::new();
    let mut writes = 0u32;
    let mut stale_attempts = 0u32;
    let mut stale_after_prefix_op = 0u32;
    let mut stale_at_new_path = 0u32;
    let mut symbol_renames = 0u32;
    let mut conflicts = 0u32;
    let mut spurious_conflicts = 0u32;
    let mut structural_ok = 0u32;
    let mut prefix_structural = 0u32;
    let mut excluded = 0u32;
    let mut result: Result<(), String> = Ok(());

    'ops: for (i, op) in case.ops.iter().enumerate() {
        let fail = |trace: &[String], what: String| -> String {
            let tail: Vec<&str> = trace.iter().rev().take(14).rev().map(|s| s.as_str()).collect();
            format!("{what}\n  history (last {} calls):\n    {}", tail.len(), tail.join("\n    "))
        };
        match op {
            HOp::Open { s, path } => {
                let s = *s as usize % nsess;
                let p = m.resolve(path);
                match ide.open_source(&tokens[s], &p) {
                    Ok(snap) => {
                        trace.push(format!("#{i} s{s} open {p:?} -> version {}", snap.version));
                        if let Some(f) = m.files.get(&p) {
                            if snap.content != f.content {
                                result = Err(fail(&trace, format!(
                                    "open_source({p:?}) returned {:?}, not the content of the last successful write/creation ({}: {:?})",
                                    first_line(&snap.content), f.by, first_line(&f.content)
                                )));
                                break 'ops;
                            }
                            let st = f.stamp;
                            m.hold(s, &p, (snap.version, st));
                        }
                    }
                    Err(e) => trace.push(format!("#{i} s{s} open {p:?} -> {:?}", e.kind())),
                }
            }
            HOp::Apply { s, path, basis } => {
                let s = *s as usize % nsess;
                let p = m.resolve(path);
                if *basis == Basis::Reopen {
                    if let Ok(snap) = ide.open_source(&tokens[s], &p) {
                        if let Some(f) = m.files.get(&p) {
                            let st = f.stamp;
                            m.hold(s, &p, (snap.version, st));
                        }
                        trace.push(format!("#{i} s{s} re-open {p:?} -> version {}", snap.version));
                    }
                }
                let pairs = m.held[s].get(&p).cloned().unwrap_or_default();
                let pair: Option<(u64, u64)> = match basis {
                    Basis::Guess1 => None,
                    Basis::Older => pairs.first().copied(),
                    Basis::Latest | Basis::Reopen => pairs.last().copied(),
                };
                let expected = pair.map(|(v, _)| v).unwrap_or(1);
                writes += 1;
                let content = body_text(
                    &format!("write {writes} (call {i}) by session {s} to {p}"),
                    &format!("W{writes}"),
                    &m.fn_name,
                );
                let cur = m.files.get(&p).cloned();
                // is this write based on something older than the file's current content?
                let stale = match (&cur, pair) {
                    (Some(f), Some((_, st))) => st != f.stamp,
                    (Some(f), None) => f.saves > 0,
                    (None, _) => false,
                };
                if stale {
                    stale_attempts += 1;
                    if cur.as_ref().is_some_and(|f| f.prefix_op_since) {
                        stale_after_prefix_op += 1;
                    }
                    if cur.as_ref().is_some_and(|f| f.moved) {
                        stale_at_new_path += 1;
                    }
                }
                let r = ide.apply_source(&tokens[s], &p, expected, content.clone(), true);
                match r {
                    Ok(w) => {
                        trace.push(format!(
                            "#{i} s{s} apply {p:?} expected {expected} ({basis:?}{}) -> Ok version {}",
                            if stale { ", STALE" } else { "" },
                            w.version
                        ));
                        if stale {
                            let f = cur.as_ref().unwrap();
                            result = Err(fail(&trace, match pair {
                                Some((v, _)) => format!(
                                    "lost update: session {s} wrote {p:?} with expected version {v}, which it had obtained BEFORE {} established the file's current content {:?}; the write was accepted (new version {}) instead of refused with a conflict, so that content is silently overwritten",
                                    f.by, first_line(&f.content), w.version
                                ),
                                None => format!(
                                    "lost update: session {s} wrote {p:?} with the guessed version 1 although {} successful write(s) had happened to that file since it came into being (last: {}, content {:?}); the write was accepted (new version {}), so that content is silently overwritten",
                                    f.saves, f.by, first_line(&f.content), w.version
                                ),
                            }));
                            break 'ops;
                        }
                        if w.version != expected.wrapping_add(1) {
                            result = Err(fail(&trace, format!(
                                "successful write of {p:?} with expected version {expected} returned version {}, not {}",
                                w.version, expected.wrapping_add(1)
                            )));
                            break 'ops;
                        }
                        let st = m.stamp();
                        let saves = cur.as_ref().map(|f| f.saves).unwrap_or(0) + 1;
                        m.files.insert(
                            p.clone(),
                            FileM {
                                content,
                                stamp: st,
                                saves,
                                by: format!("call #{i}, apply_source by session {s}"),
                                prefix_op_since: false,
                                moved: cur.as_ref().is_some_and(|f| f.moved),
                            },
                        );
                        m.hold(s, &p, (w.version, st));
                        m.last_written = Some(p.clone());
                    }
                    Err(e) => {
                        trace.push(format!(
                            "#{i} s{s} apply {p:?} expected {expected} ({basis:?}{}) -> {:?}{}",
                            if stale { ", STALE" } else { "" },
                            e.kind(),
                            e.current_version().map(|v| format!(" (current {v})")).unwrap_or_default()
                        ));
                        if e.kind() == IdeErrorKind::Conflict {
                            conflicts += 1;
                            if !stale && cur.is_some() && pair.is_some() {
                                spurious_conflicts += 1;
                            }
                        }
                    }
                }
            }
            HOp::CreateFile { s, path } => {
                let s = *s as usize % nsess;
                writes += 1;
                let content = body_text(
                    &format!("creation {writes} (call {i}) by session {s} of {path}"),
                    &format!("C{writes}"),
                    &m.fn_name,
                );
                match ide.create_entry(&tokens[s], path, false, Some(content.clone()), true) {
                    Ok(res) => {
                        trace.push(format!("#{i} s{s} create file {path:?} -> Ok version {:?}", res.version));
                        let st = m.stamp();
                        m.files.insert(
                            path.clone(),
                            FileM {
                                content,
                                stamp: st,
                                saves: 0,
                                by: format!("call #{i}, create_entry by session {s}"),
                                prefix_op_since: false,
                                moved: false,
                            },
                        );
                        if let Some(v) = res.version {
                            m.hold(s, path, (v, st));
                        }
                    }
                    Err(e) => trace.push(format!("#{i} s{s} create file {path:?} -> {:?}", e.kind())),
                }
            }
            HOp::CreateDir { s, path } => {
                let s = *s as usize % nsess;
                let r = ide.create_entry(&tokens[s], path, true, None, true);
                trace.push(format!("#{i} s{s} create dir {path:?} -> {}", match &r {
                    Ok(_) => "Ok".to_string(),
                    Err(e) => format!("{:?}", e.kind()),
                }));
            }
            HOp::Delete { s, path } => {
                let s = *s as usize % nsess;
                match ide.delete_entry(&tokens[s], path, true) {
                    Ok(res) => {
                        trace.push(format!("#{i} s{s} delete {path:?} -> Ok ({})", res.kind));
                        structural_ok += 1;
                        let gone = m.covered(path);
                        for p in &gone {
                            m.files.remove(p);
                            // the path ceases to exist; F32 (open) is about what happens when it is
                            // re-created, so what the sessions remember for it is dropped
                            for h in m.held.iter_mut() {
                                if !strict && h.remove(p).is_some() {
                                    excluded += 1;
                                }
                            }
                        }
                        let n = m.prefix_neighbours(path);
                        if !n.is_empty() {
                            prefix_structural += 1;
                        }
                        for p in n {
                            m.files.get_mut(&p).unwrap().prefix_op_since = true;
                        }
                        m.last_removed = Some(path.clone());
                    }
                    Err(e) => trace.push(format!("#{i} s{s} delete {path:?} -> {:?}", e.kind())),
                }
            }
            HOp::Rename { s, path, to } => {
                let s = *s as usize % nsess;
                match ide.rename_entry(&tokens[s], path, to, true) {
                    Ok(res) => {
                        trace.push(format!("#{i} s{s} rename {path:?} -> {to:?} -> Ok ({})", res.kind));
                        structural_ok += 1;
                        let moved = m.covered(path);
                        m.last_moved.clear();
                        for p in &moved {
                            let f = m.files.remove(p).unwrap();
                            let np = format!("{to}{}", &p[path.len()..]);
                            for h in m.held.iter_mut() {
                                // an earlier life of the arrival path comes back: F32's family
                                if !strict && h.remove(&np).is_some() {
                                    excluded += 1;
                                }
                                // the sessions follow the rename (the server re-keys its tracked
                                // documents and every session's open paths): what they remember for
                                // the old path is what they remember for the new one. Only the OLD
                                // name, if it is re-created later, is under F32.
                                let pairs = if strict { h.get(p).cloned() } else { h.remove(p) };
                                if let Some(pairs) = pairs {
                                    if !strict && !pairs.is_empty() {
                                        excluded += 1;
                                    }
                                    let v = h.entry(np.clone()).or_default();
                                    for pair in pairs {
                                        if !v.contains(&pair) {
                                            v.push(pair);
                                        }
                                    }
                                    while v.len() > 4 {
                                        v.remove(0);
                                    }
                                }
                            }
                            if m.last_written.as_deref() == Some(p.as_str()) {
                                m.last_written = Some(np.clone());
                            }
                            m.last_moved.push(np.clone());
                            // content, stamp and write count travel with the file: a version that
                            // was out of date before the rename is out of date after it
                            m.files.insert(
                                np,
                                FileM {
                                    by: format!("{} (then moved here from {p:?} by call #{i})", f.by),
                                    moved: true,
                                    ..f
                                },
                            );
                        }
                        let mut n = m.prefix_neighbours(path);
                        n.extend(m.prefix_neighbours(to));
                        if !n.is_empty() {
                            prefix_structural += 1;
                        }
                        for p in n {
                            if let Some(f) = m.files.get_mut(&p) {
                                f.prefix_op_since = true;
                            }
                        }
                        m.last_removed = Some(path.clone());
                    }
                    Err(e) => trace.push(format!("#{i} s{s} rename {path:?} -> {to:?} -> {:?}", e.kind())),
                }
            }
            HOp::RenameSymbol { s, name } => {
                let s = *s as usize % nsess;
                let new = FN_NAMES[*name as usize % FN_NAMES.len()];
                if new == m.fn_name {
                    trace.push(format!("#{i} s{s} rename_symbol to the current name: skipped"));
                    continue;
                }
                let position = serde_json::from_value(json!({"line": 0, "character": 10})).expect("position");
                match ide.rename_symbol(&tokens[s], DECL_FILE, None, position, new, true) {
                    Ok(res) => {
                        symbol_renames += 1;
                        let old = m.fn_name.clone();
                        trace.push(format!(
                            "#{i} s{s} rename_symbol {old} -> {new} -> Ok, rewrote {:?}",
                            res.changed_files.iter().map(|f| format!("{}@{}", f.path, f.version)).collect::<Vec<_>>()
                        ));
                        // every rewritten file must be the LATEST accepted content with the name
                        // replaced (checked by the disk comparison below); the rewrite is a write
                        // like any other: versions obtained before it are out of date
                        for f in &res.changed_files {
                            if let Some(cur) = m.files.get(&f.path).cloned() {
                                let st = m.stamp();
                                m.files.insert(
                                    f.path.clone(),
                                    FileM {
                                        content: replace_ident(&cur.content, &old, new),
                                        stamp: st,
                                        saves: cur.saves + 1,
                                        by: format!("call #{i}, rename_symbol by session {s}"),
                                        prefix_op_since: false,
                                        moved: cur.moved,
                                    },
                                );
                                m.hold(s, &f.path, (f.version, st));
                            }
                        }
                        if res.changed_files.iter().any(|f| f.path == DECL_FILE) {
                            m.fn_name = new.to_string();
                        }
                    }
                    Err(e) => trace.push(format!("#{i} s{s} rename_symbol -> {new} -> {:?}: {e}", e.kind())),
                }
            }
            HOp::Noise { s, kind, path } => {
                let s = *s as usize % nsess;
                let p = m.resolve(path);
                let tok = tokens[s].as_str();
                let what = match kind % 8 {
                    0 => ide.list_sources(tok).map(|_| ()).map_err(|e| e.kind()),
                    1 => ide.list_tree(tok).map(|_| ()).map_err(|e| e.kind()),
                    2 => ide
                        .workspace_search(tok, "program", None, None, 50)
                        .map(|_| ())
                        .map_err(|e| e.kind()),
                    3 => ide.diagnostics(tok, &p, None).map(|_| ()).map_err(|e| e.kind()),
                    4 => ide
                        .diagnostics(tok, &p, Some("PROGRAM Unsaved\nVAR q : INT; END_VAR\nEND_PROGRAM\n".to_string()))
                        .map(|_| ())
                        .map_err(|e| e.kind()),
                    5 => ide.format_source(tok, &p, None).map(|_| ()).map_err(|e| e.kind()),
                    6 => ide.workspace_symbols(tok, "", 50).map(|_| ()).map_err(|e| e.kind()),
                    _ => {
                        let first = ide
                            .diagnostics(tok, &p, Some("PROGRAM Unsaved2\nVAR k : INT; END_VAR\nEND_PROGRAM\n".to_string()))
                            .map(|_| ())
                            .map_err(|e| e.kind());
                        let other = tokens[(s + 1) % nsess].as_str();
                        let second = ide.diagnostics(other, &p, None).map(|_| ()).map_err(|e| e.kind());
                        first.and(second)
                    }
                };
                const NOISE: [&str; 8] = [
                    "list_sources", "list_tree", "workspace_search", "diagnostics",
                    "diagnostics(unsaved buffer)", "format_source", "workspace_symbols",
                    "diagnostics(unsaved buffer) + diagnostics by the next session",
                ];
                trace.push(format!("#{i} s{s} {} on {p:?} -> {what:?}", NOISE[(kind % 8) as usize]));
            }
        }
        if let Err(why) = super::moat().intact() {
            result = Err(fail(&trace, format!("a call reached above the scratch project: {why}")));
            break 'ops;
        }
        if let Err(e) = compare_disk(&project, &m) {
            result = Err(if e.starts_with("infrastructure:") { e } else { fail(&trace, e) });
            break 'ops;
        }
    }
    let _ = std::fs::remove_dir_all(&root);
    result?;

    probe.label(format!("hist_sessions={nsess}"));
    if structural_ok > 0 {
        probe.label("hist_delete_or_rename_ok");
    }
    if prefix_structural > 0 {
        probe.label("hist_prefix_sharing_delete_or_rename");
    }
    if stale_attempts > 0 {
        probe.label("hist_stale_write_attempted");
    }
    if stale_after_prefix_op > 0 {
        probe.label("hist_stale_write_after_prefix_sharing_op");
    }
    if stale_at_new_path > 0 {
        probe.label("hist_stale_write_to_file_at_its_new_path_after_rename");
    }
    if symbol_renames > 0 {
        probe.label("hist_rename_symbol_ok");
    }
    if conflicts > 0 {
        probe.label("hist_conflict_returned");
    }
    if spurious_conflicts > 0 {
        probe.label("hist_spurious_conflict_for_fresh_basis");
    }
    if excluded > 0 {
        probe.excluded("F32: versions remembered for a path NAME that ceased to exist (deleted, or renamed away - they travel to the new name) are not kept for a later re-creation of that name");
    }
    if stale_attempts > 0 && structural_ok > 0 {
        let key = serde_json::to_vec(case).unwrap_or_default();
        probe.nontrivial(&key);
        probe.sample(json!({
            "search": "history", "sessions": nsess, "calls": case.ops.len(), "writes": writes,
            "stale_write_attempts": stale_attempts, "stale_after_prefix_sharing_op": stale_after_prefix_op,
            "conflicts": conflicts, "deletes_renames_ok": structural_ok,
            "prefix_sharing_deletes_renames": prefix_structural,
        }));
    }
    Ok(())
}
