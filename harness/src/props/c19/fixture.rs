//! Scratch tree for the C19 path-confinement search and the directory snapshots the
//! oracle compares.
//!
//! ```text
//! S/outside_a/{secret_a.st, notes_a.txt, sub_a/inner_a.st}      canary files
//! S/outside_b/{only_b.txt}
//! S/project/{.env, .hidden_dir/{secret.txt, inner.st}, notes.txt,
//!            src/{main.st, lib.st, .secret.st, sub/deep.st}}
//!   + symlinks selected by the fixture bits (see `LINK_*`).
//! ```

use std::collections::{BTreeMap, BTreeSet};
use std::os::unix::fs::{symlink, MetadataExt};
use std::path::{Path, PathBuf};

use crate::engine::digest64;

/// `project/linkdir -> ../outside_a` (relative directory symlink).
pub const LINK_DIR_REL: u16 = 1;
/// `project/src/linkabs -> <S>/outside_b` (absolute directory symlink).
pub const LINK_DIR_ABS: u16 = 2;
/// `project/src/link.st -> ../../outside_a/secret_a.st` (file symlink).
pub const LINK_FILE: u16 = 4;
/// `project/src/dangling.st -> ../../outside_b/not_yet.st`, `project/src/danglingdir -> ../../outside_b/nodir`.
pub const LINK_DANGLING: u16 = 8;
/// `project/hidlink -> .hidden_dir` (symlink that stays inside the project but leads to a hidden entry).
pub const LINK_TO_HIDDEN: u16 = 16;
/// `project/src/inner_alias.st -> main.st`, `project/src/alias_dir -> sub` (legitimate internal links).
pub const LINK_INTERNAL: u16 = 32;
/// `project/src\..\..\outside_a\secret_a.st`: a regular file in the project root whose *name*
/// contains backslashes (what an editor session can create through `create_entry`).
pub const FILE_BACKSLASH_NAME: u16 = 64;
pub const ALL_BITS: u16 = 127;

/// Every canary token starts with this; no generated input ever contains it.
pub const CANARY: &str = "canary";

pub const MAIN_ST: &str = "PROGRAM Main\nVAR\n    counter : INT;\n    helper : Helper;\nEND_VAR\ncounter := counter + 1;\nhelper(x := counter);\nEND_PROGRAM\n";
pub const LIB_ST: &str = "FUNCTION_BLOCK Helper\nVAR_INPUT\n    x : INT;\nEND_VAR\nVAR\n    total : INT;\nEND_VAR\ntotal := total + x;\nEND_FUNCTION_BLOCK\n";
pub const DEEP_ST: &str = "FUNCTION Deep : INT\nVAR_INPUT a : INT; END_VAR\nDeep := a + 1;\nEND_FUNCTION\n";

fn canary_st(token: &str) -> String {
    let low = token.to_ascii_lowercase();
    format!(
        "FUNCTION_BLOCK {token}_Fb (* {token} *)\nVAR_INPUT {low}_in : INT; END_VAR (* {token} *)\n{low}_in := {low}_in + 1; (* {token} *)\nEND_FUNCTION_BLOCK (* {token} *)\n"
    )
}

fn canary_txt(token: &str) -> String {
    format!("{token} line one program var end\n{token} line two := a e i\n")
}

pub struct Fixture {
    /// The scratch root `S`.
    pub s: PathBuf,
    pub project: PathBuf,
}

fn io<T>(what: &str, r: std::io::Result<T>) -> Result<T, String> {
    r.map_err(|e| format!("fixture: {what}: {e}"))
}

impl Fixture {
    /// (Re)create the scratch tree at `s`. An `Err` is infrastructure trouble, not a finding.
    pub fn build(s: &Path, bits: u16) -> Result<Fixture, String> {
        if s.symlink_metadata().is_ok() {
            io("remove old tree", std::fs::remove_dir_all(s))?;
        }
        let project = s.join("project");
        for d in [
            "outside_a/sub_a",
            "outside_b",
            "project/.hidden_dir",
            "project/src/sub",
        ] {
            io("mkdir", std::fs::create_dir_all(s.join(d)))?;
        }
        let files: [(&str, String); 12] = [
            ("outside_a/secret_a.st", canary_st("CANARYOUTAQ7")),
            ("outside_a/notes_a.txt", canary_txt("CANARYOUTAN4")),
            ("outside_a/sub_a/inner_a.st", canary_st("CANARYOUTAI9")),
            ("outside_b/only_b.txt", canary_txt("CANARYOUTBK3")),
            ("project/.env", canary_txt("CANARYHIDE1X")),
            ("project/.hidden_dir/secret.txt", canary_txt("CANARYHIDD2Y")),
            ("project/.hidden_dir/inner.st", canary_st("CANARYHIDS3Z")),
            ("project/src/.secret.st", canary_st("CANARYHIDN4W")),
            ("project/notes.txt", "project notes program var end\n".to_string()),
            ("project/src/main.st", MAIN_ST.to_string()),
            ("project/src/lib.st", LIB_ST.to_string()),
            ("project/src/sub/deep.st", DEEP_ST.to_string()),
        ];
        for (rel, text) in files {
            io("write", std::fs::write(s.join(rel), text))?;
        }
        if bits & LINK_DIR_REL != 0 {
            io("symlink", symlink("../outside_a", project.join("linkdir")))?;
        }
        if bits & LINK_DIR_ABS != 0 {
            io("symlink", symlink(s.join("outside_b"), project.join("src/linkabs")))?;
        }
        if bits & LINK_FILE != 0 {
            io(
                "symlink",
                symlink("../../outside_a/secret_a.st", project.join("src/link.st")),
            )?;
        }
        if bits & LINK_DANGLING != 0 {
            io(
                "symlink",
                symlink("../../outside_b/not_yet.st", project.join("src/dangling.st")),
            )?;
            io(
                "symlink",
                symlink("../../outside_b/nodir", project.join("src/danglingdir")),
            )?;
        }
        if bits & LINK_TO_HIDDEN != 0 {
            io("symlink", symlink(".hidden_dir", project.join("hidlink")))?;
        }
        if bits & LINK_INTERNAL != 0 {
            io("symlink", symlink("main.st", project.join("src/inner_alias.st")))?;
            io("symlink", symlink("sub", project.join("src/alias_dir")))?;
        }
        if bits & FILE_BACKSLASH_NAME != 0 {
            io(
                "write",
                std::fs::write(
                    project.join("src\\..\\..\\outside_a\\secret_a.st"),
                    "PROGRAM WinName\nEND_PROGRAM\n",
                ),
            )?;
        }
        Ok(Fixture {
            s: s.to_path_buf(),
            project,
        })
    }

    pub fn remove(&self) {
        let _ = std::fs::remove_dir_all(&self.s);
    }
}

#[derive(Clone, Debug, PartialEq, Eq)]
pub enum Entry {
    Dir,
    File { len: u64, hash: u64, mtime_ns: i128, canary: bool },
    Link { target: String },
    Other,
}

/// Path (relative to `S`, `/`-separated, raw bytes lossily decoded) -> entry. Symlinks are
/// never followed.
pub type Snapshot = BTreeMap<String, Entry>;

pub fn snapshot(s: &Path) -> Result<Snapshot, String> {
    let mut out = Snapshot::new();
    walk(s, "", &mut out)?;
    Ok(out)
}

fn walk(dir: &Path, rel: &str, out: &mut Snapshot) -> Result<(), String> {
    let rd = io("read_dir", std::fs::read_dir(dir))?;
    for e in rd {
        let e = io("dir entry", e)?;
        let name = e.file_name().to_string_lossy().to_string();
        let child_rel = if rel.is_empty() {
            name.clone()
        } else {
            format!("{rel}/{name}")
        };
        let path = e.path();
        let meta = io("lstat", std::fs::symlink_metadata(&path))?;
        let ft = meta.file_type();
        if ft.is_symlink() {
            let target = io("readlink", std::fs::read_link(&path))?;
            out.insert(
                child_rel,
                Entry::Link {
                    target: target.to_string_lossy().to_string(),
                },
            );
        } else if ft.is_dir() {
            out.insert(child_rel.clone(), Entry::Dir);
            walk(&path, &child_rel, out)?;
        } else if ft.is_file() {
            let bytes = io("read", std::fs::read(&path))?;
            let canary = String::from_utf8_lossy(&bytes)
                .to_ascii_lowercase()
                .contains(CANARY);
            out.insert(
                child_rel,
                Entry::File {
                    len: bytes.len() as u64,
                    hash: digest64(&bytes),
                    mtime_ns: meta.mtime() as i128 * 1_000_000_000 + meta.mtime_nsec() as i128,
                    canary,
                },
            );
        } else {
            out.insert(child_rel, Entry::Other);
        }
    }
    Ok(())
}

pub fn is_project_path(rel: &str) -> bool {
    rel == "project" || rel.starts_with("project/")
}

/// True when a component *inside the project* starts with a dot.
pub fn is_hidden_project_path(rel: &str) -> bool {
    match rel.strip_prefix("project/") {
        Some(inner) => inner.split('/').any(|c| c.starts_with('.')),
        None => false,
    }
}

/// First few differences between two snapshots, restricted to paths accepted by `keep`.
pub fn diff(before: &Snapshot, after: &Snapshot, keep: impl Fn(&str) -> bool) -> Vec<String> {
    let mut out = Vec::new();
    for (p, e) in before {
        if !keep(p) {
            continue;
        }
        match after.get(p) {
            None => out.push(format!("removed {p:?} ({})", short(e))),
            Some(a) if a != e => out.push(format!("changed {p:?}: {} -> {}", short(e), short(a))),
            _ => {}
        }
    }
    for (p, e) in after {
        if keep(p) && !before.contains_key(p) {
            out.push(format!("created {p:?} ({})", short(e)));
        }
    }
    out.truncate(6);
    out
}

fn short(e: &Entry) -> String {
    match e {
        Entry::Dir => "dir".into(),
        Entry::File { len, hash, .. } => format!("file {len} B #{:08x}", *hash as u32),
        Entry::Link { target } => format!("link -> {target}"),
        Entry::Other => "other".into(),
    }
}

/// The set of listing paths that the project itself justifies: every non-hidden entry
/// reachable from the project root, descending into a symlinked directory only when its
/// canonical target stays inside the canonical project root and is not hidden. Names are
/// given both raw and with `\` mapped to `/` (the API's display mapping).
pub fn legit_listing(project: &Path) -> BTreeSet<String> {
    let mut out = BTreeSet::new();
    let Ok(canon_root) = project.canonicalize() else {
        return out;
    };
    legit_walk(project, &canon_root, "", 0, &mut out);
    out
}

fn stays_inside(target: &Path, canon_root: &Path) -> bool {
    match target.strip_prefix(canon_root) {
        Ok(inner) => !inner
            .components()
            .any(|c| c.as_os_str().to_string_lossy().starts_with('.')),
        Err(_) => false,
    }
}

fn legit_walk(dir: &Path, canon_root: &Path, rel: &str, depth: usize, out: &mut BTreeSet<String>) {
    if depth > 12 {
        return;
    }
    let Ok(rd) = std::fs::read_dir(dir) else {
        return;
    };
    for e in rd.flatten() {
        let name = e.file_name().to_string_lossy().to_string();
        if name.starts_with('.') {
            continue;
        }
        let child_rel = if rel.is_empty() {
            name.clone()
        } else {
            format!("{rel}/{name}")
        };
        out.insert(child_rel.clone());
        out.insert(child_rel.replace('\\', "/"));
        let path = e.path();
        let Ok(meta) = std::fs::symlink_metadata(&path) else {
            continue;
        };
        if meta.file_type().is_symlink() {
            if let Ok(target) = path.canonicalize() {
                if target.is_dir() && stays_inside(&target, canon_root) {
                    legit_walk(&path, canon_root, &child_rel, depth + 1, out);
                }
            }
        } else if meta.is_dir() {
            legit_walk(&path, canon_root, &child_rel, depth + 1, out);
        }
    }
}
