//! Generator of path strings and API call sequences for the C19 confinement search.
//! Everything is a deterministic function of a choice tape; low tape values give the
//! simple choices (plain existing path, editor session, write enabled).

use serde::{Deserialize, Serialize};

use super::{fixture, guard};
use crate::engine::tape::{Reader, Tape};

#[derive(Clone, Copy, Debug, Serialize, Deserialize, PartialEq, Eq, PartialOrd, Ord)]
pub enum Op {
    OpenSource,
    ListSources,
    ListTree,
    CreateFile,
    CreateDir,
    ApplySource,
    RenameEntry,
    DeleteEntry,
    WorkspaceSearch,
    FormatSource,
    Diagnostics,
    Hover,
    Completion,
    Definition,
    References,
    RenameSymbol,
    FileSymbols,
    WorkspaceSymbols,
    BrowseDirectory,
    ProjectSelection,
    SetActiveProject,
}

impl Op {
    /// Operations that are allowed to change the project (for an editor, write enabled).
    pub fn is_mutating(self) -> bool {
        matches!(
            self,
            Op::CreateFile
                | Op::CreateDir
                | Op::ApplySource
                | Op::RenameEntry
                | Op::DeleteEntry
                | Op::RenameSymbol
        )
    }
    /// Project picker: looks outside the project by design, not under the confinement oracle.
    pub fn is_picker(self) -> bool {
        matches!(
            self,
            Op::BrowseDirectory | Op::ProjectSelection | Op::SetActiveProject
        )
    }
    /// Operations whose reply enumerates workspace paths.
    pub fn is_listing(self) -> bool {
        matches!(
            self,
            Op::ListSources
                | Op::ListTree
                | Op::WorkspaceSearch
                | Op::WorkspaceSymbols
                | Op::FileSymbols
                | Op::Definition
                | Op::References
                | Op::RenameSymbol
                | Op::Diagnostics
                | Op::Hover
                | Op::Completion
        )
    }
}

#[derive(Clone, Debug, Serialize, Deserialize, PartialEq, Eq)]
pub enum Sess {
    Editor,
    Viewer,
    /// A fresh session of the given role, then the injected clock is advanced by `after`
    /// seconds (>= the 900 s TTL) before the call.
    Expired { editor: bool, after: u64 },
    /// An editor session used 899 s after its last renewal: still valid (boundary).
    AlmostExpired,
    /// A token the server never issued (variants derived from a live editor token).
    Unknown { variant: u8 },
}

#[derive(Clone, Debug, Serialize, Deserialize)]
pub struct Call {
    pub op: Op,
    pub session: Sess,
    pub write_enabled: bool,
    /// `{S}` stands for the absolute path of the scratch root.
    pub path: String,
    /// rename target / include glob
    #[serde(default)]
    pub path2: String,
    /// exclude glob
    #[serde(default)]
    pub path3: String,
    /// file content / search query / new symbol name
    #[serde(default)]
    pub text: Option<String>,
    /// apply_source: 0 = version from a preceding open by the same session, else literal - 1
    #[serde(default)]
    pub expected: u64,
    #[serde(default)]
    pub line: u32,
    #[serde(default)]
    pub character: u32,
}

#[derive(Clone, Debug, Serialize, Deserialize)]
pub struct PathCase {
    /// fixture bits (`fixture::LINK_*`)
    pub links: u16,
    pub calls: Vec<Call>,
    /// true = replay of a recorded reproducer: no known-finding exclusion is applied
    #[serde(default)]
    pub raw: bool,
}

/// Paths that mean something in the fixture (existing entries, creatable names, symlinks,
/// hidden entries, traversals to canary files, absolute forms).
pub const BASES: &[&str] = &[
    "src/main.st",
    "src/lib.st",
    "src/sub/deep.st",
    "notes.txt",
    "src",
    "src/sub",
    "src/new.st",
    "newdir/new.st",
    "newdir",
    "newdir/a/b",
    "src/sub/n.st",
    "fresh.st",
    // symlinks
    "linkdir",
    "linkdir/secret_a.st",
    "linkdir/via_link.st",
    "linkdir/sub_a/inner_a.st",
    "linkdir/made/deeper",
    "linkdir/notes_a.txt",
    "src/linkabs",
    "src/linkabs/only_b.txt",
    "src/linkabs/new_b.st",
    "src/link.st",
    "src/dangling.st",
    "src/danglingdir",
    "src/danglingdir/x.st",
    "src/inner_alias.st",
    "src/alias_dir/deep.st",
    "src/alias_dir/new2.st",
    "hidlink",
    "hidlink/secret.txt",
    "hidlink/inner.st",
    "hidlink/new_h.st",
    // hidden
    ".env",
    ".hidden_dir",
    ".hidden_dir/secret.txt",
    ".hidden_dir/inner.st",
    ".hidden_dir/new.st",
    "src/.secret.st",
    "src/.new.st",
    ".git/config",
    "src/sub/.x/y.st",
    // traversal
    "..",
    "../outside_a/secret_a.st",
    "../outside_a",
    "../outside_a/new_a.st",
    "../outside_b/only_b.txt",
    "../outside_b/new_b.st",
    "src/../../outside_a/secret_a.st",
    "src/sub/../../../outside_a/notes_a.txt",
    "../project/src/main.st",
    "../..",
    "src/../.env",
    "src/../src/main.st",
    "nonexistent/../../outside_a/secret_a.st",
    "src/main.st/../../../outside_b/only_b.txt",
    // absolute
    "{S}/outside_a/secret_a.st",
    "{S}/outside_b/new_abs.st",
    "{S}/outside_a",
    "{S}/project/src/main.st",
    "{S}/project/.env",
    "{S}",
    "src/sub",
];

const COMPONENTS: &[&str] = &[
    "src", "main.st", "lib.st", "sub", "deep.st", "notes.txt", "new.st", "newdir", "x", "n1.st",
    "..", ".", "", "...", "....", ". .", ".. ", " ..", ".env", ".hidden_dir", "secret.txt",
    ".secret.st", ".git", ".", "outside_a", "outside_b", "project", "secret_a.st", "only_b.txt",
    "notes_a.txt", "linkdir", "link.st", "linkabs", "dangling.st", "danglingdir", "hidlink",
    "inner_alias.st", "alias_dir", "..\\", "..\\..", "%2e%2e", "%2E%2E%2F", "%2f", "..%2f",
    "%00", "%252e%252e", "%c0%ae%c0%ae", "\u{2024}\u{2024}", "\u{ff0e}\u{ff0e}", "\u{2025}",
    "\u{2215}", "\u{ff0f}", "\u{29f8}", "\u{3002}\u{3002}", "\u{0}", "a\u{0}b", "~", "C:",
    "\\\\server\\share", "con", "a b", " lead", "trail ", "\t", "\n", "*", "?", "[",
];

pub const QUERIES: &[&str] = &[
    "canary", "program", "var", "end", "e", ":=", "Main", "helper", "CANARY", "in", "line", " ",
    "", "zzzz-no-hit",
];

const GLOBS: &[&str] = &[
    "**/*.st", "*", "**", "src/**", "../**", "linkdir/**", "**/.*", "**/secret*", "/**",
    "{S}/**", "{S}/outside_a/*", "src/../../outside_a/*", "[", "**/*.txt", ".hidden_dir/*",
    "src/*.st", "hidlink/*", "?rc/*", "[!a]*", "***", "**/../*", "a/**/b", "\\**", "src\\*",
];

/// Entries that exist in the full fixture (rename sources).
const EXISTING: &[&str] = &[
    "src/main.st", "src/lib.st", "src/sub/deep.st", "notes.txt", "src", "src/link.st",
    "src/dangling.st", "linkdir", "src/linkabs", "hidlink", "src/inner_alias.st", "src/alias_dir",
    "linkdir/secret_a.st", "hidlink/secret.txt", "src/.secret.st", ".env", "src/sub",
];

/// Names that do not exist yet (rename targets), harmless and hostile.
const FRESH: &[&str] = &[
    "moved.st", "newdir/moved.st", "src/moved", "src/sub/renamed.st", "made/a/b/moved.st",
    "hidlink/moved.st", "linkdir/moved.st", "src/linkabs/moved.st", ".moved", ".hidden_dir/moved.st",
    "../moved.st", "src/sub/../../../outside_b/moved.st", "src\\..\\..\\outside_b\\moved.st",
    "{S}/outside_b/moved.st", "src/danglingdir/moved.st", "src/alias_dir/moved.st", "renamed_dir",
];

const NEW_NAMES: &[&str] = &["renamed", "Helper2", "x", "counter", "Main", "1bad", "", "a b", "IF"];

fn long_component() -> String {
    "L".repeat(300)
}

fn assemble(r: &mut Reader) -> String {
    let n = 1 + r.pick(5);
    let mut s = String::new();
    for i in 0..n {
        if i > 0 {
            s.push_str(match r.weighted(&[12, 2, 2, 1, 1]) {
                0 => "/",
                1 => "//",
                2 => "\\",
                3 => "/./",
                _ => "\\/",
            });
        }
        s.push_str(COMPONENTS[r.pick(COMPONENTS.len())]);
    }
    s
}

fn replace_first(s: &str, from: &str, to: &str) -> String {
    s.replacen(from, to, 1)
}

fn decorate(r: &mut Reader, s: String) -> String {
    match r.pick(40) {
        0 => s.replace('/', "\\"),
        1 => replace_first(&s, "/", "\\"),
        2 => s.replace('/', "\\/"),
        3 => s.replace("..", "%2e%2e"),
        4 => s.replace('/', "%2f"),
        5 => s.replace('.', "%2e"),
        6 => s.replace("..", "%252e%252e"),
        7 => s.replace('.', "\u{ff0e}"),
        8 => s.replace('.', "\u{2024}"),
        9 => s.replace("..", "\u{2025}"),
        10 => s.replace('/', "\u{2215}"),
        11 => s.replace('/', "\u{ff0f}"),
        12 => format!("{s}\u{0}"),
        13 => format!("{s}\u{0}.st"),
        14 => replace_first(&s, "/", "\u{0}/"),
        15 => format!("{}/{s}", long_component()),
        16 => format!("{s}/{}.st", long_component()),
        17 => format!("{}{s}", "x/".repeat(2100)),
        18 => format!("{s}/"),
        19 => format!("{s}/."),
        20 => format!("{s}/.."),
        21 => format!("{s}//"),
        22 => format!(" {s}"),
        23 => format!("{s} "),
        24 => format!("\t{s}\n"),
        25 => format!("./{s}"),
        26 => replace_first(&s, "/", "/./"),
        27 => s.replace('/', "//"),
        28 => format!("../{s}"),
        29 => format!("/{s}"),
        30 => format!("{{S}}/project/{s}"),
        31 => s.to_ascii_uppercase(),
        32 => format!("{s}.st"),
        33 => format!("{s}/extra.st"),
        34 => format!("src/../{s}"),
        35 => format!("{s}/../{s}"),
        36 => replace_first(&s, "..", ". ."),
        37 => format!("{}/../{s}", long_component()),
        38 => format!("linkdir/../{s}"),
        _ => format!("src\\..\\{s}"),
    }
}

pub fn gen_path(r: &mut Reader) -> String {
    let mut s = match r.weighted(&[10, 3]) {
        0 => BASES[r.pick(BASES.len())].to_string(),
        _ => assemble(r),
    };
    let ndec = r.weighted(&[6, 4, 2]);
    for _ in 0..ndec {
        s = decorate(r, s);
        if s.len() > 12_000 {
            break;
        }
    }
    s
}

fn gen_glob(r: &mut Reader) -> String {
    match r.weighted(&[6, 5, 3]) {
        0 => String::new(),
        1 => GLOBS[r.pick(GLOBS.len())].to_string(),
        _ => {
            let p = gen_path(r);
            match r.pick(3) {
                0 => p,
                1 => format!("{p}/**"),
                _ => format!("{p}*"),
            }
        }
    }
}

fn gen_content(r: &mut Reader) -> String {
    let n = r.pick(1000);
    match r.weighted(&[6, 2, 1, 1]) {
        0 => format!(
            "PROGRAM Gen{n}\nVAR\n    v{n} : INT;\n    helper : Helper;\nEND_VAR\nv{n} := v{n} + {n};\nEND_PROGRAM\n"
        ),
        1 => format!("text {n}\n"),
        2 => String::new(),
        _ => format!("FUNCTION_BLOCK Helper\nVAR_INPUT x : INT; y{n} : INT; END_VAR\nEND_FUNCTION_BLOCK\n"),
    }
}

const OPS: &[(Op, u32)] = &[
    (Op::OpenSource, 10),
    (Op::ListSources, 4),
    (Op::ListTree, 4),
    (Op::CreateFile, 10),
    (Op::CreateDir, 6),
    (Op::ApplySource, 10),
    (Op::DeleteEntry, 8),
    (Op::WorkspaceSearch, 8),
    (Op::FormatSource, 3),
    (Op::Diagnostics, 2),
    (Op::Hover, 2),
    (Op::Completion, 1),
    (Op::Definition, 2),
    (Op::References, 2),
    (Op::RenameSymbol, 3),
    (Op::FileSymbols, 2),
    (Op::WorkspaceSymbols, 2),
    (Op::RenameEntry, 10),
];

const PICKERS: &[Op] = &[Op::BrowseDirectory, Op::ProjectSelection, Op::SetActiveProject];

fn gen_session(r: &mut Reader) -> Sess {
    match r.weighted(&[10, 3, 3, 1, 4]) {
        0 => Sess::Editor,
        1 => Sess::Unknown {
            variant: r.pick(6) as u8,
        },
        2 => Sess::Expired {
            editor: r.chance(3, 4),
            after: *r.choose(&[900u64, 901, 3600, 1 << 40]),
        },
        3 => Sess::AlmostExpired,
        _ => Sess::Viewer,
    }
}

fn gen_call(r: &mut Reader, op: Op) -> Call {
    let session = gen_session(r);
    let write_enabled = r.chance(5, 6);
    let mut call = Call {
        op,
        session,
        write_enabled,
        path: String::new(),
        path2: String::new(),
        path3: String::new(),
        text: None,
        expected: 0,
        line: 0,
        character: 0,
    };
    match op {
        Op::ListSources | Op::ListTree | Op::ProjectSelection => {}
        Op::OpenSource | Op::DeleteEntry | Op::CreateDir => call.path = gen_path(r),
        Op::CreateFile => {
            call.path = gen_path(r);
            call.text = if r.chance(4, 5) { Some(gen_content(r)) } else { None };
        }
        Op::ApplySource => {
            call.path = gen_path(r);
            call.text = Some(gen_content(r));
            call.expected = match r.weighted(&[8, 1, 2, 1, 1]) {
                0 => 0,
                1 => 1,
                2 => 2,
                3 => 3,
                _ => u64::MAX,
            };
        }
        Op::RenameEntry => {
            call.path = if r.chance(1, 2) { gen_path(r) } else { EXISTING[r.pick(EXISTING.len())].to_string() };
            call.path2 = if r.chance(1, 2) { gen_path(r) } else { FRESH[r.pick(FRESH.len())].to_string() };
        }
        Op::WorkspaceSearch => {
            call.text = Some(QUERIES[r.pick(QUERIES.len())].to_string());
            call.path2 = gen_glob(r);
            call.path3 = if r.chance(1, 3) { gen_glob(r) } else { String::new() };
        }
        Op::WorkspaceSymbols => {
            call.text = Some(if r.chance(1, 2) { String::new() } else { QUERIES[r.pick(QUERIES.len())].to_string() });
        }
        Op::FileSymbols => {
            call.path = gen_path(r);
            call.text = Some(String::new());
        }
        Op::FormatSource | Op::Diagnostics => {
            call.path = gen_path(r);
            call.text = if r.chance(2, 3) { None } else { Some(gen_content(r)) };
        }
        Op::Hover | Op::Completion | Op::Definition | Op::References | Op::RenameSymbol => {
            call.path = gen_path(r);
            call.text = if r.chance(3, 4) { None } else { Some(gen_content(r)) };
            if r.chance(1, 2) {
                // on a symbol of the fixture's src/main.st
                let (l, c) = *r.choose(&[(2u32, 4u32), (3, 4), (3, 13), (5, 0), (6, 0), (6, 7), (5, 11)]);
                call.line = l;
                call.character = c;
                if r.chance(1, 2) {
                    call.path = "src/main.st".to_string();
                }
            } else {
                call.line = r.pick(9) as u32;
                call.character = r.pick(24) as u32;
            }
            if op == Op::RenameSymbol {
                call.path2 = NEW_NAMES[r.pick(NEW_NAMES.len())].to_string();
            }
        }
        Op::BrowseDirectory | Op::SetActiveProject => call.path = gen_path(r),
    }
    // containment: no generated string may be able to name anything outside the scratch moat,
    // whatever the implementation under test does with it (see guard.rs)
    call.path = guard::sanitize(std::mem::take(&mut call.path));
    call.path2 = guard::sanitize(std::mem::take(&mut call.path2));
    call.path3 = guard::sanitize(std::mem::take(&mut call.path3));
    call
}

pub fn case_from_tape(tape: &Tape) -> PathCase {
    let mut r = Reader::new(tape);
    // low values = the full fixture (all links present)
    let mut links = fixture::ALL_BITS & !fixture::FILE_BACKSLASH_NAME;
    if !r.chance(2, 3) {
        links &= !(r.pick(64) as u16);
    }
    if !r.chance(7, 8) {
        links |= fixture::FILE_BACKSLASH_NAME;
    }
    let n = 1 + r.weighted(&[3, 4, 4, 3, 2, 1]);
    let weights: Vec<u32> = OPS.iter().map(|(_, w)| *w).collect();
    let mut calls = Vec::new();
    for i in 0..n {
        if i > 0 && r.exhausted() {
            break;
        }
        let op = OPS[r.weighted(&weights)].0;
        calls.push(gen_call(&mut r, op));
    }
    // the project picker only as the last call of a case (it may switch the active root)
    if !r.chance(11, 12) {
        let op = PICKERS[r.pick(PICKERS.len())];
        calls.push(gen_call(&mut r, op));
    }
    PathCase {
        links,
        calls,
        raw: false,
    }
}

/// Adversarial classes present in a path string (for labels and the non-triviality rule).
pub fn classes(path: &str) -> Vec<&'static str> {
    let mut out = Vec::new();
    let comps: Vec<&str> = path.split(['/', '\\']).collect();
    if comps.iter().any(|c| c.trim() == "..") || path.contains("%2e%2e") {
        out.push("traversal");
    }
    if comps
        .iter()
        .any(|c| c.starts_with('.') && *c != "." && *c != "..")
    {
        out.push("hidden");
    }
    if ["linkdir", "link.st", "linkabs", "dangling", "hidlink", "inner_alias", "alias_dir"]
        .iter()
        .any(|n| path.contains(n))
    {
        out.push("symlink");
    }
    if path.trim_start().starts_with('/') || path.contains("{S}") {
        out.push("absolute");
    }
    if path.contains('\\') {
        out.push("backslash");
    }
    if path.contains('%') {
        out.push("percent");
    }
    if !path.is_ascii() {
        out.push("unicode");
    }
    if path.contains('\u{0}') {
        out.push("nul");
    }
    if path.len() > 255 {
        out.push("long");
    }
    if path != path.trim() {
        out.push("spaces");
    }
    if path.ends_with('/') || path.contains("//") || path.contains("/./") || path.is_empty() {
        out.push("dots_empty_trailing");
    }
    out
}
