//! C01 - every scan cycle ends in success or a value-dependent fault, never a crash.
//!
//! Domain: (a) `stgen` in its widest strict configuration, extended at text level by
//! `c01/ext.rs` (standard functions at type extremes, bit strings, strings, date/time
//! functions, conversions, REF_TO, 1-3-dim indices, faulting local / VAR_TEMP initialisers,
//! EN/ENO, classes / methods with THIS and SUPER, task-associated FB instance, AT-bound
//! variables); (b) token-level type-perturbing mutations of such programs (`c01/mutate.rs`).
//! Acceptance is decided by the compiler itself (`TestHarness::from_source`).
//! Oracle: `c01/oracle.rs` (exactly the property statement). Failures of mutated programs
//! are matched against the signatures of OPEN known findings (`c01/sig.rs`).

use std::sync::atomic::{AtomicU64, Ordering};
use std::sync::{Mutex, OnceLock};

use proptest::prelude::*;
use proptest::strategy::ValueTree;
use serde::{Deserialize, Serialize};
use serde_json::json;

use crate::engine::tape::{tape_strategy, Reader, Tape};
use crate::engine::{catch, Probe, PropertyInfo, RunCtx};
use crate::stgen::ast::*;
use crate::stgen::print::{print_program, PrintOpts};
use crate::stgen::{generate, GenConfig};

#[path = "c01/context.rs"]
pub mod context;
#[path = "c01/ext.rs"]
pub mod ext;
#[path = "c01/handmade.rs"]
mod handmade;
#[path = "c01/mutate.rs"]
pub mod mutate;
#[path = "c01/oracle.rs"]
pub mod oracle;
#[path = "c01/sig.rs"]
pub mod sig;

use ext::T;
use oracle::{CycleIn, Scalar, Write, XTrace};

pub fn info() -> PropertyInfo {
    PropertyInfo {
        id: "C01",
        level: "exploration",
        rule: "cases = (a) stgen programs in the widest strict dial extended with standard functions at type extremes, bit-string shifts/rotations, string functions with out-of-range positions, TIME/DATE/TOD/DT(+L) functions at the representable limits, all checker-allowed *_TO_* conversions, REF_TO incl. NULL dereference, 1-3-dim subscripts at/beyond bounds, FUNCTION/METHOD locals and FB VAR_TEMP with faulting initialisers, EN/ENO, classes/FBs with THIS/SUPER, a task-associated FB instance, AT-bound variables; (b) 1-2 token-level type-perturbing mutations of such programs; x traces of 1-6 cycles with variable writes, direct-input writes and clock steps. A case counts when the compiler (TestHarness::from_source) accepts it; rejected programs are outside the domain and counted. non-trivial = accepted, >= 1 cycle executed, and the program contains a call, loop, CASE, subscript or boundary literal; distinct by SHA-256 of (source, trace)",
        assumptions: &[
            "harness built with overflow-checks and debug-assertions (the repository's dev/test profile): an arithmetic-overflow panic counts as a panic",
            "execution deadline 2 s per cycle (normal: microseconds); ExecutionTimeout is a permitted budget fault; a cycle that returns later than 50x the deadline is reported",
            "worker address space limited to 4 GiB; a worker killed by a signal (stack overflow, abort) is attributed to the journalled case",
            "clock: Runtime::set_current_time with a saturating sum (Runtime::advance_time itself adds unchecked; an uptime beyond 292 years is not explored)",
            "open known findings F4 F5 F6 F8 F23 F24 (+ those listed in known_findings.d/C01.json) are excluded by construction in (a) and recognised by error variant + syntactic shape of the faulting statement in (b)",
        ],
        workers_quick: 8,
        workers_thorough: 16,
        address_space_limit: 4 << 30,
        watchdog_quick_s: 3600,
        watchdog_thorough_s: 10800,
        run,
    }
}

/// Which known findings are open (decides the generator dials and the signatures in force).
#[derive(Clone, Debug, Default)]
pub struct Dials {
    pub open: Vec<String>,
}

impl Dials {
    pub fn is_open(&self, prefix: &str) -> bool {
        self.open.iter().any(|k| k.starts_with(prefix))
    }
}

static DIALS: OnceLock<Dials> = OnceLock::new();

fn dials() -> Dials {
    DIALS.get().cloned().unwrap_or_else(|| {
        // helper subcommands: read the findings directly
        let open = crate::engine::load_known_findings()
            .into_iter()
            .filter(|f| f.property == "C01" && f.status == "open")
            .map(|f| f.key)
            .collect();
        Dials { open }
    })
}

#[derive(Clone, Debug, Serialize, Deserialize)]
pub struct Case {
    #[serde(default = "empty_tape")]
    pub prog_tape: Tape,
    #[serde(default = "empty_tape")]
    pub trace_tape: Tape,
    #[serde(default = "empty_tape")]
    pub ext_tape: Tape,
    #[serde(default = "empty_tape")]
    pub mut_tape: Tape,
    #[serde(default)]
    pub print_bits: u8,
    /// "base" | "mutated"
    #[serde(default)]
    pub mode: String,
    /// The text that is compiled (after extension and mutation). A replay file is judged
    /// from `source` + `trace` alone, so it survives generator changes.
    #[serde(default)]
    pub source: String,
    /// Text before mutation (mode "mutated").
    #[serde(default)]
    pub base_source: String,
    #[serde(default)]
    pub mutations: Vec<mutate::Applied>,
    #[serde(default)]
    pub trace: XTrace,
    /// Context-aware mutation: where it was applied (None: legacy token-level mutation).
    #[serde(default)]
    pub site: Option<mutate::SiteInfo>,
    /// Settable inputs (instance | "" for globals | "%" for direct addresses, name, type):
    /// the alternative traces that try to reach a mutated site are synthesised from these.
    #[serde(default)]
    pub inputs: Vec<(String, String, String)>,
    #[serde(default)]
    pub features: Vec<String>,
    #[serde(default)]
    pub excluded: Vec<String>,
    /// Execution deadline per cycle for this case (None: 2 s). The non-terminating class uses
    /// 200 ms, the tiny-deadline class 0 ms.
    #[serde(default)]
    pub deadline_ms: Option<u64>,
}

fn empty_tape() -> Tape {
    Tape { data: vec![] }
}

fn gen_config(d: &Dials) -> GenConfig {
    let mut cfg = GenConfig::strict_core();
    cfg.max_stmts = 30;
    cfg.max_cycles = 6;
    cfg.features.pow = true;
    // paired extremes in expressions and boundary bursts in the trace (C02's dials)
    cfg.boundary_pairs = true;
    cfg.trace_boundary_bursts = true;
    // shapes of C01's own findings: generated as soon as the finding is no longer open
    cfg.features.case_unsigned = !d.is_open("F3-");
    cfg.features.case_enum = !d.is_open("F3-");
    cfg.features.return_in_program = !d.is_open("F26-");
    cfg
}

fn ext_config(d: &Dials) -> ext::ExtCfg {
    ext::ExtCfg {
        neg_shift_count: !d.is_open("F34-"),
        non_ascii_strings: !d.is_open("F35-"),
        int_pow_negative: !d.is_open("F23-"),
        at_unsupported_types: !d.is_open("F33-"),
        task_fb: !d.is_open("F7-"),
        jmp_nested: !d.is_open("F51-"),
        invalid_bcd: !d.is_open("F38-"),
        string_to_char_any: !d.is_open("F39-"),
        max_stmts: 14,
    }
}

fn scalar_for(t: T, r: &mut Reader<'_>) -> Scalar {
    let bits: u64 = match t {
        T::Bool => r.flag() as u64,
        T::Real => {
            const V: [f32; 8] = [0.0, 1.0, -1.0, 3.0e38, -3.0e38, 1.0e-38, 0.5, 1.0e10];
            V[r.pick(V.len())].to_bits() as u64
        }
        T::LReal => {
            const V: [f64; 8] = [0.0, 1.0, -1.0, 1.0e308, -1.0e308, 1.0e-308, 0.5, 1.0e19];
            V[r.pick(V.len())].to_bits()
        }
        T::Time | T::LTime => {
            const V: [i64; 8] = [0, 1, -1, 1_000_000, i64::MAX, i64::MIN, 86_400_000_000_000, -5_000_000];
            V[r.pick(V.len())] as u64
        }
        _ => {
            let w = t.width();
            let mask: u64 = if w >= 64 { u64::MAX } else { (1u64 << w) - 1 };
            match r.weighted(&[4, 4, 2]) {
                0 => [0u64, 1, 2, 3, 5, 10, 64][r.pick(7)] & mask,
                1 => [mask, 1u64 << (w - 1), (1u64 << (w - 1)).wrapping_sub(1), mask - 1][r.pick(4)],
                _ => r.u64() & mask,
            }
        }
    };
    // sign-extend narrow signed integers so that `bits as i64` is the value
    Scalar {
        ty: t.name().to_string(),
        bits,
    }
}

fn val_to_scalar(v: &Val) -> Option<Scalar> {
    Some(match v {
        Val::Bool(b) => Scalar {
            ty: "BOOL".into(),
            bits: *b as u64,
        },
        Val::Int(e, n) => Scalar {
            ty: e.name().into(),
            bits: *n as i64 as u64,
        },
        Val::Real(b) => Scalar {
            ty: "REAL".into(),
            bits: *b as u64,
        },
        Val::LReal(b) => Scalar {
            ty: "LREAL".into(),
            bits: *b,
        },
        Val::Time(n) => Scalar {
            ty: "TIME".into(),
            bits: *n as u64,
        },
        _ => return None,
    })
}

/// Splice the extension into the printed base program.
fn assemble(base: &str, x: &ext::ExtOut) -> String {
    let lines: Vec<&str> = base.lines().collect();
    let Some(h) = lines.iter().position(|l| l.trim() == "PROGRAM Main") else {
        return base.to_string();
    };
    let Some(e) = (h..lines.len()).find(|&i| lines[i].trim() == "END_PROGRAM") else {
        return base.to_string();
    };
    let v = (h + 1..e)
        .filter(|&i| lines[i].trim() == "END_VAR")
        .last()
        .unwrap_or(h);
    let mut out = String::new();
    // ext POUs go first, but after a leading TYPE block of the base program
    let mut start = 0;
    if lines.first().map(|l| l.trim()) == Some("TYPE") {
        if let Some(te) = lines.iter().position(|l| l.trim() == "END_TYPE") {
            for l in &lines[..=te] {
                out.push_str(l);
                out.push('\n');
            }
            out.push('\n');
            start = te + 1;
        }
    }
    out.push_str(&x.prelude);
    for l in &lines[start..=h] {
        out.push_str(l);
        out.push('\n');
    }
    out.push_str(&x.main_vars);
    for l in &lines[h + 1..=v] {
        out.push_str(l);
        out.push('\n');
    }
    for s in &x.pre {
        out.push_str("  ");
        out.push_str(s);
        out.push('\n');
    }
    for l in &lines[v + 1..e] {
        out.push_str(l);
        out.push('\n');
    }
    for s in &x.post {
        out.push_str("  ");
        out.push_str(s);
        out.push('\n');
    }
    let has_conf = lines.iter().any(|l| l.trim() == "CONFIGURATION Conf");
    for l in &lines[e..] {
        if let (Some(fb), true) = (&x.task_fb, l.trim() == "PROGRAM Main : Main;") {
            out.push_str("  TASK XT (INTERVAL := T#1ms, PRIORITY := 1);\n");
            out.push_str(&format!("  PROGRAM Main : Main ({fb} WITH XT);\n"));
            continue;
        }
        out.push_str(l);
        out.push('\n');
    }
    if let (Some(fb), false) = (&x.task_fb, has_conf) {
        out.push_str(&format!(
            "\nCONFIGURATION XConf\nRESOURCE XRes ON CPU\n  TASK XT (INTERVAL := T#1ms, PRIORITY := 1);\n  PROGRAM Main : Main ({fb} WITH XT);\nEND_RESOURCE\nEND_CONFIGURATION\n"
        ));
    }
    out
}

pub fn materialize(mut c: Case) -> Case {
    if !c.source.is_empty() {
        return c;
    }
    let d = dials();
    let cfg = gen_config(&d);
    let g = generate(&c.prog_tape, &c.trace_tape, &cfg);
    let opts = PrintOpts {
        full_parens: c.print_bits & 1 != 0,
        ampersand: c.print_bits & 2 != 0,
    };
    let printed = print_program(&g.program, opts);
    for (what, n) in &g.excluded {
        for _ in 0..(*n).min(2) {
            c.excluded.push(what.clone());
        }
    }
    c.excluded.push("F8-implicit-conversion-at-assignment-or-binding (strict dial: every generated case)".into());
    c.excluded.push("F6-recursive-call (acyclic call graph: every generated case)".into());
    // ---- base variables the extension may use
    let mut base_vars: Vec<(String, T, bool)> = Vec::new();
    if let Some(m) = g.program.pou("Main") {
        for v in &m.vars {
            if let (Ty::Elem(e), Role::Data, VarKind::Local) = (&v.ty, v.role, v.kind) {
                base_vars.push((v.name.clone(), T::from_elem(*e), !v.constant));
            }
        }
    }
    // ---- extension (3 cases in 4; mutated programs: 3 in 8 - pure stgen programs are rich in
    // IF / ELSIF / CASE / loop contexts and fault later, so more of them is executed)
    let mut xr_empty = false;
    let skip_ext = c.mode == "mutated" && c.mut_tape.data.last().map(|w| w % 2 == 0).unwrap_or(false);
    let x = if c.ext_tape.data.is_empty() || skip_ext {
        xr_empty = true;
        ext::ExtOut::default()
    } else {
        ext::Ext::new(&c.ext_tape, ext_config(&d)).generate(&base_vars)
    };
    let mut source = if xr_empty {
        printed.source.clone()
    } else {
        assemble(&printed.source, &x)
    };
    c.features = x.features.clone();
    c.excluded.extend(x.excluded.iter().cloned());
    // ---- trace: stgen's writes + extension inputs
    let mut trace: XTrace = Vec::new();
    // the extension's inputs are drawn from the trace tape read backwards (stgen reads it
    // forwards through a private reader), which keeps the two uses decorrelated
    let rev = Tape {
        data: c.trace_tape.data.iter().rev().copied().collect(),
    };
    let mut xr2 = Reader::new(&rev);
    for ci in &g.trace {
        let mut writes = Vec::new();
        for w in &ci.writes {
            if let Some(s) = val_to_scalar(&w.value) {
                writes.push(Write::Var {
                    instance: w.instance.clone(),
                    var: w.var.clone(),
                    value: s,
                });
            }
        }
        if !x.inputs.is_empty() {
            let n = xr2.weighted(&[3, 3, 2]);
            for _ in 0..n {
                let (name, t) = x.inputs[xr2.pick(x.inputs.len())].clone();
                writes.push(Write::Var {
                    instance: "Main".into(),
                    var: name,
                    value: scalar_for(t, &mut xr2),
                });
            }
        }
        for di in &x.direct_inputs {
            if xr2.chance(1, 2) {
                let t = match di.cell {
                    "BOOL" => T::Bool,
                    "BYTE" => T::Byte,
                    "WORD" => T::Word,
                    "DWORD" => T::DWord,
                    _ => T::LWord,
                };
                writes.push(Write::Direct {
                    address: di.address.clone(),
                    value: scalar_for(t, &mut xr2),
                });
            }
        }
        trace.push(CycleIn {
            writes,
            dt_ns: ci.dt_ns,
        });
    }
    // ---- settable inputs (for the alternative traces)
    if let Some(m) = g.program.pou("Main") {
        for v in &m.vars {
            if let (Ty::Elem(e), Role::Data, VarKind::Local, false) = (&v.ty, v.role, v.kind, v.constant) {
                c.inputs.push(("Main".into(), v.name.clone(), e.name().to_string()));
            }
        }
    }
    for gv in &g.program.globals {
        if let Ty::Elem(e) = &gv.ty {
            c.inputs.push((String::new(), gv.name.clone(), e.name().to_string()));
        }
    }
    for (n, t) in &x.inputs {
        c.inputs.push(("Main".into(), n.clone(), t.name().to_string()));
    }
    for di in &x.direct_inputs {
        c.inputs.push(("%".into(), di.address.clone(), di.cell.to_string()));
    }
    // ---- mutation
    if c.mode == "mutated" {
        c.base_source = source.clone();
        let mut mr = Reader::new(&c.mut_tape);
        // 3 of 4: context-aware (context first, site second); else the token-level mutator
        // mutated programs run at least 4 cycles: a perturbed ELSIF / ELSE / later branch is
        // often reached only after the first cycles changed the state
        while trace.len() < 4 {
            trace.push(CycleIn { writes: vec![], dt_ns: 1_000_000 });
        }
        let mut done = false;
        if mr.chance(3, 4) {
            // executed-statement log of the UNMUTATED program under this trace: sites it
            // executes are preferred (the text before a site is not changed by its mutation)
            let mut base_log = oracle::StmtLog::new();
            let _ = catch(|| oracle::run_traced(&source, &trace, &mut base_log));
            if let Some((m, a, site)) = mutate::mutate_in_context(&source, &mut mr, &base_log) {
                source = m;
                c.mutations = vec![a];
                c.site = Some(site);
                done = true;
            }
        }
        if !done {
            let (m, applied) = mutate::mutate(&source, &mut mr);
            source = m;
            c.mutations = applied;
        }
    }
    c.source = source;
    c.trace = trace;
    c
}

/// Like `engine::tape::tape_strategy` (same word mix) but with a minimum length: the
/// extension is a long consumer, and a reader that runs out of tape answers 0 to every choice.
fn long_tape(min_len: usize, max_len: usize) -> impl Strategy<Value = Tape> {
    let word = prop_oneof![
        3 => any::<u32>(),
        1 => (0u32..16).prop_map(|v| v << 28),
        1 => Just(0u32),
        1 => Just(u32::MAX),
    ];
    proptest::collection::vec(word, min_len..max_len).prop_map(|data| Tape { data })
}

/// Mutation tape: uniform words (the engine's word mix is deliberately heavy on 0 and
/// u32::MAX, which made the context draw land on the first / last context) and never empty.
fn uniform_tape(min_len: usize, max_len: usize) -> impl Strategy<Value = Tape> {
    proptest::collection::vec(any::<u32>(), min_len..max_len).prop_map(|data| Tape { data })
}

pub fn case_strategy(mode: &'static str) -> impl Strategy<Value = Case> {
    (
        tape_strategy(700),
        tape_strategy(80),
        prop_oneof![3 => long_tape(900, 2600), 1 => Just(Tape { data: vec![] })],
        uniform_tape(12, 40),
        0u8..8,
    )
        .prop_map(move |(p, t, x, m, bits)| {
            let print_bits = match bits {
                0 => 1,
                1 => 2,
                2 => 3,
                _ => 0,
            };
            // an empty ext tape means "no extension" (1 case in 4 is pure stgen)
            materialize(Case {
                prog_tape: p,
                trace_tape: t,
                ext_tape: x,
                mut_tape: m,
                print_bits,
                mode: if mode == "mutated" { "mutated".into() } else { "base".into() },
                source: String::new(),
                base_source: String::new(),
                mutations: vec![],
                trace: vec![],
                site: None,
                inputs: vec![],
                features: vec![],
                excluded: vec![],
                deadline_ms: None,
            })
        })
}

static ACCEPTED: AtomicU64 = AtomicU64::new(0);
static REJECTED_BASE: AtomicU64 = AtomicU64::new(0);
static BASE_TOTAL: AtomicU64 = AtomicU64::new(0);
static COMPILE_PANICS: Mutex<Vec<String>> = Mutex::new(Vec::new());

fn trace_text(trace: &XTrace) -> String {
    let mut s = String::new();
    for (k, c) in trace.iter().enumerate() {
        let w: Vec<String> = c
            .writes
            .iter()
            .map(|w| match w {
                Write::Var {
                    instance,
                    var,
                    value,
                } => format!("{}.{} := {}", if instance.is_empty() { "G" } else { instance }, var, value.show()),
                Write::Direct { address, value } => format!("{address} := {}", value.show()),
            })
            .collect();
        s.push_str(&format!("  cycle {}: dt={}ns writes [{}]\n", k + 1, c.dt_ns, w.join("; ")));
    }
    s
}

/// Does the program text contain something beyond straight-line assignments of small
/// values (rule of the non-trivial count)?
fn interesting(source: &str) -> bool {
    let toks = mutate::lex(source);
    let mut prev_word = false;
    for t in &toks {
        let text = &source[t.start..t.end];
        match t.kind {
            mutate::K::Word => {
                let u = text.to_ascii_uppercase();
                if matches!(u.as_str(), "FOR" | "WHILE" | "REPEAT" | "CASE") {
                    return true;
                }
                prev_word = !matches!(u.as_str(), "IF" | "ELSIF" | "UNTIL" | "AND" | "OR" | "XOR" | "NOT" | "MOD" | "THEN" | "TO" | "BY" | "OF" | "TASK" | "RETURN");
            }
            mutate::K::Op => {
                if (text == "(" && prev_word) || text == "[" {
                    return true;
                }
                prev_word = false;
            }
            mutate::K::TypedLit => {
                if text.contains("32767") || text.contains("32768") || text.contains("127") || text.contains("255") || text.contains("65535") || text.contains("2147483647") || text.contains("4294967295") || text.contains("9223372036854775807") {
                    return true;
                }
                prev_word = false;
            }
            mutate::K::Trivia => {}
            _ => prev_word = false,
        }
    }
    false
}

fn first_words(msg: &str) -> String {
    // classify a compiler message by its code or first words (digits/offsets removed)
    let line = msg.lines().next().unwrap_or("");
    if let Some(i) = line.find("error[") {
        return line[i..].chars().take(11).collect();
    }
    line.chars().filter(|c| !c.is_ascii_digit()).take(40).collect()
}

pub fn check_case(case: &Case, probe: &mut Probe) -> Result<(), String> {
    oracle::set_case_deadline(case.deadline_ms);
    let r = check_case_inner(case, probe);
    oracle::set_case_deadline(None);
    r
}

fn check_case_inner(case: &Case, probe: &mut Probe) -> Result<(), String> {
    let owned;
    let c = if case.source.is_empty() {
        owned = materialize(case.clone());
        &owned
    } else {
        case
    };
    let d = dials();
    let mode = if c.mode.is_empty() { "base" } else { c.mode.as_str() };
    probe.label(format!("mode={mode}"));
    for e in &c.excluded {
        probe.excluded(e.clone());
    }
    if mode == "mutated" && c.mutations.is_empty() {
        probe.label("mutated:no_site");
    }
    for m in &c.mutations {
        probe.label(format!("mutation={}", m.kind));
    }
    if let Some(site) = &c.site {
        probe.label(format!("site={}", site.ctx));
    }
    let rep = oracle::run(&c.source, &c.trace);
    if mode == "base" {
        BASE_TOTAL.fetch_add(1, Ordering::Relaxed);
    }
    if !rep.accepted {
        if let Some(p) = &rep.compile_panic {
            probe.label(format!("{mode}:compile_panic"));
            COMPILE_PANICS
                .lock()
                .unwrap()
                .push(format!("{p}\n{}", c.source));
            return Ok(());
        }
        probe.label(format!("{mode}:rejected"));
        probe.label(format!("{mode}:rejected:{}", first_words(&rep.compile_error)));
        if mode == "base" {
            REJECTED_BASE.fetch_add(1, Ordering::Relaxed);
            if let Ok(dir) = std::env::var("C01_DEBUG_DIR") {
                let name = format!("{dir}/rej-{:016x}.st", crate::engine::digest64(c.source.as_bytes()));
                let _ = std::fs::write(name, format!("(* {} *)\n{}", rep.compile_error, c.source));
            }
        }
        return Ok(());
    }
    ACCEPTED.fetch_add(1, Ordering::Relaxed);
    probe.label(format!("{mode}:accepted"));
    for m in &c.mutations {
        probe.label(format!("accepted_mutation={}", m.kind));
    }
    for f in &c.features {
        probe.label(format!("feat:{f}"));
    }
    probe.label(format!("cycles={}", rep.ran_cycles));
    match rep.fault {
        Some(f) => probe.label(format!("fault={f}")),
        None if rep.failure.is_none() => probe.label("fault=none"),
        None => {}
    }
    if rep.ran_cycles >= 1 && interesting(&c.source) {
        let mut key = c.source.as_bytes().to_vec();
        key.extend_from_slice(serde_json::to_string(&c.trace).unwrap_or_default().as_bytes());
        probe.nontrivial(&key);
        if rep.fault.is_some() && c.source.len() < 6000 {
            probe.sample(json!({"mode": mode, "fault": rep.fault, "cycles": rep.ran_cycles, "mutations": c.mutations, "source": c.source}));
        }
    }
    // ---- context-aware mutation: was the site reached? if not, try the alternative traces
    let mut rep = rep;
    let mut used_trace: XTrace = c.trace.clone();
    if let (Some(site), true, true) = (&c.site, rep.failure.is_none(), mode == "mutated") {
        probe.label(format!("site_accepted={}", site.ctx));
        // A site the UNMUTATED program executed under this trace is reached by the mutated one
        // too (the text and the behaviour before the site are unchanged): no extra run.
        let mut hit = site.executed_in_base;
        let mut by = "generated(coverage_guided)";
        if !hit {
            let mut log = oracle::StmtLog::new();
            let _ = catch(|| oracle::run_traced(&c.source, &c.trace, &mut log));
            hit = site_reached(site, &log, &c.source);
            by = "generated";
        }
        if !hit {
            for (name, t) in alt_traces(&c.inputs) {
                let mut log = oracle::StmtLog::new();
                let r2 = catch(|| oracle::run_traced(&c.source, &t, &mut log)).ok();
                let failed = r2.as_ref().map(|r| r.failure.is_some()).unwrap_or(true);
                if failed {
                    // a failure seen under the hook counts only when the hook-free run confirms it
                    let r3 = oracle::run(&c.source, &t);
                    if r3.failure.is_some() {
                        rep = r3;
                        used_trace = t;
                        hit = true;
                        by = name;
                        break;
                    }
                }
                if site_reached(site, &log, &c.source) {
                    hit = true;
                    by = name;
                    break;
                }
            }
        }
        if hit {
            probe.label(format!("site_reached={}", site.ctx));
            probe.label(format!("site_reached_by={by}"));
        } else {
            probe.label(format!("site_unreached={}", site.ctx));
        }
    }
    let Some(f) = &rep.failure else {
        return Ok(());
    };
    // ---- localise and match against the open findings
    let loc = catch(|| oracle::locate_fault(&c.source, &used_trace)).ok().flatten();
    let stmt = loc.and_then(|(s, e)| c.source.get(s as usize..(e as usize).min(c.source.len())));
    let key = sig::match_known(&sig::SigInput {
        failure: f,
        source: &c.source,
        stmt,
        stmt_at: loc.map(|(s, _)| s as usize),
        open: &|k| d.is_open(k),
    });
    // Signatures are in force for MUTATED programs only: in the base search the shapes of the
    // open findings are excluded by construction, so there every failure is a violation.
    if let (Some(k), true) = (key, mode == "mutated") {
        if d.is_open(k) {
            probe.label(format!("known:{k}"));
            probe.known(k);
            return Ok(());
        }
    }
    let muts: Vec<String> = c
        .mutations
        .iter()
        .map(|m| format!("{} `{}` -> `{}` (line {})", m.kind, m.from, m.to, m.line))
        .collect();
    Err(format!(
        "{} [{}]\n--- statement executing when it was raised\n{}\n--- mutations\n{}\n--- trace\n{}--- source\n{}",
        f.detail,
        f.kind,
        stmt.map(|s| s.lines().take(6).collect::<Vec<_>>().join("\n")).unwrap_or_else(|| "<not located>".into()),
        if muts.is_empty() { "none".to_string() } else { muts.join("\n") },
        trace_text(&used_trace),
        c.source
    ))
}

/// Was the mutated site evaluated in some cycle? (statement granularity from the executed-
/// statement log; for an ELSIF condition: the IF was executed and no statement of an earlier
/// branch followed it). For the evidence labels only.
fn site_reached(site: &mutate::SiteInfo, log: &oracle::StmtLog, source: &str) -> bool {
    let pou_end = (site.pou_end as i64 + site.delta.max(0) + 1) as u32;
    let pou_start = site.pou_start as u32;
    match site.ctx.as_str() {
        "initialiser" => {
            // PROGRAM-level declarations are initialised when the runtime is built
            if source.get(site.pou_start..).map(|t| t.trim_start().to_ascii_uppercase().starts_with("PROGRAM")).unwrap_or(false) {
                return true;
            }
            log.iter().flatten().any(|(s, _)| *s >= pou_start && *s < pou_end)
        }
        "elsif_cond" => {
            let Some((is, ie)) = site.if_range else { return false };
            let (is, ie) = (is as u32, (ie as i64 + site.delta.max(0)) as u32);
            let slot = site.slot_start as u32;
            for cyc in log {
                for (i, (s, _)) in cyc.iter().enumerate() {
                    if *s != is {
                        continue;
                    }
                    match cyc.get(i + 1) {
                        Some((n, _)) if *n > is && *n < ie => {
                            if *n > slot {
                                return true;
                            }
                        }
                        _ => return true,
                    }
                }
            }
            false
        }
        _ => log.iter().flatten().any(|(s, _)| *s as usize == site.stmt_start),
    }
}

/// Alternative traces (4 cycles each) that try to falsify earlier conditions: every settable
/// input is driven to the same simple value in every cycle.
fn alt_traces(inputs: &[(String, String, String)]) -> Vec<(&'static str, XTrace)> {
    let mk = |f: &dyn Fn(&str, usize) -> Option<u64>| -> XTrace {
        (0..4)
            .map(|_| {
                let mut writes = Vec::new();
                for (k, (inst, name, ty)) in inputs.iter().enumerate() {
                    let Some(bits) = f(ty, k) else { continue };
                    let value = Scalar { ty: ty.clone(), bits };
                    if inst == "%" {
                        writes.push(Write::Direct { address: name.clone(), value });
                    } else {
                        writes.push(Write::Var { instance: inst.clone(), var: name.clone(), value });
                    }
                }
                CycleIn { writes, dt_ns: 1_000_000 }
            })
            .collect()
    };
    let is_num = |t: &str| !matches!(t, "BOOL" | "REAL" | "LREAL");
    vec![
        ("all_false_zero", mk(&|t, _| match t {
            "REAL" => Some(0f32.to_bits() as u64),
            "LREAL" => Some(0f64.to_bits()),
            _ => Some(0),
        })),
        ("all_true_one", mk(&|t, _| match t {
            "REAL" => Some(1f32.to_bits() as u64),
            "LREAL" => Some(1f64.to_bits()),
            _ => Some(1),
        })),
        ("false_minus_one", mk(&|t, _| match t {
            "BOOL" => Some(0),
            "REAL" => Some((-1f32).to_bits() as u64),
            "LREAL" => Some((-1f64).to_bits()),
            _ => Some(u64::MAX),
        })),
        ("alternating_two", mk(&|t, k| match t {
            "BOOL" => Some((k % 2) as u64),
            "REAL" => Some(2f32.to_bits() as u64),
            "LREAL" => Some(2f64.to_bits()),
            t if is_num(t) => Some(2),
            _ => None,
        })),
    ]
}

/// Helper subcommands (child processes of this check); None = not mine.
pub fn helper(args: &[String]) -> Option<i32> {
    match args.first().map(|s| s.as_str()) {
        Some("c01-try") => {
            // tpv c01-try <file> [cycles]: programs separated by lines "----"
            let path = args.get(1)?;
            let cycles: usize = args.get(2).and_then(|s| s.parse().ok()).unwrap_or(2);
            let text = std::fs::read_to_string(path).ok()?;
            crate::engine::install_quiet_panic_hook();
            for (i, src) in text.split("\n----\n").enumerate() {
                let trace: XTrace = (0..cycles)
                    .map(|_| CycleIn {
                        writes: vec![],
                        dt_ns: 1_000_000,
                    })
                    .collect();
                let rep = oracle::run(src, &trace);
                let head = src.lines().find(|l| l.contains("(*#")).unwrap_or("").trim();
                if !rep.accepted {
                    println!(
                        "[{i}] {head} REJECTED {}{}",
                        rep.compile_error.lines().next().unwrap_or(""),
                        rep.compile_panic.map(|p| format!(" COMPILE PANIC {p}")).unwrap_or_default()
                    );
                    continue;
                }
                match rep.failure {
                    Some(f) => {
                        let loc = catch(|| oracle::locate_fault(src, &trace)).ok().flatten();
                        let stmt = loc.and_then(|(s, e)| src.get(s as usize..e as usize));
                        let key = sig::match_known(&sig::SigInput { failure: &f, source: src, stmt, stmt_at: loc.map(|(s, _)| s as usize), open: &|k| dials().is_open(k) });
                        println!("[{i}] {head} FAIL {} :: {} :: at `{}` :: sig {:?}", f.kind, f.detail, stmt.unwrap_or("?").lines().next().unwrap_or(""), key)
                    }
                    None => println!("[{i}] {head} ok fault={:?} cycles={}", rep.fault, rep.ran_cycles),
                }
            }
            Some(0)
        }
        Some("c01-gen") => {
            // tpv c01-gen <seed> [n] [base|mutated]: print generated cases and verdicts
            let seed: u64 = args.get(1).and_then(|s| s.parse().ok()).unwrap_or(1);
            let n: usize = args.get(2).and_then(|s| s.parse().ok()).unwrap_or(1);
            let mode: &'static str = if args.get(3).map(|s| s.as_str()) == Some("mutated") {
                "mutated"
            } else {
                "base"
            };
            let quiet = args.get(4).map(|s| s.as_str()) == Some("quiet");
            crate::engine::install_quiet_panic_hook();
            let mut runner = proptest::test_runner::TestRunner::new_with_rng(
                proptest::test_runner::Config::default(),
                proptest::test_runner::TestRng::from_seed(proptest::test_runner::RngAlgorithm::ChaCha, &{
                    let mut s = [0u8; 32];
                    s[..8].copy_from_slice(&seed.to_le_bytes());
                    s
                }),
            );
            let strat = case_strategy(mode);
            for i in 0..n {
                let c = strat.new_tree(&mut runner).ok()?.current();
                let mut probe = Probe::default();
                let res = check_case(&c, &mut probe);
                if quiet {
                    let acc = probe.labels.iter().any(|l| l.ends_with(":accepted"));
                    let rej: Vec<&String> = probe.labels.iter().filter(|l| l.contains(":rejected:")).collect();
                    match &res {
                        Ok(()) => println!("[{i}] {} {:?} known={:?}", if acc { "accepted" } else { "rejected" }, rej, probe.known),
                        Err(e) => println!("[{i}] FAIL {}", e.lines().take(4).collect::<Vec<_>>().join(" | ")),
                    }
                    continue;
                }
                println!("(* ======== case {i} ======== *)\n{}", c.source);
                println!("(* mutations: {:?} *)", c.mutations);
                println!("(* trace\n{}*)", trace_text(&c.trace));
                match res {
                    Ok(()) => println!("(* verdict: ok; labels {:?} *)", probe.labels),
                    Err(e) => println!("(* verdict: FAIL {} *)", e.lines().take(10).collect::<Vec<_>>().join("\n")),
                }
            }
            Some(0)
        }
        Some("c01-mkreplays") => Some(handmade::write_replays(args.get(1).map(|s| s.as_str()))),
        Some("c01-child") => {
            // tpv c01-child <file> <cycles>: run one program in this (expendable) process.
            // exit 0 = every cycle returned; the parent looks at the exit status.
            let path = args.get(1)?;
            let cycles: usize = args.get(2).and_then(|s| s.parse().ok()).unwrap_or(1);
            let src = std::fs::read_to_string(path).ok()?;
            crate::engine::install_quiet_panic_hook();
            // same stack as a worker's case thread
            let h = std::thread::Builder::new()
                .stack_size(8 << 20)
                .spawn(move || {
                    let trace: XTrace = (0..cycles).map(|_| CycleIn { writes: vec![], dt_ns: 1_000_000 }).collect();
                    let rep = oracle::run(&src, &trace);
                    if !rep.accepted {
                        return 3;
                    }
                    match rep.failure {
                        Some(f) => {
                            eprintln!("{}", f.detail);
                            4
                        }
                        None => 0,
                    }
                })
                .ok()?;
            Some(h.join().unwrap_or(5))
        }
        _ => None,
    }
}

/// F6 probe: a recursive FUNCTION is accepted and kills the process. It cannot be replayed
/// inside a worker (the worker would die), so it runs in an expendable child process.
fn f6_probe(ctx: &mut RunCtx) {
    if ctx.worker != 0 || ctx.only_replay.is_some() {
        return;
    }
    let src = handmade::F6_RECURSION;
    let open = ctx.is_open(sig::F6);
    let case = json!({"source": src, "cycles": 1});
    let dir = ctx.out_dir.clone();
    ctx.enumerated("f6-recursion-child", &case, |probe| {
        let path = dir.join("f6-recursion.st");
        std::fs::write(&path, src).map_err(|e| format!("cannot write probe: {e}"))?;
        let exe = std::env::current_exe().map_err(|e| e.to_string())?;
        let out = std::process::Command::new(exe)
            .arg("c01-child")
            .arg(&path)
            .arg("1")
            .stdin(std::process::Stdio::null())
            .stderr(std::process::Stdio::null())
            .output()
            .map_err(|e| format!("cannot spawn child: {e}"))?;
        use std::os::unix::process::ExitStatusExt;
        probe.label("f6-probe");
        match (out.status.code(), out.status.signal()) {
            (Some(0), _) => Ok(()), // returned (a budget / depth fault): fine
            (Some(3), _) => {
                probe.label("f6-probe:rejected_by_compiler");
                Ok(())
            }
            (Some(4), _) => Err(format!("recursive FUNCTION: a cycle failed the oracle\n{src}")),
            (code, sig) => {
                if open {
                    probe.known(sig::F6);
                    Ok(())
                } else {
                    Err(format!(
                        "recursive FUNCTION: the process died (exit {code:?}, signal {sig:?}) instead of reporting a fault\n{src}"
                    ))
                }
            }
        }
    });
}

/// Boundary literals of a type for the conversion grid.
fn grid_literals(t: T) -> Vec<String> {
    if let Some(e) = t.elem() {
        let (lo, hi) = e.int_range();
        let mut v = vec![lo, hi, 0, 1, hi / 2 + 1, hi - 1];
        if lo < 0 {
            v.push(-1);
            v.push(lo + 1);
        }
        v.sort();
        v.dedup();
        return v.into_iter().map(|n| ext::int_lit(t, n)).collect();
    }
    let s = |xs: &[&str]| xs.iter().map(|x| x.to_string()).collect::<Vec<_>>();
    match t {
        T::Bool => s(&["TRUE", "FALSE"]),
        T::Real => s(&["REAL#0.0", "REAL#-1.5", "REAL#0.5", "REAL#2.5", "REAL#3.0E38", "REAL#-3.0E38", "REAL#1.0E10", "REAL#255.5", "REAL#-0.5"]),
        T::LReal => s(&["LREAL#0.0", "LREAL#-1.5", "LREAL#0.5", "LREAL#2.5", "LREAL#1.0E308", "LREAL#-1.0E308", "LREAL#1.0E19", "LREAL#9.3E18", "LREAL#4294967295.5"]),
        T::Byte => s(&["BYTE#16#0", "BYTE#16#7F", "BYTE#16#80", "BYTE#16#FF", "BYTE#16#99"]),
        T::Word => s(&["WORD#16#0", "WORD#16#7FFF", "WORD#16#8000", "WORD#16#FFFF", "WORD#16#9999"]),
        T::DWord => s(&["DWORD#16#0", "DWORD#16#7FFFFFFF", "DWORD#16#80000000", "DWORD#16#FFFFFFFF", "DWORD#16#7F800000", "DWORD#16#99999999"]),
        T::LWord => s(&["LWORD#16#0", "LWORD#16#7FFFFFFFFFFFFFFF", "ULINT_TO_LWORD(ULINT#9223372036854775807 + ULINT#1)", "ULINT_TO_LWORD(ULINT#9223372036854775807 + ULINT#9223372036854775807 + ULINT#1)", "LWORD#16#7FF0000000000000", "LWORD#16#999999999999999"]),
        T::Time => s(&["T#0ms", "T#1ns", "T#-1ns", "T#106751d", "T#-106751d", "T#25h"]),
        T::LTime => s(&["LTIME#0ms", "LTIME#1ns", "LTIME#-1ns", "LTIME#106751d", "LTIME#-106751d"]),
        T::Date => s(&["D#1970-01-01", "D#9999-12-31", "D#0001-01-01", "D#2106-02-07", "D#1969-12-31"]),
        T::Tod => s(&["TOD#00:00:00", "TOD#23:59:59.999", "TOD#12:30:15"]),
        T::Dt => s(&["DT#1970-01-01-00:00:00", "DT#9999-12-31-23:59:59", "DT#0001-01-01-00:00:00", "DT#2106-02-07-06:28:15", "DT#1969-12-31-23:59:59"]),
        T::LDate => s(&["LDATE#1970-01-01", "LDATE#2262-04-11", "LDATE#1677-09-22"]),
        T::LTod => s(&["LTOD#00:00:00", "LTOD#23:59:59.999999999"]),
        T::Ldt => s(&["LDT#1970-01-01-00:00:00", "LDT#2262-04-11-23:47:16", "LDT#1677-09-22-00:00:00", "LDT#1969-12-31-23:59:59"]),
        T::Str => s(&["'a'"]),
        T::WStr => s(&["\"a\""]),
        T::Char => s(&["CHAR#'a'", "CHAR#'~'"]),
        T::WChar => s(&["WCHAR#\"a\""]),
        _ => vec![],
    }
}

/// Enumerated grid: every conversion the checker allows x the boundary values of its source
/// type, in each spelling (`S_TO_D`, `TO_D`, and for REAL -> integer `TRUNC_D`, `S_TRUNC_D`),
/// one statement per program. The random search reaches a given (pair, extreme operand)
/// only a few times per run; the grid reaches each exactly once per run.
fn conversion_grid(ctx: &mut RunCtx) {
    if ctx.only_replay.is_some() {
        return;
    }
    let mut idx = 0usize;
    for src in ext::ALL {
        for dst in ext::ALL {
            if !ext::conversion_allowed(src, dst) {
                continue;
            }
            let mut spellings = vec![format!("{}_TO_{}", src.name(), dst.name()), format!("TO_{}", dst.name())];
            if src.is_real() && dst.is_int() {
                spellings.push(format!("TRUNC_{}", dst.name()));
                spellings.push(format!("{}_TRUNC_{}", src.name(), dst.name()));
            }
            for lit in grid_literals(src) {
                for f in &spellings {
                    idx += 1;
                    if idx % ctx.nworkers.max(1) != ctx.worker {
                        continue;
                    }
                    let source = format!(
                        "PROGRAM Main\nVAR\n  s : {} := {};\n  d : {};\nEND_VAR\n  d := {}(s);\nEND_PROGRAM\n",
                        src.name(), lit, dst.name(), f
                    );
                    let case = Case {
                        prog_tape: empty_tape(),
                        trace_tape: empty_tape(),
                        ext_tape: empty_tape(),
                        mut_tape: empty_tape(),
                        print_bits: 0,
                        mode: "base".into(),
                        source,
                        base_source: String::new(),
                        mutations: vec![],
                        trace: vec![CycleIn { writes: vec![], dt_ns: 1_000_000 }],
                        site: None,
                        inputs: vec![],
                        features: vec![format!("grid:{}_TO_{}", src.name(), dst.name())],
                        excluded: vec![],
                        deadline_ms: None,
                    };
                    let j = serde_json::to_value(&case).unwrap_or(serde_json::Value::Null);
                    ctx.enumerated("case", &j, |probe| {
                        probe.label("grid");
                        check_case(&case, probe)
                    });
                }
            }
        }
    }
}

/// Enumerated OPERATOR grid (after seeded change C01-d was missed): every integer type x
/// {+ - * / MOD ** and the six comparisons, the function forms ADD SUB MUL DIV, unary minus,
/// ABS} x operand pairs from {min, min+1, -1, 0, 1, max-1, max} (unsigned: {0, 1, 2, max-1,
/// max}); REAL / LREAL x {+ - * / ** EXPT} x {-MAX, -1, 0, MIN_POSITIVE, 1, 2, MAX}. Every
/// combination twice: operands as (synthesised) literals and operands written by the input
/// trace into variables. One statement per program, judged by C01's oracle only. The shapes of
/// the open findings are left out exactly: a negative integer exponent (F23).
fn operator_grid(ctx: &mut RunCtx) {
    if ctx.only_replay.is_some() {
        return;
    }
    let d = dials();
    let f23_open = d.is_open("F23-");
    let mut idx = 0usize;
    let mut emit = |ctx: &mut RunCtx, label: String, source: String, trace: XTrace| {
        idx += 1;
        if idx % ctx.nworkers.max(1) != ctx.worker {
            return;
        }
        let case = Case {
            prog_tape: empty_tape(),
            trace_tape: empty_tape(),
            ext_tape: empty_tape(),
            mut_tape: empty_tape(),
            print_bits: 0,
            mode: "base".into(),
            source,
            base_source: String::new(),
            mutations: vec![],
            trace,
            site: None,
            inputs: vec![],
            features: vec![label],
            excluded: vec![],
            deadline_ms: None,
        };
        let j = serde_json::to_value(&case).unwrap_or(serde_json::Value::Null);
        ctx.enumerated("case", &j, |probe| {
            probe.label("opgrid");
            check_case(&case, probe)
        });
    };
    let one_cycle = |writes: Vec<Write>| -> XTrace { vec![CycleIn { writes, dt_ns: 1_000_000 }] };
    let var_write = |name: &str, ty: &str, bits: u64| Write::Var {
        instance: "Main".into(),
        var: name.into(),
        value: Scalar { ty: ty.into(), bits },
    };
    const BIN: [&str; 12] = ["+", "-", "*", "/", "MOD", "**", "<", "<=", ">", ">=", "=", "<>"];
    const FNS: [&str; 4] = ["ADD", "SUB", "MUL", "DIV"];
    for t in ext::INTS {
        let e = t.elem().unwrap();
        let (lo, hi) = e.int_range();
        let vals: Vec<i128> = if e.is_signed_int() { vec![lo, lo + 1, -1, 0, 1, hi - 1, hi] } else { vec![0, 1, 2, hi - 1, hi] };
        let n = t.name();
        for &a in &vals {
            // unary
            for (op, ok) in [("neg", e.is_signed_int()), ("ABS", true)] {
                if !ok {
                    continue;
                }
                for via_trace in [false, true] {
                    let x = if via_trace { "a".to_string() } else { ext::int_lit(t, a) };
                    let expr = if op == "neg" { format!("-({x})") } else { format!("ABS({x})") };
                    let src = format!("PROGRAM Main\nVAR\n  a : {n};\n  r : {n};\nEND_VAR\n  r := {expr};\nEND_PROGRAM\n");
                    let tr = one_cycle(if via_trace { vec![var_write("a", n, a as u64)] } else { vec![] });
                    emit(ctx, format!("opgrid:{op}:{n}"), src, tr);
                }
            }
            for &b in &vals {
                for op in BIN.iter().chain(FNS.iter()) {
                    if *op == "**" && b < 0 && f23_open {
                        continue;
                    }
                    let cmp = matches!(*op, "<" | "<=" | ">" | ">=" | "=" | "<>");
                    for via_trace in [false, true] {
                        let (x, y) = if via_trace { ("a".to_string(), "b".to_string()) } else { (ext::int_lit(t, a), ext::int_lit(t, b)) };
                        let expr = if FNS.contains(op) { format!("{op}({x}, {y})") } else { format!("{x} {op} {y}") };
                        let rt = if cmp { "BOOL" } else { n };
                        let src = format!("PROGRAM Main\nVAR\n  a : {n};\n  b : {n};\n  r : {rt};\nEND_VAR\n  r := {expr};\nEND_PROGRAM\n");
                        let tr = one_cycle(if via_trace { vec![var_write("a", n, a as u64), var_write("b", n, b as u64)] } else { vec![] });
                        emit(ctx, format!("opgrid:{op}:{n}"), src, tr);
                    }
                }
            }
        }
    }
    // ---- reals
    let dummy = Program { types: vec![], pous: vec![], globals: vec![], instances: vec![] };
    for t in [T::Real, T::LReal] {
        let n = t.name();
        let vals: Vec<(String, u64)> = if t == T::Real {
            [-f32::MAX, -1.0, 0.0, f32::MIN_POSITIVE, 1.0, 2.0, f32::MAX]
                .iter()
                .map(|v| (crate::stgen::print::literal_text(&Val::real(*v), &dummy, true), v.to_bits() as u64))
                .collect()
        } else {
            [-f64::MAX, -1.0, 0.0, f64::MIN_POSITIVE, 1.0, 2.0, f64::MAX]
                .iter()
                .map(|v| (crate::stgen::print::literal_text(&Val::lreal(*v), &dummy, true), v.to_bits()))
                .collect()
        };
        for (la, ba) in &vals {
            for (lb, bb) in &vals {
                for op in ["+", "-", "*", "/", "**", "EXPT", "<", "="] {
                    for via_trace in [false, true] {
                        let (x, y) = if via_trace { ("a".to_string(), "b".to_string()) } else { (la.clone(), lb.clone()) };
                        let expr = if op == "EXPT" { format!("EXPT({x}, {y})") } else { format!("{x} {op} {y}") };
                        let rt = if matches!(op, "<" | "=") { "BOOL" } else { n };
                        let src = format!("PROGRAM Main\nVAR\n  a : {n};\n  b : {n};\n  r : {rt};\nEND_VAR\n  r := {expr};\nEND_PROGRAM\n");
                        let tr = one_cycle(if via_trace { vec![var_write("a", n, *ba), var_write("b", n, *bb)] } else { vec![] });
                        emit(ctx, format!("opgrid:{op}:{n}"), src, tr);
                    }
                }
            }
            // EXPT with integer exponents at the extremes
            for (et, ev) in [(T::DInt, i32::MIN as i128), (T::DInt, -1), (T::DInt, 0), (T::DInt, 2), (T::DInt, i32::MAX as i128), (T::LInt, i64::MIN as i128), (T::LInt, i64::MAX as i128), (T::ULInt, u64::MAX as i128)] {
                let src = format!("PROGRAM Main\nVAR\n  a : {n};\n  b : {};\n  r : {n};\nEND_VAR\n  r := EXPT(a, b);\nEND_PROGRAM\n", et.name());
                let tr = one_cycle(vec![var_write("a", n, *ba), var_write("b", et.name(), ev as u64)]);
                emit(ctx, format!("opgrid:EXPT_int:{n}"), src, tr);
            }
        }
    }
}

/// Enumerated BUDGET classes (after seeded change C01-g was missed):
///  * non-terminating by design: backward JMP loops (and classic loops) whose exit condition
///    depends on an input the trace never sets, in a PROGRAM, FUNCTION, METHOD and FB body, at
///    call depth 0-2, spanning IF / CASE nesting - the ONLY acceptable outcome is the budget
///    fault within the (200 ms) deadline; a cycle that never returns is turned into a dead
///    worker (= VIOLATION) by the hang guard in `oracle.rs`;
///  * tiny deadline (0 ms): long straight-line programs, deep recursion-free call chains and
///    loops - Ok or ExecutionTimeout, frames empty, latch.
fn budget_classes(ctx: &mut RunCtx) {
    if ctx.only_replay.is_some() {
        return;
    }
    let d = dials();
    let nested = !d.is_open("F51-");
    let mut progs: Vec<(String, String, Option<u64>)> = Vec::new();
    let main = |vars: &str, body: &str| format!("PROGRAM Main\nVAR\n  x : INT;\n  stop : BOOL;\n{vars}END_VAR\n{body}END_PROGRAM\n");
    // ---- loops that never end (stop stays FALSE)
    let jmp_if = "  l1: x := INT#1;\n  IF NOT stop THEN\n    JMP l1;\n  END_IF;\n";
    let jmp_uncond = "  l1: x := INT#1;\n  JMP l1;\n";
    let jmp_two = "  la: x := INT#1;\n  JMP lb;\n  lc: x := INT#2;\n  lb: JMP la;\n";
    let jmp_case = "  l1: CASE x OF\n    0: x := INT#0;\n       JMP l1;\n  ELSE\n    JMP l1;\n  END_CASE;\n";
    let jmp_nested2 = "  l1: x := INT#1;\n  IF NOT stop THEN\n    IF x = INT#1 THEN\n      JMP l1;\n    END_IF;\n  END_IF;\n";
    let jmp_empty = "  l1: ;\n  JMP l1;\n";
    let whl = "  WHILE NOT stop DO\n    x := INT#1;\n  END_WHILE;\n";
    let rpt = "  REPEAT\n    x := INT#1;\n  UNTIL stop\n  END_REPEAT;\n";
    let forl = "  FOR i := LINT#0 TO LINT#9223372036854775806 DO\n    x := INT#1;\n  END_FOR;\n";
    let jmp_over_loop = "  l1: FOR x := INT#0 TO INT#2 DO\n    ;\n  END_FOR;\n  JMP l1;\n";
    let mut bodies: Vec<(&str, &str)> = vec![("jmp_uncond", jmp_uncond), ("jmp_two_labels", jmp_two), ("jmp_empty_stmt", jmp_empty), ("jmp_over_loop", jmp_over_loop), ("while", whl), ("repeat", rpt)];
    if nested {
        bodies.push(("jmp_if", jmp_if));
        bodies.push(("jmp_case", jmp_case));
        bodies.push(("jmp_nested_if", jmp_nested2));
    }
    for (name, body) in &bodies {
        // in the PROGRAM
        progs.push((format!("hang:{name}:program"), main("", body), Some(200)));
        // in a FUNCTION (depth 1) and through a second FUNCTION (depth 2)
        let f = format!("FUNCTION F1 : INT\nVAR_INPUT\n  stop : BOOL;\nEND_VAR\nVAR\n  x : INT;\nEND_VAR\n{body}  F1 := x;\nEND_FUNCTION\n\n");
        progs.push((format!("hang:{name}:function_d1"), format!("{f}{}", main("", "  x := F1(stop);\n")), Some(200)));
        let f2 = "FUNCTION F2 : INT\nVAR_INPUT\n  stop : BOOL;\nEND_VAR\n  F2 := F1(stop) + INT#1;\nEND_FUNCTION\n\n";
        progs.push((format!("hang:{name}:function_d2"), format!("{f}{f2}{}", main("", "  x := F2(stop);\n")), Some(200)));
        // in an FB body and in a METHOD
        let fb = format!("FUNCTION_BLOCK FB1\nVAR_INPUT\n  stop : BOOL;\nEND_VAR\nVAR\n  x : INT;\nEND_VAR\nMETHOD PUBLIC M : INT\nVAR_INPUT\n  stop : BOOL;\nEND_VAR\nVAR\n  x : INT;\nEND_VAR\n{body}  M := x;\nEND_METHOD\n{body}END_FUNCTION_BLOCK\n\n");
        progs.push((format!("hang:{name}:fb_body"), format!("{fb}{}", main("  fb : FB1;\n", "  fb(stop := stop);\n")), Some(200)));
        progs.push((format!("hang:{name}:method"), format!("{fb}{}", main("  fb : FB1;\n", "  x := fb.M(stop);\n")), Some(200)));
    }
    progs.push(("hang:for_lint:program".into(), main("  i : LINT;\n", forl), Some(200)));
    // ---- tiny deadline: straight line, deep chain, loops
    let mut line = String::new();
    for k in 0..1500 {
        line.push_str(&format!("  x := INT#{};\n", k % 100));
    }
    progs.push(("tiny:straight_line".into(), main("", &line), Some(0)));
    let mut chain = String::from("FUNCTION C0 : INT\nVAR_INPUT\n  a : INT;\nEND_VAR\n  C0 := a;\nEND_FUNCTION\n\n");
    for k in 1..40 {
        chain.push_str(&format!("FUNCTION C{k} : INT\nVAR_INPUT\n  a : INT;\nEND_VAR\nVAR\n  t : INT;\nEND_VAR\n  t := C{}(a);\n  C{k} := t;\nEND_FUNCTION\n\n", k - 1));
    }
    progs.push(("tiny:deep_chain".into(), format!("{chain}{}", main("", "  x := C39(INT#1);\n")), Some(0)));
    progs.push(("tiny:deep_chain_2s".into(), format!("{chain}{}", main("", "  x := C39(INT#1);\n")), None));
    progs.push(("tiny:while".into(), main("", whl), Some(0)));
    if nested {
        progs.push(("tiny:jmp_if".into(), main("", jmp_if), Some(0)));
    }
    for (i, (label, source, deadline)) in progs.into_iter().enumerate() {
        if i % ctx.nworkers.max(1) != ctx.worker {
            continue;
        }
        let case = Case {
            prog_tape: empty_tape(),
            trace_tape: empty_tape(),
            ext_tape: empty_tape(),
            mut_tape: empty_tape(),
            print_bits: 0,
            mode: "base".into(),
            source,
            base_source: String::new(),
            mutations: vec![],
            trace: vec![CycleIn { writes: vec![], dt_ns: 1_000_000 }, CycleIn { writes: vec![], dt_ns: 1_000_000 }],
            site: None,
            inputs: vec![],
            features: vec![label.clone()],
            excluded: vec![],
            deadline_ms: deadline,
        };
        let j = serde_json::to_value(&case).unwrap_or(serde_json::Value::Null);
        ctx.enumerated("case", &j, |probe| {
            probe.label("budget_class");
            let r = check_case(&case, probe);
            // a program of the non-terminating class that is accepted can only end in the
            // budget fault; make that visible in the histogram
            if label.starts_with("hang:") {
                if probe.labels.iter().any(|l| l == "fault=ExecutionTimeout") {
                    probe.label("hang_class:timed_out");
                } else if probe.labels.iter().any(|l| l.ends_with(":rejected")) {
                    probe.label("hang_class:rejected");
                } else {
                    probe.label("hang_class:other_outcome");
                }
            }
            r
        });
    }
}

fn run(ctx: &mut RunCtx) {
    let open: Vec<String> = ctx
        .findings
        .iter()
        .filter(|f| f.status == "open")
        .map(|f| f.key.clone())
        .collect();
    let _ = DIALS.set(Dials { open });
    let tier = ctx.tier;
    // C01_ONLY=grid|base|mutated: run one part only (timing / debugging aid, not used by ./check)
    let only = std::env::var("C01_ONLY").unwrap_or_default();
    let on = |what: &str| only.is_empty() || only == what;
    // replay files carry search = "case"
    ctx.search("case", case_strategy("base"), 0, check_case);
    f6_probe(ctx);
    if on("grid") {
        conversion_grid(ctx);
        operator_grid(ctx);
        budget_classes(ctx);
    }
    ctx.search("base", case_strategy("base"), if on("base") { tier.pick(4_000, 100_000) } else { 0 }, check_case);
    ctx.search("mutated", case_strategy("mutated"), if on("mutated") { tier.pick(6_000, 200_000) } else { 0 }, check_case);

    let total = BASE_TOTAL.load(Ordering::Relaxed);
    let rejected = REJECTED_BASE.load(Ordering::Relaxed);
    if ctx.only_replay.is_none() && total > 50 && rejected * 20 > total {
        ctx.inconclusive(format!(
            "{rejected} of {total} unmutated generated programs were rejected by the compiler (> 5 %): the generator no longer matches the accepted language"
        ));
    }
    let panics = COMPILE_PANICS.lock().unwrap().clone();
    if !panics.is_empty() {
        ctx.note(format!(
            "{} program(s) made the COMPILER panic (outside C01's quantifier 'programs the compiler accepts'; reported for C12/C13): first: {}",
            panics.len(),
            panics[0].lines().next().unwrap_or("")
        ));
        let _ = std::fs::write(ctx.out_dir.join(format!("compile-panic-{}.st", ctx.worker)), &panics[0]);
    }
}
