//! C08 - a fault halts the resource and, under safe_halt, forces every safe-state output.
//!
//! Domain: small generated configurations (1-3 periodic TASKs + background programs, 1-4
//! programs, <= 12 fault-site statements, nested FUNCTION / FUNCTION_BLOCK calls, bit / byte /
//! word / dword program outputs bound with AT %Q...). Every site statement contains a division,
//! a MOD or an array index whose divisor / index is a VAR_GLOBAL the harness sets to the
//! faulting value just before the chosen cycle. Per generated program the check ENUMERATES
//! every fault point:
//!
//!   kind in { runtime error at site k in cycle c (every (k, c) in which the site executes),
//!             driver j read_inputs error in cycle c (transient / dead driver),
//!             driver j write_outputs error in cycle c (transient / dead driver),
//!             watchdog_timeout() after c cycles, simulation_fault() after c cycles }
//!   x a driver whose write_outputs fails during the safe-state delivery (none / each driver)
//!   x fault policy {halt, safe_halt} x watchdog action {halt, safe_halt}
//!
//! against a generated safe-state map (bit/byte/word/dword/lword %Q addresses; exactly on,
//! inside, around or away from program outputs) and 1-3 logging drivers.
//!
//! Oracle (property text + docs/guides/PLC_SAFETY_GUIDE.md + docs/specs/10-runtime.md 6.5/6.6):
//! the injected fault surfaces as `Err`, `faulted()` is true and `last_fault()` is that error;
//! when the safe state is due (fault policy safe_halt, or a watchdog timeout with action halt /
//! safe_halt) every (address, value) of the map reads back from `io().outputs()` and the LAST
//! `write_outputs` payload that EVERY driver received holds those values - checked the moment
//! the faulting call returns, i.e. before the fault is reported; every later `execute_cycle`
//! returns `ResourceFaulted`, leaves the variable storage digest and the output image
//! unchanged and calls no driver; `restart` clears the latch.
//!
//! The history then continues on the SAME runtime: after a warm restart, a cold restart or
//! `clear_fault()` a second (and for half of the points a third) fault of a kind taken from a
//! reduced grid is injected and the whole oracle is applied again - a fault after a recovery
//! must latch, report itself and force the outputs exactly like the first one. A fourth route
//! is "no recovery": `watchdog_timeout()` / `simulation_fault()` (optionally after a policy
//! switch) hit the resource while it is still faulted and must force the safe state again.
//! Tasks are periodic or SINGLE-triggered; FUNCTION_BLOCK instances can be bound to tasks
//! (`PROGRAM I0 WITH T0 : P0 (tb7 WITH T1)`), also to tasks without any program.
//!
//! A `DebugControl` is attached from the start, after the first fault, or never, and a counting
//! retain store is configured or not; before the refused requests of every fault PENDING
//! EXTERNAL INPUTS are left (queued debugger writes and forces, fresh input-image and driver
//! data, a dirty retain store): none of them may take effect on the faulted resource.
//!
//! Search `runner`: the same through `ResourceRunner::spawn` / `spawn_with_shared` (watchdog
//! overrun, runtime error, scripted simulation fault); every driver call samples
//! `ResourceControl::state()` / `last_error()`: no driver call may see the fault reported.

use std::collections::BTreeSet;
use std::sync::{Arc, Mutex};

use proptest::prelude::*;
use proptest::strategy::ValueTree;
use proptest::test_runner::{Config, RngAlgorithm, TestRng, TestRunner};
use serde::{Deserialize, Serialize};
use serde_json::json;
use sha2::{Digest, Sha256};

use trust_runtime::error::RuntimeError;
use trust_runtime::harness::TestHarness;
use trust_runtime::debug::DebugControl;
use trust_runtime::eval::expr::LValue;
use trust_runtime::io::{IoAddress, IoDriver, IoInterface, IoSafeState};
use trust_runtime::retain::RetainStore;
use trust_runtime::RetainSnapshot;
use trust_runtime::scheduler::{Clock, ResourceRunner, ResourceState, SharedGlobals, StartGate};
use trust_runtime::simulation::{
    SimulationConfig, SimulationController, SimulationDisturbance, SimulationDisturbanceKind,
};
use trust_runtime::value::{Duration, Value};
use trust_runtime::watchdog::{FaultPolicy, WatchdogAction, WatchdogPolicy};
use trust_runtime::{RestartMode, Runtime};

use crate::engine::tape::{tape_strategy, Reader, Tape};
use crate::engine::{Probe, PropertyInfo, RunCtx};

pub fn info() -> PropertyInfo {
    PropertyInfo {
        id: "C08",
        level: "fault_enumeration",
        rule: "search `point`: one case = one fault history on one runtime: the FIRST fault is a fault point (site statement x cycle | driver read/write error x driver x cycle | watchdog_timeout / simulation_fault after c cycles) x failing-delivery driver x fault policy x watchdog action, enumerated exhaustively for each generated program (<= 12 site statements in programs + 0-3 task-bound FUNCTION_BLOCK instances, over 1-3 periodic or SINGLE-triggered tasks + background programs, nested FUNCTION/FB calls) with its generated safe-state map and 1-3 logging drivers; it is followed by 1-2 further faults on the same runtime (reduced grid over route {warm restart, cold restart, clear_fault, NO recovery} x fault kind x cycle x failing-delivery driver x fault-policy / watchdog-action switch x second armed site), each checked with the same oracle; a DebugControl is attached from the start / after the first fault / never and a counting retain store is configured or not (equal shares), and before the refused cycle requests of every fault a set of pending external inputs is left (queued debugger writes and forces on global/retain/instance/lvalue/%I/safe %Q targets, fresh input-image and driver data behind an AT %I variable, a dirty retain store) that must not take effect. search `runner`: proptest over (configuration, watchdog overrun | runtime error | scripted simulation fault, spawn | spawn_with_shared, policies) through the scheduler thread, the drivers sampling ResourceControl::state()/last_error() at every call. non-trivial = the first fault point lies inside a nested call, in a task-bound FB, in a task that also runs FB instances, or in a program that is not the first to run in the faulting cycle, or >= 2 drivers are attached, or a safe-state address overlaps a program output; distinct by SHA-256 of (program source, safe map, fault history)",
        assumptions: &[
            "an I/O driver 'with policy fault' is one whose read_inputs/write_outputs returns Err (io/modbus.rs handle_error: on_error=fault returns RuntimeError::IoDriver, warn/ignore return Ok); the logging drivers model exactly that",
            "'delivered to every driver' = write_outputs was invoked on the driver with an image holding the safe values, whether or not that driver then reports an error",
            "safe-state maps are well-typed per address size (what config.rs parse_io_value produces), use flat %Q addresses only and do not contain two entries for the same bits",
            "watchdog_timeout() and simulation_fault() are injected between cycles, the way scheduler.rs / simulation.rs call them",
            "through the scheduler 'the fault is reported' = ResourceState::Faulted / last_error() become visible through ResourceHandle/ResourceControl; no driver call may observe either",
            "a fault event that hits a resource which is still faulted must force the safe state like any other fault when its decision says so (the property's safe-state sentence is not limited to the first fault); whether it replaces last_fault() is not asserted",
            "'refused' is read as: nothing happens - no statement, no variable change (incl. AT %I-bound variables and queued/forced debugger values), no output-image change, no driver call, no retain-store write; the input IMAGE itself is not a variable and is not compared",
            "Runtime::clear_fault() is not named by the property: it is used only as a further route to a later fault (nothing is asserted about clear_fault itself; if it leaves the resource faulted the history ends without a verdict)",
        ],
        workers_quick: 8,
        workers_thorough: 16,
        address_space_limit: 0,
        watchdog_quick_s: 1800,
        watchdog_thorough_s: 7200,
        run,
    }
}

/// Helper subcommands (child processes of this check); None = not mine.
pub fn helper(_args: &[String]) -> Option<i32> {
    None
}

// ---------------------------------------------------------------------------------------
// Model of a generated configuration
// ---------------------------------------------------------------------------------------

#[derive(Clone, Copy, Debug, PartialEq, Eq)]
enum Form {
    Div,
    Mod,
    Index,
    IfDiv,
    ForDiv,
    CaseMod,
    RepeatDiv,
    Fn1,
    Fn2,
    Fb1,
    Fb2,
    /// the body of a FUNCTION_BLOCK instance that is associated with a task (`inst WITH T`)
    TaskFb,
    /// the same, the division sits in a FUNCTION called from that body
    TaskFbFn,
}

impl Form {
    fn name(self) -> &'static str {
        match self {
            Form::Div => "div",
            Form::Mod => "mod",
            Form::Index => "index",
            Form::IfDiv => "if_div",
            Form::ForDiv => "for_div",
            Form::CaseMod => "case_mod",
            Form::RepeatDiv => "repeat_div",
            Form::Fn1 => "function",
            Form::Fn2 => "function_in_function",
            Form::Fb1 => "fb",
            Form::Fb2 => "fb_in_fb",
            Form::TaskFb => "task_bound_fb",
            Form::TaskFbFn => "function_in_task_bound_fb",
        }
    }
    /// Call nesting of the statement that actually faults (0 = program body).
    fn depth(self) -> u8 {
        match self {
            Form::Fn1 | Form::Fb1 | Form::TaskFbFn => 1,
            Form::Fn2 | Form::Fb2 => 2,
            _ => 0,
        }
    }
}

#[derive(Clone, Debug)]
struct Site {
    form: Form,
    /// program that owns the statement (for a task-bound FB: that declares the instance)
    prog: usize,
    /// task that executes the statement (None = background program)
    task: Option<usize>,
    /// name of the VAR_GLOBAL that controls the fault (`d3` / `i3`)
    ctl: String,
    /// value that makes the statement fault
    fault_value: i32,
    /// counter global (`n3`), incremented once or twice per execution
    counter: String,
}

#[allow(dead_code)]
#[derive(Clone, Debug)]
struct OutVar {
    name: String,
    /// first bit of the output in the %Q image and its length in bits
    bit0: u32,
    bits: u32,
}

#[derive(Clone, Debug)]
struct SafeEntry {
    text: String,
    addr: IoAddress,
    value: Value,
    overlaps_output: bool,
}

#[allow(dead_code)]
#[derive(Clone, Debug)]
struct Model {
    source: String,
    sites: Vec<Site>,
    /// task index per program (None = background program)
    prog_task: Vec<Option<usize>>,
    ntasks: usize,
    outputs: Vec<OutVar>,
    safe: Vec<SafeEntry>,
    ndrivers: usize,
    /// BOOL globals that trigger the SINGLE (event) tasks; the harness toggles them
    triggers: Vec<String>,
    /// per task: is it a SINGLE (event) task
    event_task: Vec<bool>,
}

fn addr_text(bit0: u32, bits: u32) -> String {
    let byte = bit0 / 8;
    match bits {
        1 => format!("%QX{}.{}", byte, bit0 % 8),
        8 => format!("%QB{byte}"),
        16 => format!("%QW{byte}"),
        32 => format!("%QD{byte}"),
        _ => format!("%QL{byte}"),
    }
}

fn ranges_overlap(a0: u32, alen: u32, b0: u32, blen: u32) -> bool {
    a0 < b0 + blen && b0 < a0 + alen
}

/// Deterministic function of the tape. Low tape values give the simplest configuration
/// (one task, one program, one plain division, one driver, a one-entry map).
fn generate(tape: &Tape) -> Model {
    let mut r = Reader::new(tape);
    let ntasks = 1 + r.weighted(&[4, 3, 3]);
    let nprogs = 1 + r.weighted(&[3, 3, 2, 2]);
    let ndrivers = 1 + r.weighted(&[3, 4, 3]);
    let nsites = 1 + r.pick(12);

    // tasks: interval 10/20/30 ms, priorities a permutation-ish pick (ties allowed)
    let mut task_params: Vec<(u32, usize)> = Vec::new();
    for _ in 0..ntasks {
        let interval = [10, 20, 30][r.weighted(&[5, 3, 2])];
        let prio = 1 + r.pick(3);
        task_params.push((interval, prio));
    }
    // programs -> task (index ntasks = background)
    let mut prog_task = Vec::new();
    for _ in 0..nprogs {
        let t = r.pick(ntasks + 1);
        prog_task.push(if t == ntasks { None } else { Some(t) });
    }

    // program outputs: up to 5, laid out from byte 0 upwards (no alignment on purpose)
    let nouts = r.weighted(&[1, 3, 3, 2, 2, 1]);
    let mut outputs: Vec<OutVar> = Vec::new();
    // (owner program, declaration line if local, assignment statement)
    let mut out_decl_local: Vec<Vec<String>> = vec![Vec::new(); nprogs];
    let mut out_decl_global: Vec<String> = Vec::new();
    let mut out_external: Vec<Vec<String>> = vec![Vec::new(); nprogs];
    let mut out_stmt: Vec<Vec<String>> = vec![Vec::new(); nprogs];
    let mut next_byte: u32 = 0;
    let mut next_bit: u32 = 0;
    for j in 0..nouts {
        let size = r.weighted(&[4, 3, 3]); // bit, byte, word
        let owner = r.pick(nprogs);
        let global = r.chance(1, 3);
        let name = format!("q{j}");
        let (bit0, bits, ty, lit) = match size {
            0 => {
                if next_bit >= 8 {
                    next_bit = 0;
                    next_byte += 1;
                }
                let b = next_byte * 8 + next_bit;
                next_bit += 1 + r.pick(3) as u32;
                (b, 1, "BOOL", "TRUE".to_string())
            }
            1 => {
                if next_bit > 0 {
                    next_bit = 0;
                    next_byte += 1;
                }
                let b = next_byte * 8;
                next_byte += 1;
                let v = [0xA5u32, 0xFF, 0x01, 0x80, 0x5A][r.pick(5)];
                (b, 8, "BYTE", format!("BYTE#16#{v:02X}"))
            }
            _ => {
                if next_bit > 0 {
                    next_bit = 0;
                    next_byte += 1;
                }
                let b = next_byte * 8;
                next_byte += 2;
                let v = [0xBEEFu32, 0xFFFF, 0x0100, 0x8001, 0x00FF][r.pick(5)];
                (b, 16, "WORD", format!("WORD#16#{v:04X}"))
            }
        };
        let at = addr_text(bit0, bits);
        if global {
            out_decl_global.push(format!("    {name} AT {at} : {ty};\n"));
            out_external[owner].push(format!("    {name} : {ty};\n"));
        } else {
            out_decl_local[owner].push(format!("    {name} AT {at} : {ty};\n"));
        }
        out_stmt[owner].push(format!("{name} := {lit};\n"));
        outputs.push(OutVar { name, bit0, bits });
    }
    if next_bit > 0 {
        next_byte += 1;
    }

    // sites
    let mut sites: Vec<Site> = Vec::new();
    let mut globals = String::new();
    let mut retain_globals = String::new();
    let mut prog_ext: Vec<String> = vec![String::new(); nprogs];
    let mut prog_var: Vec<String> = vec![String::new(); nprogs];
    let mut prog_body: Vec<Vec<String>> = vec![Vec::new(); nprogs];
    let mut uses = [false; 4]; // F1, F2, FB1, FB2
    let mut prog_arr = vec![false; nprogs];
    let mut prog_loop = vec![false; nprogs];
    for k in 0..nsites {
        let form = [
            Form::Div,
            Form::Index,
            Form::Mod,
            Form::IfDiv,
            Form::ForDiv,
            Form::CaseMod,
            Form::RepeatDiv,
            Form::Fn1,
            Form::Fb1,
            Form::Fn2,
            Form::Fb2,
        ][r.weighted(&[3, 3, 2, 2, 2, 1, 1, 3, 3, 3, 3])];
        let prog = r.pick(nprogs);
        let counter = format!("n{k}");
        // some counters are DWORD-size program outputs themselves
        let counter_is_output = !r.chance(4, 5); // a zero tape word means: plain counter
        if counter_is_output {
            let bit0 = next_byte * 8;
            next_byte += 4;
            globals.push_str(&format!(
                "    {counter} AT {} : DINT := 0;\n",
                addr_text(bit0, 32)
            ));
            outputs.push(OutVar {
                name: counter.clone(),
                bit0,
                bits: 32,
            });
        } else if k % 2 == 0 {
            // every second plain counter is a RETAIN global: a value that changed in the
            // faulting cycle is a pending retain-store save
            retain_globals.push_str(&format!("    {counter} : DINT := 0;\n"));
        } else {
            globals.push_str(&format!("    {counter} : DINT := 0;\n"));
        }
        let (ctl, fault_value) = if form == Form::Index {
            let normal = [0, 1, -2, 2][r.pick(4)];
            globals.push_str(&format!("    i{k} : DINT := {normal};\n"));
            (format!("i{k}"), [3, -3, 1_000_000, -1_000_000][r.pick(4)])
        } else {
            let normal = [1, -1, 7, 2_147_483_647][r.pick(4)];
            globals.push_str(&format!("    d{k} : DINT := {normal};\n"));
            (format!("d{k}"), 0)
        };
        prog_ext[prog].push_str(&format!("    {counter} : DINT;\n    {ctl} : DINT;\n"));
        let c = &counter;
        let stmt = match form {
            Form::Div => format!("{c} := {c} + DINT#1 + DINT#0 / {ctl};\n"),
            Form::Mod => format!("{c} := {c} + DINT#1 + DINT#0 MOD {ctl};\n"),
            Form::Index => {
                prog_arr[prog] = true;
                format!("{c} := {c} + arr[{ctl}] + DINT#1;\n")
            }
            Form::IfDiv => format!(
                "IF {c} >= DINT#0 THEN\n  {c} := {c} + DINT#1 + DINT#0 / {ctl};\nEND_IF;\n"
            ),
            Form::ForDiv => {
                prog_loop[prog] = true;
                format!(
                    "FOR k := DINT#0 TO DINT#1 DO\n  {c} := {c} + DINT#1 + DINT#0 / {ctl};\nEND_FOR;\n"
                )
            }
            Form::CaseMod => format!(
                "CASE {c} OF\n  0..1000000: {c} := {c} + DINT#1 + DINT#0 MOD {ctl};\nEND_CASE;\n"
            ),
            Form::RepeatDiv => format!(
                "REPEAT {c} := {c} + DINT#1 + DINT#0 / {ctl}; UNTIL TRUE END_REPEAT;\n"
            ),
            Form::Fn1 => {
                uses[0] = true;
                format!("{c} := {c} + F1({ctl});\n")
            }
            Form::Fn2 => {
                uses[0] = true;
                uses[1] = true;
                format!("{c} := {c} + F2({ctl});\n")
            }
            Form::Fb1 => {
                uses[2] = true;
                prog_var[prog].push_str(&format!("    inst{k} : FB1;\n"));
                format!("inst{k}(d := {ctl});\n{c} := {c} + inst{k}.o;\n")
            }
            Form::TaskFb | Form::TaskFbFn => unreachable!("task-bound FB sites are added after the program bodies"),
            Form::Fb2 => {
                uses[2] = true;
                uses[3] = true;
                prog_var[prog].push_str(&format!("    inst{k} : FB2;\n"));
                format!("inst{k}(d := {ctl});\n{c} := {c} + inst{k}.o;\n")
            }
        };
        prog_body[prog].push(stmt);
        sites.push(Site {
            form,
            prog,
            task: prog_task[prog],
            ctl,
            fault_value,
            counter,
        });
    }
    // place the output assignments somewhere in the owner's body
    for p in 0..nprogs {
        for s in std::mem::take(&mut out_stmt[p]) {
            let at = r.pick(prog_body[p].len() + 1);
            prog_body[p].insert(at, s);
        }
    }

    // safe-state map
    let nsafe = r.weighted(&[3, 1, 3, 3, 2, 1]); // index 0 -> 1 entry, 1 -> empty map
    let nsafe = match nsafe {
        0 => 1,
        1 => 0,
        n => n,
    };
    let mut safe: Vec<SafeEntry> = Vec::new();
    let mut used: Vec<(u32, u32)> = Vec::new();
    let free_base = next_byte; // first byte no program output uses
    for _ in 0..nsafe {
        let mode = r.weighted(&[3, 2, 1, 2, 1, 3]);
        let pick_out = if outputs.is_empty() {
            None
        } else {
            Some(outputs[r.pick(outputs.len())].clone())
        };
        let sel = r.word();
        let (bit0, bits) = match (mode, pick_out) {
            // exactly a program output
            (0, Some(o)) => (o.bit0, o.bits),
            // a part of a program output (bit inside byte/word/dword, byte inside word/dword)
            (1, Some(o)) => {
                if o.bits == 1 {
                    (o.bit0, 1)
                } else if o.bits >= 16 && sel & 1 == 1 {
                    let nbytes = o.bits / 8;
                    (o.bit0 + 8 * ((sel >> 1) % nbytes), 8)
                } else {
                    (o.bit0 + (sel >> 1) % o.bits, 1)
                }
            }
            // something larger around a program output
            (2, Some(o)) => {
                let byte = o.bit0 / 8;
                if o.bits == 1 && sel & 1 == 0 {
                    (byte * 8, 8)
                } else if o.bits <= 8 {
                    (byte * 8, 16)
                } else {
                    (byte.saturating_sub(1) * 8, 32)
                }
            }
            // right next to the previous entry: another bit of the same byte after a bit
            // entry, otherwise the bit / byte / word that starts where the previous entry ends
            (5, _) if !used.is_empty() => {
                let (pb, pl) = *used.last().unwrap();
                if pl == 1 {
                    let base = pb / 8 * 8;
                    let free: Vec<u32> = (base..base + 8)
                        .filter(|b| !used.iter().any(|(u, l)| ranges_overlap(*u, *l, *b, 1)))
                        .collect();
                    if free.is_empty() {
                        (base + 8, 1)
                    } else {
                        (free[(sel as usize >> 4) % free.len()], 1)
                    }
                } else {
                    let start = pb + pl;
                    match sel % 3 {
                        0 => (start + (sel >> 4) % 8, 1),
                        1 => (start, 8),
                        _ => (start, 16),
                    }
                }
            }
            // unbound, near
            (3, _) | (5, _) | (0..=2, None) => {
                let byte = free_base + (sel >> 8) % 6;
                match sel % 4 {
                    0 => (byte * 8 + (sel >> 4) % 8, 1),
                    1 => (byte * 8, 8),
                    2 => (byte * 8, 16),
                    _ => (byte * 8, 32),
                }
            }
            // unbound, far beyond the image the program uses
            _ => {
                let byte = 24 + (sel >> 8) % 40;
                match sel % 5 {
                    0 => (byte * 8 + (sel >> 4) % 8, 1),
                    1 => (byte * 8, 8),
                    2 => (byte * 8, 16),
                    3 => (byte * 8, 32),
                    _ => (byte * 8, 64),
                }
            }
        };
        let raw = r.u64();
        if used.iter().any(|(b, l)| ranges_overlap(*b, *l, bit0, bits)) {
            continue; // the map never holds two entries for the same bits
        }
        used.push((bit0, bits));
        let pattern = match raw % 4 {
            0 => 0u64,
            1 => u64::MAX,
            _ => raw >> 2,
        };
        let value = match bits {
            1 => Value::Bool(pattern & 1 == 1),
            8 => Value::Byte(pattern as u8),
            16 => Value::Word(pattern as u16),
            32 => Value::DWord(pattern as u32),
            _ => Value::LWord(pattern),
        };
        let text = addr_text(bit0, bits);
        let addr = IoAddress::parse(&text).expect("generated address parses");
        let overlaps_output = outputs
            .iter()
            .any(|o| ranges_overlap(o.bit0, o.bits, bit0, bits));
        safe.push(SafeEntry {
            text,
            addr,
            value,
            overlaps_output,
        });
    }

    // ---- read LAST, so that tapes recorded before these features keep their meaning ----
    // task-bound FUNCTION_BLOCK instances (`PROGRAM I0 WITH T0 : P0 (tb12 WITH T1);`): each
    // is one more site; its task is any task (the owner's task, another one, or a task that
    // has no program at all = an FB-only task). A task runs its programs first, then its
    // FB instances.
    let nextra = r.weighted(&[2, 3, 2, 1]);
    let mut task_fb_types = String::new();
    let mut prog_assoc: Vec<Vec<String>> = vec![Vec::new(); nprogs];
    for _ in 0..nextra {
        let k = sites.len();
        let prog = r.pick(nprogs);
        let task = r.pick(ntasks);
        let in_function = r.chance(1, 3);
        let normal = [1, -1, 7, 2_147_483_647][r.pick(4)];
        globals.push_str(&format!("    n{k} : DINT := 0;\n    d{k} : DINT := {normal};\n"));
        let body = if in_function {
            uses[0] = true;
            format!("n{k} := n{k} + F1(d{k});\n")
        } else {
            format!("n{k} := n{k} + DINT#1 + DINT#0 / d{k};\n")
        };
        task_fb_types.push_str(&format!(
            "FUNCTION_BLOCK TB{k}\nVAR_EXTERNAL\n    n{k} : DINT;\n    d{k} : DINT;\nEND_VAR\n{body}END_FUNCTION_BLOCK\n\n"
        ));
        prog_var[prog].push_str(&format!("    tb{k} : TB{k};\n"));
        prog_assoc[prog].push(format!("tb{k} WITH T{task}"));
        sites.push(Site {
            form: if in_function { Form::TaskFbFn } else { Form::TaskFb },
            prog,
            task: Some(task),
            ctl: format!("d{k}"),
            fault_value: 0,
            counter: format!("n{k}"),
        });
    }
    // SINGLE (event) tasks: a quarter of the tasks are triggered by the rising edge of a BOOL
    // global instead of an interval; the harness toggles the trigger before every cycle
    let mut triggers: Vec<String> = Vec::new();
    let mut event_task = vec![false; ntasks];
    let mut task_decl = String::new();
    for (t, (interval, prio)) in task_params.iter().enumerate() {
        if !r.chance(3, 4) {
            event_task[t] = true;
            globals.push_str(&format!("    trig{t} : BOOL := FALSE;\n"));
            triggers.push(format!("trig{t}"));
            task_decl.push_str(&format!("TASK T{t} (SINGLE := trig{t}, PRIORITY := {prio});\n"));
        } else {
            task_decl.push_str(&format!(
                "TASK T{t} (INTERVAL := T#{interval}ms, PRIORITY := {prio});\n"
            ));
        }
    }

    // source text
    let mut src = String::from("CONFIGURATION Conf\nVAR_GLOBAL\n");
    src.push_str(&globals);
    for g in &out_decl_global {
        src.push_str(g);
    }
    // targets of pending external inputs (never touched by a program statement): a plain
    // global for queued debugger writes / forces and a variable bound to the input image
    src.push_str("    dbgw : DINT := 0;\n    inw AT %IW0 : WORD;\n");
    src.push_str("END_VAR\n");
    if !retain_globals.is_empty() {
        src.push_str("VAR_GLOBAL RETAIN\n");
        src.push_str(&retain_globals);
        src.push_str("END_VAR\n");
    }
    src.push_str(&task_decl);
    for (p, t) in prog_task.iter().enumerate() {
        let assoc = if prog_assoc[p].is_empty() {
            String::new()
        } else {
            format!(" ({})", prog_assoc[p].join(", "))
        };
        match t {
            Some(t) => src.push_str(&format!("PROGRAM I{p} WITH T{t} : P{p}{assoc};\n")),
            None => src.push_str(&format!("PROGRAM I{p} : P{p}{assoc};\n")),
        }
    }
    src.push_str("END_CONFIGURATION\n\n");
    if uses[0] {
        src.push_str("FUNCTION F1 : DINT\nVAR_INPUT d : DINT; END_VAR\nF1 := DINT#1 + DINT#0 / d;\nEND_FUNCTION\n\n");
    }
    if uses[1] {
        src.push_str("FUNCTION F2 : DINT\nVAR_INPUT d : DINT; END_VAR\nF2 := F1(d);\nEND_FUNCTION\n\n");
    }
    if uses[2] {
        src.push_str("FUNCTION_BLOCK FB1\nVAR_INPUT d : DINT; END_VAR\nVAR_OUTPUT o : DINT; END_VAR\no := DINT#1 + DINT#0 / d;\nEND_FUNCTION_BLOCK\n\n");
    }
    src.push_str(&task_fb_types);
    if uses[3] {
        src.push_str("FUNCTION_BLOCK FB2\nVAR_INPUT d : DINT; END_VAR\nVAR_OUTPUT o : DINT; END_VAR\nVAR inner : FB1; END_VAR\ninner(d := d);\no := inner.o;\nEND_FUNCTION_BLOCK\n\n");
    }
    for p in 0..nprogs {
        src.push_str(&format!("PROGRAM P{p}\n"));
        if !prog_ext[p].is_empty() || !out_external[p].is_empty() {
            src.push_str("VAR_EXTERNAL\n");
            src.push_str(&prog_ext[p]);
            for e in &out_external[p] {
                src.push_str(e);
            }
            src.push_str("END_VAR\n");
        }
        src.push_str("VAR\n");
        src.push_str(&prog_var[p]);
        if prog_arr[p] {
            src.push_str("    arr : ARRAY[-2..2] OF DINT;\n");
        }
        if prog_loop[p] {
            src.push_str("    k : DINT;\n");
        }
        for d in &out_decl_local[p] {
            src.push_str(d);
        }
        src.push_str("    spare : DINT;\nEND_VAR\n");
        for s in &prog_body[p] {
            src.push_str(s);
        }
        src.push_str("END_PROGRAM\n\n");
    }

    Model {
        source: src,
        sites,
        prog_task,
        ntasks,
        outputs,
        safe,
        ndrivers,
        triggers,
        event_task,
    }
}

// ---------------------------------------------------------------------------------------
// Fault points
// ---------------------------------------------------------------------------------------

#[derive(Clone, Copy, Debug, PartialEq, Eq, Serialize, Deserialize)]
pub enum Pol {
    Halt,
    SafeHalt,
}

#[derive(Clone, Debug, PartialEq, Eq, Serialize, Deserialize)]
pub enum Kind {
    /// runtime error at site statement `site`
    Site { site: u8 },
    /// driver `driver` fails read_inputs in the faulting cycle; `dead` = every later call
    /// of that driver (reads and writes) fails as well
    Read { driver: u8, dead: bool },
    /// driver `driver` fails write_outputs when the faulting cycle publishes its outputs
    Write { driver: u8, dead: bool },
    /// `Runtime::watchdog_timeout()` after `cycle` completed cycles
    Watchdog,
    /// `Runtime::simulation_fault()` after `cycle` completed cycles
    Sim,
}

#[derive(Clone, Debug, PartialEq, Eq, Serialize, Deserialize)]
pub struct Point {
    pub kind: Kind,
    /// 1..=3: the faulting cycle (Site/Read/Write) or the number of completed cycles before
    /// the injected call (Watchdog/Sim)
    pub cycle: u8,
    pub policy: Pol,
    pub watchdog: Pol,
    /// a driver whose write_outputs fails from the fault on, i.e. during safe-state delivery
    pub deliver_fail: Option<u8>,
    /// mode of the final restart (after the last fault of the history)
    pub warm_restart: bool,
    /// further faults on the same runtime, each after a recovery from the previous one
    #[serde(default)]
    pub more: Vec<Next>,
    /// when a `DebugControl` is attached (`Runtime::enable_debug`)
    #[serde(default)]
    pub debugger: DebugAttach,
    /// a logging retain store with save interval 0 is configured
    #[serde(default)]
    pub retain_store: bool,
}

#[derive(Clone, Copy, Debug, Default, PartialEq, Eq, Serialize, Deserialize)]
pub enum DebugAttach {
    #[default]
    Never,
    /// before the first cycle: the whole history runs with the debugger attached
    FromStart,
    /// only once the first fault has been reported
    AfterFirstFault,
}

#[derive(Clone, Copy, Debug, PartialEq, Eq, Serialize, Deserialize)]
pub enum Via {
    RestartWarm,
    RestartCold,
    /// `Runtime::clear_fault()` - not named by the property; only a route to another fault
    ClearFault,
    /// no recovery at all: a further fault event that needs no cycle (`watchdog_timeout()`,
    /// `simulation_fault()`) hits the resource while it is still faulted
    Stay,
}

#[derive(Clone, Debug, PartialEq, Eq, Serialize, Deserialize)]
pub struct Next {
    pub via: Via,
    pub kind: Kind,
    /// 1..=3: the fault cause is made present after `cycle - 1` clean cycles
    pub cycle: u8,
    pub deliver_fail: Option<u8>,
    /// `set_fault_policy` before this fault (None = unchanged)
    #[serde(default)]
    pub set_policy: Option<Pol>,
    /// `set_watchdog_policy` (action) before this fault (None = unchanged)
    #[serde(default)]
    pub set_watchdog: Option<Pol>,
    /// with `Kind::Site`: a second site that gets its faulting value at the same time (e.g. a
    /// program statement AND the task-bound FB of the same task); the first to run faults
    #[serde(default)]
    pub also_site: Option<u8>,
}

#[derive(Clone, Debug, Serialize, Deserialize)]
pub struct PointCase {
    pub tape: Tape,
    pub point: Point,
    /// replay files only: the safe-state map the tape is meant to generate; if the generator
    /// is changed and the tape no longer means that, the replay is reported (exit 2)
    /// instead of silently testing something else
    #[serde(default)]
    pub expect_map: Option<String>,
}

// ---------------------------------------------------------------------------------------
// Logging drivers
// ---------------------------------------------------------------------------------------

#[derive(Clone, Copy, Debug, PartialEq, Eq)]
enum Mode {
    Ok,
    FailOnce,
    FailAlways,
}

#[allow(dead_code)]
#[derive(Debug)]
enum Event {
    Read { driver: usize },
    Write { driver: usize, payload: Vec<u8> },
}

type Observer = Box<dyn Fn() -> (ResourceState, Option<RuntimeError>) + Send>;

struct Shared {
    events: Vec<Event>,
    read_mode: Vec<Mode>,
    write_mode: Vec<Mode>,
    /// runner search: what an outside observer of the resource thread sees right now
    observer: Option<Observer>,
    /// (event index, state, last_error) sampled at each driver call while `observer` is set
    seen: Vec<(usize, ResourceState, Option<RuntimeError>)>,
}

impl Shared {
    fn observe(&mut self) {
        if let Some(obs) = &self.observer {
            let (state, err) = obs();
            self.seen.push((self.events.len() - 1, state, err));
        }
    }
}

struct LogDriver {
    id: usize,
    shared: Arc<Mutex<Shared>>,
}

fn take_mode(m: &mut Mode) -> bool {
    match *m {
        Mode::Ok => false,
        Mode::FailOnce => {
            *m = Mode::Ok;
            true
        }
        Mode::FailAlways => true,
    }
}

impl IoDriver for LogDriver {
    fn read_inputs(&mut self, inputs: &mut [u8]) -> Result<(), RuntimeError> {
        let mut s = self.shared.lock().unwrap();
        s.events.push(Event::Read { driver: self.id });
        s.observe();
        // the driver always has fresh input data (a changing pattern)
        let stamp = s.events.len() as u8;
        for (i, b) in inputs.iter_mut().enumerate() {
            *b = stamp.wrapping_add(i as u8).wrapping_add(self.id as u8);
        }
        if take_mode(&mut s.read_mode[self.id]) {
            return Err(RuntimeError::IoDriver(
                format!("driver {} read failed", self.id).into(),
            ));
        }
        Ok(())
    }

    fn write_outputs(&mut self, outputs: &[u8]) -> Result<(), RuntimeError> {
        let mut s = self.shared.lock().unwrap();
        s.events.push(Event::Write {
            driver: self.id,
            payload: outputs.to_vec(),
        });
        s.observe();
        if take_mode(&mut s.write_mode[self.id]) {
            return Err(RuntimeError::IoDriver(
                format!("driver {} write failed", self.id).into(),
            ));
        }
        Ok(())
    }
}

/// Retain store that only counts what it is asked to do.
struct LogRetainStore {
    stores: Arc<Mutex<u64>>,
}

impl RetainStore for LogRetainStore {
    fn load(&self) -> Result<RetainSnapshot, RuntimeError> {
        Ok(RetainSnapshot::default())
    }
    fn store(&self, _snapshot: &RetainSnapshot) -> Result<(), RuntimeError> {
        *self.stores.lock().unwrap() += 1;
        Ok(())
    }
}

// ---------------------------------------------------------------------------------------
// Observation helpers
// ---------------------------------------------------------------------------------------

/// Names of the variables that differ between two storage states (for messages).
fn storage_view(rt: &Runtime) -> Vec<(String, String)> {
    let st = rt.storage();
    let mut out: Vec<(String, String)> = Vec::new();
    for (k, v) in st.globals() {
        out.push((format!("global {k}"), format!("{v:?}")));
    }
    for (k, v) in st.retain() {
        out.push((format!("retain {k}"), format!("{v:?}")));
    }
    let mut ids: Vec<_> = st.instances().keys().copied().collect();
    ids.sort_by_key(|i| i.0);
    for id in ids {
        if let Some(inst) = st.instances().get(&id) {
            for (k, v) in &inst.variables {
                out.push((format!("instance {} ({}) {k}", id.0, inst.type_name), format!("{v:?}")));
            }
        }
    }
    out
}

fn storage_diff(before: &[(String, String)], after: &[(String, String)]) -> String {
    let mut out = Vec::new();
    for (k, v) in after {
        match before.iter().find(|(bk, _)| bk == k) {
            Some((_, bv)) if bv == v => {}
            Some((_, bv)) => out.push(format!("{k}: {bv} -> {v}")),
            None => out.push(format!("{k}: (absent) -> {v}")),
        }
    }
    for (k, v) in before {
        if !after.iter().any(|(ak, _)| ak == k) {
            out.push(format!("{k}: {v} -> (absent)"));
        }
    }
    out.join("; ")
}

fn storage_digest(rt: &Runtime) -> String {
    let st = rt.storage();
    let mut h = Sha256::new();
    h.update(format!("{:?}", st.globals()).as_bytes());
    h.update(format!("{:?}", st.retain()).as_bytes());
    let mut ids: Vec<_> = st.instances().keys().copied().collect();
    ids.sort_by_key(|i| i.0);
    for id in ids {
        h.update(format!("{:?}={:?}", id, st.instances().get(&id)).as_bytes());
    }
    h.update(format!("{:?}", st.frames()).as_bytes());
    h.finalize().iter().map(|b| format!("{b:02x}")).collect()
}

fn counters(rt: &Runtime, model: &Model) -> Vec<i64> {
    model
        .sites
        .iter()
        .map(|s| match rt.storage().get_global(&s.counter) {
            Some(Value::DInt(v)) => *v as i64,
            Some(Value::LInt(v)) => *v,
            Some(Value::Int(v)) => *v as i64,
            _ => i64::MIN,
        })
        .collect()
}

/// Decode `addr` from a driver payload with the runtime's own image decoder.
fn read_from_payload(payload: &[u8], addr: &IoAddress) -> Result<Value, String> {
    let mut io = IoInterface::new();
    io.resize(0, payload.len(), 0);
    io.outputs_mut().copy_from_slice(payload);
    io.read(addr).map_err(|e| format!("{e:?}"))
}

fn pol_fault(p: Pol) -> FaultPolicy {
    match p {
        Pol::Halt => FaultPolicy::Halt,
        Pol::SafeHalt => FaultPolicy::SafeHalt,
    }
}

fn pol_watchdog(p: Pol) -> WatchdogAction {
    match p {
        Pol::Halt => WatchdogAction::Halt,
        Pol::SafeHalt => WatchdogAction::SafeHalt,
    }
}

thread_local! {
    /// Generator / infrastructure trouble seen inside a case (reported as inconclusive, exit 2).
    static TROUBLE: std::cell::RefCell<Vec<String>> = const { std::cell::RefCell::new(Vec::new()) };
}

fn trouble(msg: String) {
    TROUBLE.with(|t| {
        let mut t = t.borrow_mut();
        if t.len() < 3 {
            t.push(msg);
        }
    });
}

fn flush_trouble(ctx: &mut RunCtx) {
    let msgs: Vec<String> = TROUBLE.with(|t| std::mem::take(&mut *t.borrow_mut()));
    for m in msgs {
        ctx.inconclusive(format!("generator trouble (not a violation): {m}"));
    }
}

const STEP_MS: i64 = 10;
const FAULT_CYCLES: u8 = 3;
const LATER_CYCLES: usize = 2;

/// Fault-free run: which sites execute in which cycle (1-based cycle -> set of sites).
fn dry_run(model: &Model) -> Result<Vec<Vec<bool>>, String> {
    let mut h = TestHarness::from_source(&model.source)
        .map_err(|e| format!("generated program does not compile: {e:?}"))?;
    let mut out = Vec::new();
    let mut trig = false;
    for c in 1..=FAULT_CYCLES + LATER_CYCLES as u8 + 1 {
        let before = counters(h.runtime(), model);
        h.advance_time(Duration::from_millis(STEP_MS));
        trig = !trig;
        for t in &model.triggers {
            h.runtime_mut().storage_mut().set_global(t.as_str(), Value::Bool(trig));
        }
        if let Err(e) = h.runtime_mut().execute_cycle() {
            return Err(format!("fault-free run faults in cycle {c}: {e:?}"));
        }
        let after = counters(h.runtime(), model);
        out.push(before.iter().zip(after.iter()).map(|(a, b)| a != b).collect());
    }
    Ok(out)
}

fn enumerate_points(model: &Model, runs: &[Vec<bool>]) -> Vec<Point> {
    let mut kinds: Vec<(Kind, u8, Vec<Option<u8>>)> = Vec::new();
    let nd = model.ndrivers as u8;
    let deliver: Vec<Option<u8>> = std::iter::once(None).chain((0..nd).map(Some)).collect();
    for c in 1..=FAULT_CYCLES {
        for (k, _) in model.sites.iter().enumerate() {
            if runs[c as usize - 1][k] {
                kinds.push((Kind::Site { site: k as u8 }, c, deliver.clone()));
            }
        }
        for d in 0..nd {
            for dead in [false, true] {
                kinds.push((Kind::Read { driver: d, dead }, c, vec![None]));
                kinds.push((Kind::Write { driver: d, dead }, c, vec![None]));
            }
        }
        kinds.push((Kind::Watchdog, c, deliver.clone()));
        kinds.push((Kind::Sim, c, deliver.clone()));
    }
    let mut out = Vec::new();
    let mut flip = false;
    let mut c: usize = 0;
    for (kind, cycle, delivers) in kinds {
        for deliver_fail in delivers {
            for policy in [Pol::Halt, Pol::SafeHalt] {
                for watchdog in [Pol::Halt, Pol::SafeHalt] {
                    flip = !flip;
                    // The first fault is enumerated exhaustively; the continuation (1 or 2
                    // further faults on the same runtime) walks a reduced grid: a mixed-radix
                    // counter over the points of this program, so that every (route, kind)
                    // pair follows every kind of first fault many times.
                    let extra = 1 + (c / 45) % 2;
                    let more = (0..extra)
                        .map(|r| continuation(model, c.wrapping_mul(1 + 30 * r).wrapping_add(17 * r)))
                        .collect();
                    c += 1;
                    out.push(Point {
                        kind: kind.clone(),
                        cycle,
                        policy,
                        watchdog,
                        deliver_fail,
                        warm_restart: flip,
                        more,
                        debugger: [DebugAttach::FromStart, DebugAttach::Never, DebugAttach::AfterFirstFault]
                            [(c / 2) % 3],
                        retain_store: (c / 6) % 2 == 1,
                    });
                }
            }
        }
    }
    out
}

/// Element `c` of the reduced continuation grid (deterministic, no randomness).
fn continuation(model: &Model, c: usize) -> Next {
    let nd = model.ndrivers;
    let ns = model.sites.len();
    let via = match (c / 5) % 4 {
        0 => Via::RestartWarm,
        1 => Via::RestartCold,
        2 => Via::ClearFault,
        _ => Via::Stay,
    };
    let mut kind = match c % 5 {
        0 => Kind::Site { site: ((c / 5).wrapping_mul(7).wrapping_add(c / 20) % ns) as u8 },
        1 => Kind::Read { driver: ((c / 5) % nd) as u8, dead: (c / 10) % 2 == 1 },
        2 => Kind::Write { driver: ((c / 5) % nd) as u8, dead: (c / 10) % 2 == 1 },
        3 => Kind::Watchdog,
        _ => Kind::Sim,
    };
    if via == Via::Stay && !matches!(kind, Kind::Watchdog | Kind::Sim) {
        // a resource that stays faulted refuses cycles: only events that need no cycle
        kind = if c % 2 == 0 { Kind::Watchdog } else { Kind::Sim };
    }
    let cycle = 1 + ((c / 20) % 3) as u8;
    // a failing delivery driver only where the next write_outputs of that driver can be the
    // safe delivery or the publish of the faulting cycle (either way it is a fault)
    let deliver_fail = match kind {
        Kind::Read { .. } | Kind::Write { .. } => None,
        _ if (c / 3) % 3 == 0 => Some(((c / 9) % nd) as u8),
        _ => None,
    };
    // policy switches between the faults (most often when the resource stays faulted: that
    // is where a first fault under `halt` has left the outputs untouched)
    let set_policy = match (c / 7) % (if via == Via::Stay { 2 } else { 4 }) {
        1 => Some(if (c / 14) % 3 == 0 { Pol::Halt } else { Pol::SafeHalt }),
        _ => None,
    };
    let set_watchdog = match (c / 11) % 4 {
        1 => Some(if (c / 22) % 2 == 0 { Pol::Halt } else { Pol::SafeHalt }),
        _ => None,
    };
    // "in both": a second site armed together with the first one; prefer a task-bound FB of
    // the same task when the first is a program statement (and the other way round)
    let also_site = match &kind {
        Kind::Site { site } if ns >= 2 && (c / 4) % 2 == 0 => {
            let me = &model.sites[*site as usize];
            let me_bound = matches!(me.form, Form::TaskFb | Form::TaskFbFn);
            let partner = model.sites.iter().position(|o| {
                o.task == me.task
                    && me.task.is_some()
                    && matches!(o.form, Form::TaskFb | Form::TaskFbFn) != me_bound
            });
            Some(partner.unwrap_or((*site as usize + 1 + c / 8) % ns) as u8).filter(|a| a != site)
        }
        _ => None,
    };
    Next {
        via,
        kind,
        cycle,
        deliver_fail,
        set_policy,
        set_watchdog,
        also_site,
    }
}

fn describe(model: &Model, point: &Point) -> String {
    let map: Vec<String> = model
        .safe
        .iter()
        .map(|e| format!("{}={:?}", e.text, e.value))
        .collect();
    format!(
        "fault point {point:?}; {} driver(s); safe-state map [{}]; program:\n{}",
        model.ndrivers,
        map.join(", "),
        model.source
    )
}

/// Run one fault history against a fresh runtime and check the oracle.
fn check_point(model: &Model, point: &Point, probe: &mut Probe) -> Result<(), String> {
    check_point_inner(model, point, probe).map_err(|m| format!("{m}\n--- {}", describe(model, point)))
}

struct Session<'a> {
    h: TestHarness,
    shared: Arc<Mutex<Shared>>,
    model: &'a Model,
    nd: usize,
    policy: Pol,
    /// level the event-task triggers were given in the last live cycle
    trig: bool,
    /// sites armed in addition to the fault kind's own site (`Next::also_site`)
    also_armed: Vec<usize>,
    debugger: Option<DebugControl>,
    attach_debugger_after_fault: bool,
    /// number of `RetainStore::store` calls, when a retain store is configured
    retain_stores: Option<Arc<Mutex<u64>>>,
}

fn kind_fits(kind: &Kind, deliver_fail: Option<u8>, cycle: u8, model: &Model) -> bool {
    let nd = model.ndrivers;
    (match kind {
        Kind::Site { site } => (*site as usize) < model.sites.len(),
        Kind::Read { driver, .. } | Kind::Write { driver, .. } => (*driver as usize) < nd,
        _ => true,
    }) && deliver_fail.map(|d| (d as usize) < nd).unwrap_or(true)
        && (1..=FAULT_CYCLES).contains(&cycle)
}

fn kind_label(kind: &Kind) -> &'static str {
    match kind {
        Kind::Site { .. } => "runtime_error",
        Kind::Read { dead: false, .. } => "driver_read_error_transient",
        Kind::Read { dead: true, .. } => "driver_read_error_dead",
        Kind::Write { dead: false, .. } => "driver_write_error_transient",
        Kind::Write { dead: true, .. } => "driver_write_error_dead",
        Kind::Watchdog => "watchdog_timeout",
        Kind::Sim => "simulation_fault",
    }
}

fn error_label(e: &RuntimeError) -> String {
    if let RuntimeError::IoDriver(m) = e {
        return if m.contains("read") { "IoDriver(read_inputs)" } else { "IoDriver(write_outputs)" }.to_string();
    }
    let s = format!("{e:?}");
    s.split(['(', ' ', '{']).next().unwrap_or("").to_string()
}

impl Session<'_> {
    /// One cycle request on a resource that is expected to run: time +10 ms, the triggers of
    /// the SINGLE tasks toggle (an event task is due in every second cycle), execute_cycle.
    fn live_cycle(&mut self) -> Result<(), RuntimeError> {
        self.h.advance_time(Duration::from_millis(STEP_MS));
        self.trig = !self.trig;
        for t in &self.model.triggers {
            self.h
                .runtime_mut()
                .storage_mut()
                .set_global(t.as_str(), Value::Bool(self.trig));
        }
        self.h.runtime_mut().execute_cycle()
    }

    /// Make the fault cause of `kind` present (and the failing delivery driver, if any).
    fn arm(&mut self, kind: &Kind, deliver_fail: Option<u8>) {
        match kind {
            Kind::Site { site } => {
                let s = &self.model.sites[*site as usize];
                self.h
                    .runtime_mut()
                    .storage_mut()
                    .set_global(s.ctl.as_str(), Value::DInt(s.fault_value));
            }
            Kind::Read { driver, dead } => {
                let mut s = self.shared.lock().unwrap();
                s.read_mode[*driver as usize] = if *dead { Mode::FailAlways } else { Mode::FailOnce };
                if *dead {
                    s.write_mode[*driver as usize] = Mode::FailAlways;
                }
            }
            Kind::Write { driver, dead } => {
                let mut s = self.shared.lock().unwrap();
                // dead = the driver dies AT the publish: this and every later write fails (the
                // safe delivery too); its reads must not fail before the publish is reached
                s.write_mode[*driver as usize] = if *dead { Mode::FailAlways } else { Mode::FailOnce };
            }
            Kind::Watchdog | Kind::Sim => {}
        }
        if let Some(d) = deliver_fail {
            self.shared.lock().unwrap().write_mode[d as usize] = Mode::FailAlways;
        }
    }

    /// Remove every fault cause, so that a cycle that did run would succeed, change
    /// counters and call drivers.
    fn heal(&mut self, kind: &Kind) {
        {
            let mut guard = self.shared.lock().unwrap();
            let s = &mut *guard;
            for m in s.read_mode.iter_mut().chain(s.write_mode.iter_mut()) {
                *m = Mode::Ok;
            }
        }
        let mut sites: Vec<usize> = std::mem::take(&mut self.also_armed);
        if let Kind::Site { site } = kind {
            sites.push(*site as usize);
        }
        for k in sites {
            let s = &self.model.sites[k];
            self.h
                .runtime_mut()
                .storage_mut()
                .set_global(s.ctl.as_str(), Value::DInt(if s.form == Form::Index { 0 } else { 1 }));
        }
    }

    fn events(&self) -> usize {
        self.shared.lock().unwrap().events.len()
    }

    /// External inputs that are PENDING when a cycle is requested on the faulted resource;
    /// none of them may take effect while the request is refused: queued debugger writes
    /// (global, retain, instance, lvalue, input image), debugger forces (global, retain,
    /// instance, %I, a safe-state %Q address with the opposite value), fresh data in the
    /// input image behind an AT-bound variable, fresh driver input data (the drivers always
    /// have some), a dirty retain store. Returns what was queued (for messages).
    fn pend_external_inputs(&mut self, round: usize) -> Vec<&'static str> {
        let mut what = Vec::new();
        let model = self.model;
        let v = |n: i32| Value::DInt(1_000_000 + 10 * round as i32 + n);
        // input image behind `inw AT %IW0 : WORD` (the image is not a variable, `inw` is)
        if let Ok(addr) = IoAddress::parse("%IW0") {
            let _ = self
                .h
                .runtime_mut()
                .io_mut()
                .write(&addr, Value::Word(0xA5A5u16.wrapping_add(round as u16)));
            what.push("input image %IW0 written (AT-bound variable inw)");
        }
        if self.retain_stores.is_some() {
            self.h.runtime_mut().mark_retain_dirty();
            what.push("retain store marked dirty");
        }
        if let Some(dbg) = &self.debugger {
            let prog0 = match self.h.runtime().storage().get_global("I0") {
                Some(Value::Instance(id)) => Some(*id),
                _ => None,
            };
            dbg.enqueue_global_write("dbgw", v(1));
            dbg.enqueue_retain_write("dbgr", v(2));
            if let Some(id) = prog0 {
                dbg.enqueue_instance_write(id, "spare", v(3));
            }
            dbg.enqueue_lvalue_write(None, Vec::new(), LValue::Name("dbgw".into()), v(4));
            if let Ok(addr) = IoAddress::parse("%IW0") {
                dbg.enqueue_io_write(addr.clone(), Value::Word(0x1234));
                dbg.force_io(addr, Value::Word(0x4321));
            }
            dbg.force_global("dbgw", v(5));
            dbg.force_retain("dbgr", v(6));
            if let Some(id) = prog0 {
                dbg.force_instance(id, "spare", v(7));
            }
            if let Some(e) = model.safe.first() {
                let opposite = match &e.value {
                    Value::Bool(b) => Value::Bool(!b),
                    Value::Byte(x) => Value::Byte(!x),
                    Value::Word(x) => Value::Word(!x),
                    Value::DWord(x) => Value::DWord(!x),
                    Value::LWord(x) => Value::LWord(!x),
                    other => other.clone(),
                };
                dbg.force_io(e.addr.clone(), opposite);
            }
            what.push("debugger: queued global/retain/instance/lvalue/%I writes, forced global/retain/instance/%I/safe %Q");
        }
        what
    }

    /// Take the forces back, so that the rest of the history runs unforced. Queued writes
    /// cannot be taken back through the public API: they target `dbgw`, `dbgr`, `spare`
    /// and %IW0 only (never a counter or a control variable) and are applied by the first live cycle after a recovery.
    fn release_forces(&mut self) {
        if let Some(dbg) = &self.debugger {
            let prog0 = match self.h.runtime().storage().get_global("I0") {
                Some(Value::Instance(id)) => Some(*id),
                _ => None,
            };
            dbg.release_global("dbgw");
            dbg.release_retain("dbgr");
            if let Some(id) = prog0 {
                dbg.release_instance(id, "spare");
            }
            if let Ok(addr) = IoAddress::parse("%IW0") {
                dbg.release_io(&addr);
            }
            if let Some(e) = self.model.safe.first() {
                dbg.release_io(&e.addr);
            }
        }
    }

    /// The oracle for the moment a fault has just been reported and for the cycle requests
    /// that follow. `round` is 1 for the first fault of the runtime's life.
    fn verify_fault(
        &mut self,
        round: usize,
        kind: &Kind,
        reported: &RuntimeError,
        was_faulted: bool,
    ) -> Result<(), String> {
        let model = self.model;
        let nd = self.nd;
        let tag = if round == 1 { String::new() } else { format!("[fault #{round} of this runtime] ") };
        let events_at_report = self.events();
        let rt = self.h.runtime();
        if matches!(reported, RuntimeError::ResourceFaulted) {
            return Err(format!(
                "{tag}the faulting call itself reported ResourceFaulted although the resource was not faulted before"
            ));
        }
        if !rt.faulted() {
            return Err(format!(
                "{tag}after the fault {reported:?} was reported, faulted() is false (last_fault() = {:?})",
                rt.last_fault()
            ));
        }
        // A fault that hits a resource which is still faulted may or may not replace the
        // recorded root cause (the property is silent): only "a fault is recorded" is asked.
        if (was_faulted && rt.last_fault().is_none()) || (!was_faulted && rt.last_fault() != Some(reported)) {
            return Err(format!(
                "{tag}after the fault {reported:?} was reported, last_fault() is {:?}",
                rt.last_fault()
            ));
        }
        let safe_due = match (kind, reported) {
            // watchdog action halt and safe_halt both apply the safe state
            (Kind::Watchdog, _) | (_, RuntimeError::WatchdogTimeout) => true,
            _ => self.policy == Pol::SafeHalt,
        };
        let check_safe = |rt: &Runtime, when: &str| -> Result<(), String> {
            for e in &model.safe {
                match rt.io().read(&e.addr) {
                    Ok(v) if v == e.value => {}
                    other => {
                        return Err(format!(
                            "{tag}{when}: safe-state address {} reads {:?} from the output image {:?}, safe value is {:?}",
                            e.text,
                            other,
                            rt.io().outputs(),
                            e.value
                        ));
                    }
                }
            }
            Ok(())
        };
        if safe_due {
            check_safe(rt, "when the fault is reported")?;
            if !model.safe.is_empty() {
                let s = self.shared.lock().unwrap();
                for d in 0..nd {
                    let last = s.events.iter().rev().find_map(|ev| match ev {
                        Event::Write { driver, payload } if *driver == d => Some(payload),
                        _ => None,
                    });
                    let Some(payload) = last else {
                        return Err(format!(
                            "{tag}driver {d} never received an output image although the safe state is due (fault {reported:?})"
                        ));
                    };
                    for e in &model.safe {
                        let got = read_from_payload(payload, &e.addr);
                        if got.as_ref() != Ok(&e.value) {
                            return Err(format!(
                                "{tag}when the fault {reported:?} is reported, the last image driver {d} received is {:?}: address {} holds {:?}, safe value is {:?} (output image: {:?})",
                                payload,
                                e.text,
                                got,
                                e.value,
                                rt.io().outputs()
                            ));
                        }
                    }
                }
            }
        }
        let at_fault = counters(rt, model);

        // ---- later cycle requests -----------------------------------------------------
        self.heal(kind);
        if self.attach_debugger_after_fault && self.debugger.is_none() {
            self.debugger = Some(self.h.runtime_mut().enable_debug());
        }
        let pending = self.pend_external_inputs(round);
        let digest0 = storage_digest(self.h.runtime());
        let view0 = storage_view(self.h.runtime());
        let image0 = self.h.runtime().io().outputs().to_vec();
        let stores0 = self.retain_stores.as_ref().map(|c| *c.lock().unwrap());
        for later in 1..=LATER_CYCLES {
            self.h.advance_time(Duration::from_millis(STEP_MS));
            let res = self.h.runtime_mut().execute_cycle();
            let rt = self.h.runtime();
            if res != Err(RuntimeError::ResourceFaulted) {
                return Err(format!(
                    "{tag}cycle request {later} after the fault {reported:?} returned {res:?}, expected Err(ResourceFaulted)"
                ));
            }
            if !rt.faulted() {
                return Err(format!("{tag}faulted() became false after refused cycle request {later}"));
            }
            let now = counters(rt, model);
            if now != at_fault {
                return Err(format!(
                    "{tag}refused cycle request {later} executed program statements: site counters {at_fault:?} -> {now:?}"
                ));
            }
            if storage_digest(rt) != digest0 {
                return Err(format!(
                    "{tag}refused cycle request {later} changed a variable: {} (pending external inputs: {pending:?})",
                    storage_diff(&view0, &storage_view(rt))
                ));
            }
            if let (Some(c), Some(n0)) = (&self.retain_stores, stores0) {
                let n = *c.lock().unwrap();
                if n != n0 {
                    return Err(format!(
                        "{tag}refused cycle request {later} wrote to the retain store ({n0} -> {n} store calls)"
                    ));
                }
            }
            if rt.io().outputs() != image0.as_slice() {
                return Err(format!(
                    "{tag}refused cycle request {later} changed the output image {:?} -> {:?}",
                    image0,
                    rt.io().outputs()
                ));
            }
            if self.events() != events_at_report {
                let s = self.shared.lock().unwrap();
                return Err(format!(
                    "{tag}refused cycle request {later} called a driver: {:?}",
                    &s.events[events_at_report..]
                ));
            }
            if safe_due {
                check_safe(rt, "after a refused cycle request")?;
            }
        }
        self.release_forces();
        Ok(())
    }
}

/// Outcome of a later round that gives no verdict (the property is silent there).
enum RoundEnd {
    Checked,
    NoVerdict(&'static str),
}

fn check_point_inner(model: &Model, point: &Point, probe: &mut Probe) -> Result<(), String> {
    let nd = model.ndrivers;
    // a replayed/hand-written point may not fit the program: that is not a violation
    let fits = kind_fits(&point.kind, point.deliver_fail, point.cycle, model)
        && point
            .more
            .iter()
            .all(|n| {
                kind_fits(&n.kind, n.deliver_fail, n.cycle, model)
                    && n.also_site.map(|a| (a as usize) < model.sites.len()).unwrap_or(true)
                    && (n.via != Via::Stay || matches!(n.kind, Kind::Watchdog | Kind::Sim))
            });
    if !fits {
        probe.label("point_does_not_fit_program");
        return Ok(());
    }

    let mut h = match TestHarness::from_source(&model.source) {
        Ok(h) => h,
        Err(e) => {
            trouble(format!("generated program does not compile: {e:?}\n{}", model.source));
            return Ok(());
        }
    };
    let shared = Arc::new(Mutex::new(Shared {
        events: Vec::new(),
        read_mode: vec![Mode::Ok; nd],
        write_mode: vec![Mode::Ok; nd],
        observer: None,
        seen: Vec::new(),
    }));
    {
        let rt = h.runtime_mut();
        rt.set_fault_policy(pol_fault(point.policy));
        rt.set_watchdog_policy(WatchdogPolicy {
            enabled: true,
            timeout: Duration::from_millis(1000),
            action: pol_watchdog(point.watchdog),
        });
        rt.set_io_safe_state(IoSafeState {
            outputs: model
                .safe
                .iter()
                .map(|e| (e.addr.clone(), e.value.clone()))
                .collect(),
        });
        for d in 0..nd {
            rt.add_io_driver(
                format!("drv{d}"),
                Box::new(LogDriver {
                    id: d,
                    shared: shared.clone(),
                }),
            );
        }
    }
    let mut sess = Session {
        h,
        shared,
        model,
        nd,
        policy: point.policy,
        trig: false,
        also_armed: Vec::new(),
        debugger: None,
        attach_debugger_after_fault: point.debugger == DebugAttach::AfterFirstFault,
        retain_stores: None,
    };
    if point.debugger == DebugAttach::FromStart {
        sess.debugger = Some(sess.h.runtime_mut().enable_debug());
    }
    if point.retain_store {
        let stores = Arc::new(Mutex::new(0u64));
        sess.h.runtime_mut().set_retain_store(
            Some(Box::new(LogRetainStore {
                stores: stores.clone(),
            })),
            Some(Duration::from_millis(0)),
        );
        sess.retain_stores = Some(stores);
    }
    probe.label(format!("debugger={:?}", point.debugger));
    probe.label(if point.retain_store { "retain_store=configured" } else { "retain_store=none" });

    // ---- round 1: run up to the first fault ---------------------------------------------
    let in_cycle = matches!(point.kind, Kind::Site { .. } | Kind::Read { .. } | Kind::Write { .. });
    let mut before_fault_cycle: Vec<i64> = Vec::new();
    let mut reported: Option<RuntimeError> = None;
    for c in 1..=point.cycle {
        let faulting = in_cycle && c == point.cycle;
        if faulting {
            sess.arm(&point.kind, point.deliver_fail);
            before_fault_cycle = counters(sess.h.runtime(), model);
        }
        let res = sess.live_cycle();
        match (faulting, res) {
            (false, Ok(())) => {}
            (false, Err(e)) => {
                return Err(format!(
                    "cycle {c} before the injected fault returned {e:?} (the fault-free run of this program does not fault)"
                ));
            }
            (true, Ok(())) => {
                return Err(format!(
                    "the injected fault did not surface: execute_cycle returned Ok in cycle {c} and faulted()={}",
                    sess.h.runtime().faulted()
                ));
            }
            (true, Err(e)) => reported = Some(e),
        }
    }
    if !in_cycle {
        sess.arm(&point.kind, point.deliver_fail);
        before_fault_cycle = counters(sess.h.runtime(), model);
        let rt = sess.h.runtime_mut();
        reported = Some(match point.kind {
            Kind::Watchdog => rt.watchdog_timeout(),
            _ => rt.simulation_fault("injected by C08"),
        });
    }
    let reported = reported.expect("a fault was injected");
    probe.label(format!("error={}", error_label(&reported)));
    if let (Kind::Site { .. }, RuntimeError::IoDriver(_)) = (&point.kind, &reported) {
        return Err(format!(
            "the injected runtime error did not surface: the cycle reached the output publish and reported {reported:?}"
        ));
    }
    let at_fault = counters(sess.h.runtime(), model);
    sess.verify_fault(1, &point.kind, &reported, false)?;

    // classification of the first fault (empirical: which other programs ran in the faulting cycle)
    let safe_due = matches!(point.kind, Kind::Watchdog) || point.policy == Pol::SafeHalt;
    let mut nontrivial = nd >= 2;
    if nd >= 2 {
        probe.label("class=ge2_drivers");
    }
    if let Kind::Site { site } = &point.kind {
        let s = &model.sites[*site as usize];
        let fp = s.prog;
        probe.label(format!("form={}", s.form.name()));
        if s.form.depth() >= 1 {
            probe.label(format!("class=nested_call_depth{}", s.form.depth()));
            nontrivial = true;
        }
        let mut other_prog = false;
        let mut other_task = false;
        for (j, o) in model.sites.iter().enumerate() {
            if before_fault_cycle.get(j) != at_fault.get(j) && o.prog != fp {
                other_prog = true;
                if o.task != s.task {
                    other_task = true;
                }
            }
        }
        if other_prog {
            probe.label("class=not_first_program_of_cycle");
            nontrivial = true;
        }
        if other_task {
            probe.label("class=not_first_task_of_cycle");
        }
        if s.task.is_none() {
            probe.label("class=background_program");
        }
        if let Some(t) = s.task {
            if model.event_task[t] {
                probe.label("class=site_in_event_task");
            }
            let task_bound = matches!(s.form, Form::TaskFb | Form::TaskFbFn);
            let task_has_program = model.prog_task.iter().any(|pt| *pt == Some(t));
            let task_has_fb = model
                .sites
                .iter()
                .any(|o| o.task == Some(t) && matches!(o.form, Form::TaskFb | Form::TaskFbFn));
            if task_bound && !task_has_program {
                probe.label("class=site_in_fb_only_task");
                nontrivial = true;
            }
            if task_bound && task_has_program {
                probe.label("class=task_bound_fb_site_after_programs");
                nontrivial = true;
            }
            if !task_bound && task_has_fb {
                probe.label("class=program_site_in_task_that_also_runs_fb_instances");
                nontrivial = true;
            }
        }
    }
    if safe_due && model.safe.iter().any(|e| e.overlaps_output) {
        probe.label("class=safe_address_overlaps_program_output");
        nontrivial = true;
    }
    probe.label(format!("kind={}", kind_label(&point.kind)));
    probe.label(format!("policy={:?}/watchdog={:?}", point.policy, point.watchdog));
    probe.label(if safe_due { "safe_state=due" } else { "safe_state=not_due" });
    probe.label(format!("drivers={nd}"));
    probe.label(format!("safe_map_entries={}", model.safe.len()));
    probe.label(format!("fault_cycle={}", point.cycle));
    if point.deliver_fail.is_some() {
        probe.label("class=a_driver_fails_during_safe_delivery");
    }

    // ---- rounds 2..: recover, fault again, same oracle -------------------------------------
    let mut rounds_checked = 1usize;
    for (i, next) in point.more.iter().enumerate() {
        let round = i + 2;
        match later_round(&mut sess, round, next, probe)? {
            RoundEnd::Checked => rounds_checked = round,
            RoundEnd::NoVerdict(why) => {
                probe.label(format!("round{round}_no_verdict={why}"));
                // the history cannot be continued meaningfully; the rounds before it count
                if nontrivial {
                    mark_nontrivial(model, point, nd, &reported, probe);
                }
                probe.label(format!("rounds_checked={rounds_checked}"));
                return Ok(());
            }
        }
    }
    probe.label(format!("rounds_checked={rounds_checked}"));

    // ---- restart clears the latch -----------------------------------------------------------
    let events_before = sess.events();
    let mode = if point.warm_restart { RestartMode::Warm } else { RestartMode::Cold };
    if let Err(e) = sess.h.runtime_mut().restart(mode) {
        return Err(format!("restart({mode:?}) after fault #{rounds_checked} failed: {e:?}"));
    }
    if sess.h.runtime().faulted() {
        return Err(format!("faulted() is still true after restart({mode:?}) (after fault #{rounds_checked})"));
    }
    let res = sess.live_cycle();
    if res == Err(RuntimeError::ResourceFaulted) {
        return Err(format!(
            "the first cycle after restart({mode:?}) (after fault #{rounds_checked}) is still refused with ResourceFaulted"
        ));
    }
    if res.is_ok() && sess.h.runtime().faulted() {
        return Err(format!("faulted() is true after a successful cycle following restart({mode:?})"));
    }
    if sess.events() == events_before {
        return Err(format!("the first cycle after restart({mode:?}) did not call any driver"));
    }

    if nontrivial {
        mark_nontrivial(model, point, nd, &reported, probe);
    }
    Ok(())
}

fn mark_nontrivial(model: &Model, point: &Point, nd: usize, reported: &RuntimeError, probe: &mut Probe) {
    let mut key = model.source.as_bytes().to_vec();
    key.extend_from_slice(format!("{:?}{:?}", model.safe, point).as_bytes());
    probe.nontrivial(&key);
    probe.sample(json!({
        "point": point,
        "drivers": nd,
        "safe_map": model.safe.iter().map(|e| format!("{}={:?}", e.text, e.value)).collect::<Vec<_>>(),
        "error": format!("{reported:?}"),
        "program": model.source,
    }));
}

/// One more round on the same runtime: recover from the previous fault (`next.via`), run
/// `next.cycle - 1` clean cycles, make the cause of `next.kind` present and run until a
/// fault surfaces; whatever error surfaces first is fault #`round` and gets the full oracle.
fn later_round(sess: &mut Session<'_>, round: usize, next: &Next, probe: &mut Probe) -> Result<RoundEnd, String> {
    let model = sess.model;
    let via = match next.via {
        Via::RestartWarm => "restart_warm",
        Via::RestartCold => "restart_cold",
        Via::ClearFault => "clear_fault",
        Via::Stay => "no_recovery",
    };
    match next.via {
        Via::Stay => {}
        Via::RestartWarm | Via::RestartCold => {
            let mode = if next.via == Via::RestartWarm { RestartMode::Warm } else { RestartMode::Cold };
            if let Err(e) = sess.h.runtime_mut().restart(mode) {
                return Err(format!("restart({mode:?}) after fault #{} failed: {e:?}", round - 1));
            }
            if sess.h.runtime().faulted() {
                return Err(format!("faulted() is still true after restart({mode:?}) (after fault #{})", round - 1));
            }
        }
        Via::ClearFault => {
            // `clear_fault()` ("Clear the faulted state (used by tests and tooling)") is not
            // mentioned by the property: it is only a second route to a second fault and
            // nothing is asserted about clear_fault itself.
            sess.h.runtime_mut().clear_fault();
            if sess.h.runtime().faulted() {
                return Ok(RoundEnd::NoVerdict("clear_fault_left_faulted"));
            }
        }
    }
    // policy switches between the faults
    if let Some(p) = next.set_policy {
        sess.h.runtime_mut().set_fault_policy(pol_fault(p));
        sess.policy = p;
        probe.label(format!("round{round}_fault_policy_set"));
    }
    if let Some(w) = next.set_watchdog {
        sess.h.runtime_mut().set_watchdog_policy(WatchdogPolicy {
            enabled: true,
            timeout: Duration::from_millis(1000),
            action: pol_watchdog(w),
        });
        probe.label(format!("round{round}_watchdog_action_set"));
    }
    // clean cycles before the next fault (none when the resource stays faulted)
    let clean = if next.via == Via::Stay { 1 } else { next.cycle };
    for c in 1..clean {
        match sess.live_cycle() {
            Ok(()) => {}
            Err(RuntimeError::ResourceFaulted) if next.via != Via::ClearFault => {
                return Err(format!(
                    "cycle {c} after {via} (after fault #{}) is refused with ResourceFaulted",
                    round - 1
                ));
            }
            Err(_) => return Ok(RoundEnd::NoVerdict("clean_cycle_after_recovery_returned_error")),
        }
    }
    sess.arm(&next.kind, next.deliver_fail);
    if let (Kind::Site { .. }, Some(a)) = (&next.kind, next.also_site) {
        let s = &model.sites[a as usize];
        sess.h
            .runtime_mut()
            .storage_mut()
            .set_global(s.ctl.as_str(), Value::DInt(s.fault_value));
        sess.also_armed.push(a as usize);
        probe.label(format!("round{round}_two_sites_armed"));
    }
    let in_cycle = matches!(next.kind, Kind::Site { .. } | Kind::Read { .. } | Kind::Write { .. });
    let mut reported: Option<RuntimeError> = None;
    if in_cycle {
        // a site may not be scheduled in the very next cycle (20/30 ms tasks): give it 4
        let tries = if matches!(next.kind, Kind::Site { .. }) { 4 } else { 1 };
        for _ in 0..tries {
            let before = counters(sess.h.runtime(), model);
            match sess.live_cycle() {
                Err(RuntimeError::ResourceFaulted) if next.via == Via::ClearFault && reported.is_none() => {
                    return Ok(RoundEnd::NoVerdict("refused_after_clear_fault"));
                }
                Err(e) => {
                    reported = Some(e);
                    break;
                }
                Ok(()) => {
                    let after = counters(sess.h.runtime(), model);
                    match &next.kind {
                        Kind::Site { site } => {
                            if before[*site as usize] != after[*site as usize] {
                                return Err(format!(
                                    "[fault #{round} of this runtime] the injected runtime error did not surface: site {site} executed (counter {} -> {}) with its faulting value and execute_cycle returned Ok",
                                    before[*site as usize],
                                    after[*site as usize]
                                ));
                            }
                        }
                        _ => {
                            return Err(format!(
                                "[fault #{round} of this runtime] the injected driver error did not surface: execute_cycle returned Ok, faulted()={}",
                                sess.h.runtime().faulted()
                            ));
                        }
                    }
                }
            }
        }
        if reported.is_none() {
            return Ok(RoundEnd::NoVerdict("site_not_scheduled_after_recovery"));
        }
    } else {
        let rt = sess.h.runtime_mut();
        reported = Some(match next.kind {
            Kind::Watchdog => rt.watchdog_timeout(),
            _ => rt.simulation_fault("injected by C08, again"),
        });
    }
    let reported = reported.expect("set above");
    probe.label(format!("round{round}_via={via}"));
    probe.label(format!("round{round}_kind={}", kind_label(&next.kind)));
    probe.label(format!("round{round}_error={}", error_label(&reported)));
    sess.verify_fault(round, &next.kind, &reported, next.via == Via::Stay)?;
    Ok(RoundEnd::Checked)
}

// ---------------------------------------------------------------------------------------
// The same guarantee through the resource scheduler thread (scheduler.rs)
// ---------------------------------------------------------------------------------------

#[derive(Clone, Debug, Serialize, Deserialize)]
pub struct RunnerCase {
    pub tape: Tape,
    /// selects the site whose divisor/index is set to the faulting value before the
    /// runner starts; None = no runtime error, the watchdog (negative timeout) trips
    pub site: Option<u32>,
    pub policy: Pol,
    pub watchdog: Pol,
    /// a driver whose write_outputs fails once the fault is due
    pub deliver_fail: Option<u32>,
    /// Some(c): no runtime error and no watchdog; a `SimulationController` scripted with a
    /// Fault disturbance raises `simulation_fault` before cycle 1 + c % 3
    #[serde(default)]
    pub sim: Option<u8>,
    /// run the thread with `spawn_with_shared` (the second resource loop of scheduler.rs)
    #[serde(default)]
    pub shared: bool,
    /// replay files only, see `PointCase::expect_map`
    #[serde(default)]
    pub expect_map: Option<String>,
}

/// Deterministic clock: every `now()` is 10 ms after the previous one; counts the calls.
#[derive(Clone, Debug)]
struct StepClock {
    inner: Arc<Mutex<(i64, u64)>>,
}

impl Clock for StepClock {
    fn now(&self) -> Duration {
        let mut g = self.inner.lock().unwrap();
        g.0 += STEP_MS * 1_000_000;
        g.1 += 1;
        Duration::from_nanos(g.0)
    }
    fn sleep_until(&self, _deadline: Duration) {}
}

const RUNNER_MAX_CYCLES: u64 = 40;

fn check_runner(case: &RunnerCase, probe: &mut Probe) -> Result<(), String> {
    let model = generate(&case.tape);
    if let Some(want) = &case.expect_map {
        if *want != map_text(&model) {
            trouble(format!(
                "a replay tape no longer generates the configuration it was recorded for (map now [{}], recorded [{want}]); re-record the tape",
                map_text(&model)
            ));
            return Ok(());
        }
    }
    let nd = model.ndrivers;
    // which fault: a scripted simulation fault, a runtime error at a site, or a watchdog trip
    let sim_cycle = case.sim.map(|c| 1 + (c % FAULT_CYCLES) as i64);
    let site = if sim_cycle.is_some() {
        None
    } else {
        case.site.map(|s| (s as u64 * model.sites.len() as u64 >> 32) as usize)
    };
    let watchdog_trip = sim_cycle.is_none() && site.is_none();
    let mut deliver_fail = case.deliver_fail.map(|d| (d as u64 * nd as u64 >> 32) as usize);
    match (site, sim_cycle, deliver_fail) {
        (Some(k), _, Some(_)) => {
            // a failing delivery can only be armed from the start when the site faults in the
            // very first cycle (otherwise an earlier publish would hit the failing driver)
            match dry_run(&model) {
                Ok(runs) if runs[0][k] => {}
                Ok(_) => deliver_fail = None,
                Err(msg) => {
                    trouble(format!("{msg}\n{}", model.source));
                    return Ok(());
                }
            }
        }
        // the simulation fault of cycle 1 is raised before that cycle runs: nothing is
        // published before it either
        (None, Some(1), Some(_)) => {}
        _ => deliver_fail = None,
    }
    let h = match TestHarness::from_source(&model.source) {
        Ok(h) => h,
        Err(e) => {
            trouble(format!("generated program does not compile: {e:?}\n{}", model.source));
            return Ok(());
        }
    };
    let mut rt = h.into_runtime();
    let shared = Arc::new(Mutex::new(Shared {
        events: Vec::new(),
        read_mode: vec![Mode::Ok; nd],
        write_mode: vec![Mode::Ok; nd],
        observer: None,
        seen: Vec::new(),
    }));
    rt.set_fault_policy(pol_fault(case.policy));
    rt.set_watchdog_policy(WatchdogPolicy {
        // the scheduler compares wall-clock nanoseconds with the timeout: a negative
        // timeout trips after the first completed cycle whatever the machine does
        enabled: watchdog_trip,
        timeout: Duration::from_nanos(-1),
        action: pol_watchdog(case.watchdog),
    });
    rt.set_io_safe_state(IoSafeState {
        outputs: model.safe.iter().map(|e| (e.addr.clone(), e.value.clone())).collect(),
    });
    for d in 0..nd {
        rt.add_io_driver(format!("drv{d}"), Box::new(LogDriver { id: d, shared: shared.clone() }));
    }
    // event tasks: one rising edge, in the first cycle
    for t in &model.triggers {
        rt.storage_mut().set_global(t.as_str(), Value::Bool(true));
    }
    if let Some(k) = site {
        let s = &model.sites[k];
        rt.storage_mut().set_global(s.ctl.as_str(), Value::DInt(s.fault_value));
    }
    // with a fault before the first publish the next write_outputs of this driver is the
    // safe delivery
    if let Some(d) = deliver_fail {
        shared.lock().unwrap().write_mode[d] = Mode::FailAlways;
    }
    let shared_globals = if case.shared {
        let names: Vec<smol_str::SmolStr> = vec![model.sites[0].counter.as_str().into()];
        match SharedGlobals::from_runtime(names, &rt) {
            Ok(g) => Some(g),
            Err(e) => {
                trouble(format!("SharedGlobals::from_runtime failed: {e:?}"));
                return Ok(());
            }
        }
    } else {
        None
    };
    let clock = StepClock { inner: Arc::new(Mutex::new((0, 0))) };
    let gate = Arc::new(StartGate::new());
    let mut runner = ResourceRunner::new(rt, clock.clone(), Duration::from_millis(STEP_MS))
        .with_start_gate(gate.clone());
    if let Some(c) = sim_cycle {
        runner = runner.with_simulation(SimulationController::new(SimulationConfig {
            enabled: true,
            seed: 0,
            time_scale: 1,
            couplings: Vec::new(),
            disturbances: vec![SimulationDisturbance {
                at: Duration::from_millis(STEP_MS * c),
                kind: SimulationDisturbanceKind::Fault {
                    message: "scripted by C08".into(),
                },
            }],
        }));
    }
    let spawned = match shared_globals {
        Some(g) => runner.spawn_with_shared("c08-runner", g),
        None => runner.spawn("c08-runner"),
    };
    let mut handle = spawned.map_err(|e| format!("cannot spawn the resource thread: {e:?}"))?;
    // every driver call records what an outside observer of the resource sees at that moment
    {
        let control = handle.control();
        shared.lock().unwrap().observer = Some(Box::new(move || (control.state(), control.last_error())));
    }
    gate.open();
    // wait until the thread reports Faulted, or the deterministic cycle bound is exceeded
    let mut gave_up = false;
    let started = std::time::Instant::now();
    loop {
        if handle.state() == ResourceState::Faulted || handle.state() == ResourceState::Stopped {
            break;
        }
        let cycles = clock.inner.lock().unwrap().1;
        if cycles > RUNNER_MAX_CYCLES {
            break;
        }
        if started.elapsed() > std::time::Duration::from_secs(120) {
            gave_up = true;
            break;
        }
        std::thread::yield_now();
    }
    let state = handle.state();
    handle.stop();
    let _ = handle.join();
    let last_error = handle.last_error();
    shared.lock().unwrap().observer = None;
    if gave_up {
        // infrastructure (machine stalled), never a verdict
        probe.label("runner=wall_clock_guard_hit");
        return Ok(());
    }
    let ctx_text = || {
        format!(
            "\n--- runner case site={site:?} simulation_fault_cycle={sim_cycle:?} shared_globals={} policy={:?} watchdog={:?} deliver_fail={deliver_fail:?}; {} driver(s); safe-state map {:?}; program:\n{}",
            case.shared,
            case.policy,
            case.watchdog,
            nd,
            model.safe.iter().map(|e| format!("{}={:?}", e.text, e.value)).collect::<Vec<_>>(),
            model.source
        )
    };
    if state != ResourceState::Faulted {
        return Err(format!(
            "the resource thread ran {RUNNER_MAX_CYCLES} cycles without entering the Faulted state (state {state:?}, last error {last_error:?}) although a fault was due in one of the first 3 cycles{}",
            ctx_text()
        ));
    }
    let Some(err) = last_error else {
        return Err(format!("resource state is Faulted but last_error() is None{}", ctx_text()));
    };
    match (&err, watchdog_trip, sim_cycle.is_some()) {
        (RuntimeError::WatchdogTimeout, true, _) => {}
        (other, true, _) => {
            return Err(format!("watchdog trip expected, the resource thread reported {other:?}{}", ctx_text()));
        }
        (RuntimeError::SimulationFault(_), _, true) => {}
        (other, _, true) => {
            return Err(format!("scripted simulation fault expected, the resource thread reported {other:?}{}", ctx_text()));
        }
        (RuntimeError::WatchdogTimeout | RuntimeError::ResourceFaulted | RuntimeError::IoDriver(_), _, _) => {
            return Err(format!("runtime error expected, the resource thread reported {err:?}{}", ctx_text()));
        }
        _ => {}
    }
    let s = shared.lock().unwrap();
    // "delivered to every driver BEFORE the fault is reported": whenever a driver is handed an
    // image (or polled for inputs) nobody outside may be able to see the fault yet, and once
    // it is visible no driver is called any more
    for (idx, seen_state, seen_error) in &s.seen {
        if *seen_state == ResourceState::Faulted || seen_error.is_some() {
            return Err(format!(
                "driver call {:?} (event {idx} of {}) happened while the resource already reported state {seen_state:?} / last_error {seen_error:?}: the fault {err:?} was visible before the drivers had received the image{}",
                s.events[*idx],
                s.events.len(),
                ctx_text()
            ));
        }
    }
    if s.seen.len() != s.events.len() {
        drop(s);
        trouble("the state observer missed driver calls".into());
        return Ok(());
    }
    let safe_due = watchdog_trip || case.policy == Pol::SafeHalt;
    if safe_due && !model.safe.is_empty() {
        for d in 0..nd {
            let last = s.events.iter().rev().find_map(|ev| match ev {
                Event::Write { driver, payload } if *driver == d => Some(payload),
                _ => None,
            });
            let Some(payload) = last else {
                return Err(format!(
                    "driver {d} never received an output image although the safe state is due (fault {err:?}){}",
                    ctx_text()
                ));
            };
            for e in &model.safe {
                let got = read_from_payload(payload, &e.addr);
                if got.as_ref() != Ok(&e.value) {
                    return Err(format!(
                        "resource thread faulted with {err:?}; the last image driver {d} received is {payload:?}: address {} holds {got:?}, safe value is {:?}{}",
                        e.text,
                        e.value,
                        ctx_text()
                    ));
                }
            }
        }
    }
    probe.label(if watchdog_trip {
        "runner=watchdog_trip"
    } else if sim_cycle.is_some() {
        "runner=simulation_fault"
    } else {
        "runner=runtime_error"
    });
    probe.label(if case.shared { "runner_loop=spawn_with_shared" } else { "runner_loop=spawn" });
    probe.label(if safe_due { "runner_safe_state=due" } else { "runner_safe_state=not_due" });
    probe.label(format!("runner_action={:?}", case.watchdog));
    if nd >= 2 || model.safe.iter().any(|e| e.overlaps_output) {
        let mut key = model.source.as_bytes().to_vec();
        key.extend_from_slice(
            format!(
                "runner{:?}{site:?}{sim_cycle:?}{}{:?}{:?}{deliver_fail:?}",
                model.safe, case.shared, case.policy, case.watchdog
            )
            .as_bytes(),
        );
        probe.nontrivial(&key);
    }
    Ok(())
}

fn map_text(model: &Model) -> String {
    model
        .safe
        .iter()
        .map(|e| format!("{}={:?}", e.text, e.value))
        .collect::<Vec<_>>()
        .join(", ")
}

fn check_case(case: &PointCase, probe: &mut Probe) -> Result<(), String> {
    let model = generate(&case.tape);
    if let Some(want) = &case.expect_map {
        if *want != map_text(&model) {
            trouble(format!(
                "a replay tape no longer generates the configuration it was recorded for (map now [{}], recorded [{want}]); re-record the tape",
                map_text(&model)
            ));
            return Ok(());
        }
    }
    check_point(&model, &case.point, probe)
}

/// Tape of program number `index`, drawn through the proptest strategy from a generator
/// seeded by (VERIF_SEED, index) only - independent of the number of workers.
fn tape_for(seed: u64, index: u32) -> Tape {
    let mut h = Sha256::new();
    h.update(b"C08-program");
    h.update(seed.to_le_bytes());
    h.update(index.to_le_bytes());
    let bytes: [u8; 32] = h.finalize().into();
    let rng = TestRng::from_seed(RngAlgorithm::ChaCha, &bytes);
    let mut runner = TestRunner::new_with_rng(Config::default(), rng);
    // lengths are uniform in 0..400 and a full configuration consumes ~100 words: about a
    // quarter of the programs are cut short (zero tail = simplest choices), the rest are full
    tape_strategy(400)
        .new_tree(&mut runner)
        .expect("tape strategy")
        .current()
}

fn run(ctx: &mut RunCtx) {
    // replay tier (reproducers of fixed/open findings) - single fault points
    let replay_strategy = tape_strategy(4).prop_map(|tape| PointCase {
        tape,
        point: Point {
            kind: Kind::Sim,
            cycle: 1,
            policy: Pol::SafeHalt,
            watchdog: Pol::SafeHalt,
            deliver_fail: None,
            warm_restart: false,
            more: Vec::new(),
            debugger: DebugAttach::Never,
            retain_store: false,
        },
        expect_map: None,
    });
    ctx.search("point", replay_strategy, 0, check_case);
    flush_trouble(ctx);
    let pol = || prop_oneof![Just(Pol::Halt), Just(Pol::SafeHalt)];
    let runner_strategy = (
        tape_strategy(400),
        proptest::option::weighted(0.6, any::<u32>()),
        pol(),
        pol(),
        proptest::option::weighted(0.4, any::<u32>()),
        proptest::option::weighted(0.25, 0u8..3),
        any::<bool>(),
    )
        .prop_map(|(tape, site, policy, watchdog, deliver_fail, sim, shared)| RunnerCase {
            tape,
            site,
            policy,
            watchdog,
            deliver_fail,
            sim,
            shared,
            expect_map: None,
        });
    ctx.search("runner", runner_strategy, ctx.tier.pick(600, 12000), check_runner);
    flush_trouble(ctx);
    if ctx.only_replay.is_some() {
        return;
    }

    let nprograms = ctx.tier.pick(48, 2400);
    let mut reported = 0usize;
    let mut seen_sources: BTreeSet<u64> = BTreeSet::new();
    for index in 0..nprograms {
        if index as usize % ctx.nworkers.max(1) != ctx.worker {
            continue;
        }
        let tape = tape_for(ctx.seed, index);
        let model = generate(&tape);
        if !seen_sources.insert(crate::engine::digest64(
            format!("{}{:?}{}", model.source, model.safe, model.ndrivers).as_bytes(),
        )) {
            continue;
        }
        let runs = match dry_run(&model) {
            Ok(r) => r,
            Err(msg) => {
                ctx.inconclusive(format!(
                    "generator trouble (not a violation): {msg}\n{}",
                    model.source
                ));
                continue;
            }
        };
        let points = enumerate_points(&model, &runs);
        for point in points {
            let case = PointCase {
                tape: tape.clone(),
                point,
                expect_map: None,
            };
            let j = serde_json::to_value(&case).unwrap();
            let before = ctx.stats.violations.len();
            ctx.enumerated("point", &j, |probe| check_point(&model, &case.point, probe));
            if ctx.stats.violations.len() > before {
                reported += 1;
                break; // one report per program is enough; go on with the next program
            }
        }
        if reported >= 3 {
            break;
        }
    }
    flush_trouble(ctx);
}
